//! C19 — end to end over real Unix sockets (tokio and smol) nothing is lost or corrupted.
//!
//! Real kernel sockets and real runtimes. Time only *drives* the workload (reader delays, when a
//! send is abandoned); every verdict is computed from the recorded byte / message history.

use crate::cfg::Cfg;
use futures_util::future::{select, Either};
use serde::{Deserialize, Serialize};
use serde_json::json;
use std::{
    borrow::Cow,
    collections::HashSet,
    future::Future,
    os::fd::OwnedFd,
    path::PathBuf,
    time::Duration,
};
use vnet::{Report, Rng};
use zlink_core::{
    connection::{socket::Socket, ReadConnection, WriteConnection},
    Call, Connection, Listener as _,
};

// ---- a watchdog for steps that can only block the executor thread ---------------------------------
//
// Establishing a local connection (socketpair, bind + connect + accept) takes microseconds. If that
// step makes no progress for 60 s the executor thread is blocked inside it (e.g. a blocking accept(2)
// on a listener that was left in blocking mode), which no cooperative timer can interrupt. A watchdog
// thread then writes a report with that one violation and ends the process. Data transfer phases are
// never judged by time.

static PHASE: std::sync::Mutex<Option<(String, std::time::Instant, bool)>> = std::sync::Mutex::new(None);

fn phase(what: &str, judged: bool) {
    *PHASE.lock().unwrap() = Some((what.to_string(), std::time::Instant::now(), judged));
}

fn start_watchdog(out: Option<String>) {
    std::thread::spawn(move || loop {
        std::thread::sleep(Duration::from_secs(2));
        let p = PHASE.lock().unwrap().clone();
        if let Some((what, since, true)) = p {
            if since.elapsed() > Duration::from_secs(60) {
                let mut rep = Report::new("C19", "c19");
                rep.evaluations = 1;
                rep.distinct.insert(1);
                rep.violation(
                    &format!("C19/connection-setup-blocks-the-executor:{}", what.split(' ').next().unwrap_or("")),
                    format!("no progress for 60 s while establishing a local connection ({what}): the executor thread is blocked"),
                    json!({"monitor": "c19", "case": what}),
                );
                let js = serde_json::to_string(&rep.to_json()).unwrap();
                match &out {
                    Some(p) => {
                        let _ = std::fs::write(p, js);
                    }
                    None => println!("{js}"),
                }
                std::process::exit(0);
            }
        }
    });
}

#[derive(Debug, Clone, Copy, PartialEq, Eq)]
pub enum Kind {
    TokioCurrent,
    TokioMulti,
    Smol,
}

impl Kind {
    pub fn name(self) -> &'static str {
        match self {
            Kind::TokioCurrent => "tokio-current-thread",
            Kind::TokioMulti => "tokio-multi-thread",
            Kind::Smol => "smol",
        }
    }
}

pub(crate) async fn sleep(kind: Kind, d: Duration) {
    match kind {
        Kind::Smol => {
            smol::Timer::after(d).await;
        }
        _ => tokio::time::sleep(d).await,
    }
}

/// `Some(output)` if `fut` finished within `d`, `None` if it was abandoned (dropped) at the deadline.
pub(crate) async fn with_deadline<F: Future>(kind: Kind, d: Duration, fut: F) -> Option<F::Output> {
    let fut = core::pin::pin!(fut);
    let t = core::pin::pin!(sleep(kind, d));
    match select(fut, t).await {
        Either::Left((v, _)) => Some(v),
        Either::Right(_) => None,
    }
}

#[derive(Debug, Serialize, Deserialize, PartialEq)]
#[serde(tag = "method", content = "parameters")]
pub enum Msg<'a> {
    #[serde(rename = "x.Data")]
    Data {
        id: u64,
        dir: u8,
        len: usize,
        #[serde(borrow)]
        body: Cow<'a, str>,
    },
}

/// The body of message (dir, id): deterministic, so the receiver can regenerate and compare it.
pub fn body(dir: u8, id: u64, len: usize) -> String {
    let mut r = Rng::derive(0xC19, (dir as u64) << 40 | id);
    const A: &[u8] = b"abcdefghijklmnopqrstuvwxyzABCDEFGHIJKLMNOPQRSTUVWXYZ0123456789-_ .";
    let mut s = String::with_capacity(len);
    let mut x = 0u64;
    for i in 0..len {
        if i % 8 == 0 {
            x = r.next_u64();
        }
        s.push(A[(x & 63) as usize] as char);
        x >>= 8;
    }
    s
}

pub fn sizes(rng: &mut Rng, n: usize, max: usize) -> Vec<usize> {
    (0..n)
        .map(|i| match (i + rng.below(3)) % 9 {
            0 => 0,
            1 => rng.range(1, 30),
            2 => *rng.pick(&[180, 200, 254, 255, 256, 257, 510, 511, 512, 513]),
            3 => rng.range(600, 5000),
            4 => rng.range(5000, 70_000).min(max),
            5 => rng.range(1, 200),
            6 => (max / 4).max(1),
            7 if i == n / 2 => max,
            _ => rng.range(1, 2000),
        })
        .collect()
}

/// Body length that makes the serialized call (without NUL) exactly `target` bytes long.
pub fn exact_fit(dir: u8, id: u64, target: usize) -> Option<usize> {
    let mut len = target.checked_sub(60)?;
    for _ in 0..4 {
        let call = Call::new(Msg::Data { id, dir, len, body: Cow::Owned(body(dir, id, len)) });
        let n = serde_json::to_vec(&call).ok()?.len();
        if n == target {
            return Some(len);
        }
        len = (len + target).checked_sub(n)?;
    }
    None
}

async fn send_all<W: zlink_core::connection::socket::WriteHalf>(kind: Kind, w: &mut WriteConnection<W>, dir: u8, sizes: &[usize], pace: u64) -> Result<u64, String> {
    let mut bytes = 0u64;
    for (id, len) in sizes.iter().enumerate() {
        let b = body(dir, id as u64, *len);
        let call = Call::new(Msg::Data { id: id as u64, dir, len: *len, body: Cow::Borrowed(&b) });
        if id % 3 == 2 {
            // pipelining: enqueue, the next send flushes both
            w.enqueue_call(&call).map_err(|e| format!("enqueue {id}: {e:?}"))?;
        } else {
            w.send_call(&call).await.map_err(|e| format!("send {id}: {e:?}"))?;
        }
        bytes += *len as u64;
        if pace > 0 && id as u64 % pace == 0 {
            sleep(kind, Duration::from_micros(300)).await;
        }
    }
    w.flush().await.map_err(|e| format!("flush: {e:?}"))?;
    Ok(bytes)
}

/// Receives `n` messages and compares each with what must have been sent. Err(signature, detail).
async fn recv_all<R: zlink_core::connection::socket::ReadHalf>(kind: Kind, r: &mut ReadConnection<R>, dir: u8, sizes: &[usize], pace: u64) -> Result<u64, (String, String)> {
    for (id, len) in sizes.iter().enumerate() {
        let got = r.receive_call::<Msg<'_>>().await;
        match got {
            Err(e) => return Err(("C19/receive-failed-on-a-sent-message".into(), format!("message {id} (len {len}) of direction {dir}: {e:?}"))),
            Ok(call) => {
                let Msg::Data { id: gid, dir: gdir, len: glen, body: gbody } = call.method();
                if *gid != id as u64 || *gdir != dir {
                    return Err(("C19/message-lost-duplicated-or-reordered".into(), format!("expected message {id} of direction {dir}, received id {gid} dir {gdir}")));
                }
                if *glen != *len || gbody.len() != *len || **gbody != *body(dir, id as u64, *len) {
                    return Err(("C19/message-content-corrupted".into(), format!("message {id} of direction {dir}: declared len {glen}, body len {}, expected {len}", gbody.len())));
                }
            }
        }
        if pace > 0 && id as u64 % pace == 0 {
            sleep(kind, Duration::from_micros(300)).await;
        }
    }
    Ok(sizes.len() as u64)
}

/// Both directions at once over one connected pair.
async fn exchange<S: Socket>(kind: Kind, a: Connection<S>, b: Connection<S>, ab: Vec<usize>, ba: Vec<usize>, pace_w: u64, pace_r: u64) -> Result<(u64, u64), (String, String)> {
    let (mut ar, mut aw) = a.split();
    let (mut br, mut bw) = b.split();
    let (s1, s2, r1, r2) = futures_util::join!(
        send_all(kind, &mut aw, 0, &ab, pace_w),
        send_all(kind, &mut bw, 1, &ba, pace_w),
        recv_all(kind, &mut br, 0, &ab, pace_r),
        recv_all(kind, &mut ar, 1, &ba, pace_r),
    );
    let sent = s1.map_err(|e| ("C19/send-failed".to_string(), e))? + s2.map_err(|e| ("C19/send-failed".to_string(), e))?;
    let n = r1? + r2?;
    // after the peer closes, the next receive reports end-of-stream
    drop(aw);
    drop(ar);
    match with_deadline(kind, Duration::from_secs(20), br.receive_call::<Msg<'_>>()).await {
        Some(Err(zlink_core::Error::UnexpectedEof)) | Some(Err(zlink_core::Error::Io(_))) => {}
        Some(other) => return Err(("C19/no-end-of-stream-after-peer-closed".into(), format!("{other:?}"))),
        None => return Err(("inconclusive".into(), "end-of-stream not observed within 20 s".into())),
    }
    drop(bw);
    Ok((n, sent))
}

fn sock_dir() -> PathBuf {
    let base = std::env::var("ZV_SOCK_DIR").unwrap_or_else(|_| "/verif/harness/run".into());
    let d = PathBuf::from(base).join(format!("sock-{}", std::process::id()));
    std::fs::create_dir_all(&d).expect("socket dir");
    d
}

pub(crate) fn run_on<F: Future>(kind: Kind, f: F) -> F::Output {
    match kind {
        Kind::TokioCurrent => tokio::runtime::Builder::new_current_thread().enable_all().build().unwrap().block_on(f),
        Kind::TokioMulti => tokio::runtime::Builder::new_multi_thread().worker_threads(4).enable_all().build().unwrap().block_on(f),
        Kind::Smol => smol::block_on(f),
    }
}

#[derive(Debug, Clone, Copy)]
enum How {
    Pair,
    BindConnect,
    FromFd,
    /// an inherited listener bound in the abstract namespace (systemd `ListenStream=@name`): it has no path
    FromFdAbstract,
}

/// A std listener in the abstract namespace and a connected (non-blocking) client of it.
fn abstract_listener(path: &std::path::Path) -> Result<(OwnedFd, std::os::unix::net::UnixStream), String> {
    use std::os::linux::net::SocketAddrExt;
    let name = format!("zlink-verif-{}-{}", std::process::id(), path.file_name().and_then(|f| f.to_str()).unwrap_or("x"));
    let addr = std::os::unix::net::SocketAddr::from_abstract_name(name.as_bytes()).map_err(|e| e.to_string())?;
    let l = std::os::unix::net::UnixListener::bind_addr(&addr).map_err(|e| e.to_string())?;
    let c = std::os::unix::net::UnixStream::connect_addr(&addr).map_err(|e| e.to_string())?;
    c.set_nonblocking(true).map_err(|e| e.to_string())?;
    Ok((l.into(), c))
}

macro_rules! pairs {
    ($kind:expr, $how:expr, $path:expr, $tok:block, $smo:block) => {
        match $kind {
            Kind::Smol => $smo,
            _ => $tok,
        }
    };
}

async fn tokio_pair(how: How, path: &std::path::Path) -> Result<(zlink_tokio::unix::Connection, zlink_tokio::unix::Connection), String> {
    match how {
        How::Pair => {
            let (a, b) = tokio::net::UnixStream::pair().map_err(|e| e.to_string())?;
            Ok((Connection::new(zlink_tokio::unix::Stream::from(a)), Connection::new(zlink_tokio::unix::Stream::from(b))))
        }
        How::BindConnect => {
            let mut l = zlink_tokio::unix::bind(path).map_err(|e| format!("{e:?}"))?;
            let (s, c) = futures_util::join!(l.accept(), zlink_tokio::unix::connect(path));
            Ok((c.map_err(|e| format!("{e:?}"))?, s.map_err(|e| format!("{e:?}"))?))
        }
        How::FromFd => {
            let std_l = std::os::unix::net::UnixListener::bind(path).map_err(|e| e.to_string())?;
            let fd: OwnedFd = std_l.into();
            let mut l = zlink_tokio::unix::Listener::try_from(fd).map_err(|e| format!("{e:?}"))?;
            let (s, c) = futures_util::join!(l.accept(), zlink_tokio::unix::connect(path));
            Ok((c.map_err(|e| format!("{e:?}"))?, s.map_err(|e| format!("{e:?}"))?))
        }
        How::FromFdAbstract => {
            let (fd, c) = abstract_listener(path)?;
            // a listener that cannot be built from a valid inherited descriptor is a finding, not a harness problem
            let mut l = zlink_tokio::unix::Listener::try_from(fd).map_err(|e| format!("VIOLATION: Listener::try_from(inherited descriptor of a listener in the abstract namespace): {e:?}"))?;
            let s = l.accept().await.map_err(|e| format!("{e:?}"))?;
            let c = tokio::net::UnixStream::from_std(c).map_err(|e| e.to_string())?;
            Ok((Connection::new(zlink_tokio::unix::Stream::from(c)), s))
        }
    }
}

async fn smol_pair(how: How, path: &std::path::Path) -> Result<(zlink_smol::unix::Connection, zlink_smol::unix::Connection), String> {
    match how {
        How::Pair => {
            let (a, b) = smol::Async::<std::os::unix::net::UnixStream>::pair().map_err(|e| e.to_string())?;
            Ok((Connection::new(zlink_smol::unix::Stream::from(a)), Connection::new(zlink_smol::unix::Stream::from(b))))
        }
        How::BindConnect => {
            let mut l = zlink_smol::unix::bind(path).map_err(|e| format!("{e:?}"))?;
            let (s, c) = futures_util::join!(l.accept(), zlink_smol::unix::connect(path));
            Ok((c.map_err(|e| format!("{e:?}"))?, s.map_err(|e| format!("{e:?}"))?))
        }
        How::FromFd => {
            let std_l = std::os::unix::net::UnixListener::bind(path).map_err(|e| e.to_string())?;
            let fd: OwnedFd = std_l.into();
            let mut l = zlink_smol::unix::Listener::try_from(fd).map_err(|e| format!("{e:?}"))?;
            let (s, c) = futures_util::join!(l.accept(), zlink_smol::unix::connect(path));
            Ok((c.map_err(|e| format!("{e:?}"))?, s.map_err(|e| format!("{e:?}"))?))
        }
        How::FromFdAbstract => {
            let (fd, c) = abstract_listener(path)?;
            let mut l = zlink_smol::unix::Listener::try_from(fd).map_err(|e| format!("VIOLATION: Listener::try_from(inherited descriptor of a listener in the abstract namespace): {e:?}"))?;
            let s = l.accept().await.map_err(|e| format!("{e:?}"))?;
            let c = smol::Async::new(c).map_err(|e| e.to_string())?;
            Ok((Connection::new(zlink_smol::unix::Stream::from(c)), s))
        }
    }
}

struct XCase {
    kind: Kind,
    how: How,
    nconn: usize,
    nmsg: usize,
    max: usize,
    pace_w: u64,
    pace_r: u64,
    seed: u64,
}

/// One transfer case: `nconn` concurrent connections, each exchanging in both directions.
fn transfer(c: &XCase, rep: &mut Report, dir: &std::path::Path) {
    let kind = c.kind;
    let mut rng = Rng::derive(c.seed, 19);
    let mut plans: Vec<(Vec<usize>, Vec<usize>)> = (0..c.nconn).map(|_| (sizes(&mut rng, c.nmsg, c.max), sizes(&mut rng, c.nmsg, c.max))).collect();
    // the first messages of the first connection are sized so that the frame is exactly 256, 512, 768 ...
    // bytes long, i.e. ends exactly where the (fresh, then grown) write buffer ends
    for dir in 0..2u8 {
        let plan = if dir == 0 { &mut plans[0].0 } else { &mut plans[0].1 };
        for j in 0..plan.len().min(4) {
            if let Some(len) = exact_fit(dir, j as u64, 256 * (j + 1)) {
                plan[j] = len;
            }
        }
    }
    let desc = format!("{} {:?} conns={} msgs={} max={} pace_w={} pace_r={} seed={}", kind.name(), c.how, c.nconn, c.nmsg, c.max, c.pace_w, c.pace_r, c.seed);
    let replay = json!({"monitor": "c19", "case": desc});
    let how = c.how;
    let (pw, pr) = (c.pace_w, c.pace_r);
    let res: Vec<Result<(u64, u64, usize, usize), (String, String)>> = run_on(kind, async {
        let mut outs = Vec::new();
        let mut futs = Vec::new();
        for (i, (ab, ba)) in plans.iter().cloned().enumerate() {
            let path = dir.join(format!("s{}-{}.sock", c.seed % 100_000, i));
            let _ = std::fs::remove_file(&path);
            futs.push(async move {
                phase(&format!("{:?}:{} seed {}", how, kind.name(), 0), true);
                let r = pairs!(kind, how, path, {
                    match tokio_pair(how, &path).await {
                        Err(e) if e.starts_with("VIOLATION: ") => Err(("C19/inherited-listener-refused".to_string(), e["VIOLATION: ".len()..].to_string())),
                        Err(e) if e.starts_with("VIOLATION: ") => Err(("C19/inherited-listener-refused".to_string(), e["VIOLATION: ".len()..].to_string())),
                        Err(e) => Err(("inconclusive".to_string(), format!("could not create socket pair: {e}"))),
                        Ok((a, b)) => {
                            phase("exchange", false);
                            let ids = (a.id(), b.id());
                            exchange(kind, a, b, ab, ba, pw, pr).await.map(|(n, s)| (n, s, ids.0, ids.1))
                        }
                    }
                }, {
                    match smol_pair(how, &path).await {
                        Err(e) if e.starts_with("VIOLATION: ") => Err(("C19/inherited-listener-refused".to_string(), e["VIOLATION: ".len()..].to_string())),
                        Err(e) if e.starts_with("VIOLATION: ") => Err(("C19/inherited-listener-refused".to_string(), e["VIOLATION: ".len()..].to_string())),
                        Err(e) => Err(("inconclusive".to_string(), format!("could not create socket pair: {e}"))),
                        Ok((a, b)) => {
                            phase("exchange", false);
                            let ids = (a.id(), b.id());
                            exchange(kind, a, b, ab, ba, pw, pr).await.map(|(n, s)| (n, s, ids.0, ids.1))
                        }
                    }
                });
                let _ = std::fs::remove_file(&path);
                r
            });
        }
        // all connections concurrently, with a generous watchdog
        match with_deadline(kind, Duration::from_secs(120), futures_util::future::join_all(futs)).await {
            Some(v) => outs.extend(v),
            None => outs.push(Err(("inconclusive".to_string(), "transfer did not finish within 120 s".to_string()))),
        }
        outs
    });
    rep.eval(vnet::fnv(desc.as_bytes()));
    let mut ids = HashSet::new();
    for r in res {
        match r {
            Ok((n, bytes, ia, ib)) => {
                rep.add("messages_received_intact", n);
                rep.evaluations += n; // every received message is compared with what was sent
                rep.add("payload_bytes", bytes);
                rep.count(&format!("connections.{}", kind.name()));
                if !ids.insert(ia) || !ids.insert(ib) {
                    rep.violation("C19/connection-ids-not-distinct", format!("id seen twice among concurrent connections ({ia}, {ib}); {desc}"), replay.clone());
                }
            }
            Err((sig, d)) if sig == "inconclusive" => rep.inconclusive.push(format!("{d}; {desc}")),
            Err((sig, d)) => rep.violation(&sig, format!("{d}; {desc}"), replay.clone()),
        }
    }
}

// ---- the sender hangs up right behind its last message --------------------------------------------
//
// One direction only: a zlink connection sends its messages and is dropped at once (a client that says what it
// has to say and leaves); the zlink connection at the other end starts late, or is parked in a receive when the
// last messages and the hang-up arrive together. Everything that was sent is still owed to it, then end-of-stream.

async fn hangup<S: Socket>(kind: Kind, a: Connection<S>, b: Connection<S>, sizes: Vec<usize>, receiver_delay_ms: u64) -> Result<u64, (String, String)> {
    let (_ar, mut aw) = a.split();
    let (mut br, _bw) = b.split();
    let sender = async {
        let r = send_all(kind, &mut aw, 0, &sizes, 0).await;
        drop(aw);
        drop(_ar);
        r
    };
    let receiver = async {
        if receiver_delay_ms > 0 {
            sleep(kind, Duration::from_millis(receiver_delay_ms)).await;
        }
        let n = recv_all(kind, &mut br, 0, &sizes, 0).await?;
        match with_deadline(kind, Duration::from_secs(20), br.receive_call::<Msg<'_>>()).await {
            Some(Err(zlink_core::Error::UnexpectedEof)) | Some(Err(zlink_core::Error::Io(_))) => Ok(n),
            Some(other) => Err(("C19/no-end-of-stream-after-peer-closed".to_string(), format!("{other:?}"))),
            None => Err(("inconclusive".to_string(), "end-of-stream not observed within 20 s".to_string())),
        }
    };
    let (s, r) = futures_util::join!(sender, receiver);
    s.map_err(|e| ("C19/send-failed".to_string(), e))?;
    r
}

fn hangup_case(kind: Kind, seed: u64, rep: &mut Report) {
    let mut rng = Rng::derive(seed, 1924);
    let n = rng.range(1, 12);
    // mostly small totals (everything fits into the socket: the sender is gone before the receiver looks)
    let max = if rng.chance(1, 4) { 300_000 } else { 8_000 };
    let sz = sizes(&mut rng, n, max);
    let delay = *rng.pick(&[0u64, 0, 2, 10]);
    let desc = format!("sender-hangs-up {} seed={} msgs={} max={} receiver_delay={}ms", kind.name(), seed, n, max, delay);
    let replay = json!({"monitor": "c19", "case": desc});
    let res: Result<u64, (String, String)> = run_on(kind, async {
        let inc = |e: std::io::Error| ("inconclusive".to_string(), e.to_string());
        let (sa, sb) = std::os::unix::net::UnixStream::pair().map_err(inc)?;
        sa.set_nonblocking(true).map_err(inc)?;
        sb.set_nonblocking(true).map_err(inc)?;
        match kind {
            Kind::Smol => {
                let a = Connection::new(zlink_smol::unix::Stream::from(smol::Async::new(sa).map_err(inc)?));
                let b = Connection::new(zlink_smol::unix::Stream::from(smol::Async::new(sb).map_err(inc)?));
                with_deadline(kind, Duration::from_secs(120), hangup(kind, a, b, sz.clone(), delay)).await.unwrap_or(Err(("inconclusive".into(), "not finished within 120 s".into())))
            }
            _ => {
                let a = Connection::new(zlink_tokio::unix::Stream::from(tokio::net::UnixStream::from_std(sa).map_err(inc)?));
                let b = Connection::new(zlink_tokio::unix::Stream::from(tokio::net::UnixStream::from_std(sb).map_err(inc)?));
                with_deadline(kind, Duration::from_secs(120), hangup(kind, a, b, sz.clone(), delay)).await.unwrap_or(Err(("inconclusive".into(), "not finished within 120 s".into())))
            }
        }
    });
    rep.eval(vnet::fnv(desc.as_bytes()));
    rep.count("sender_hangs_up_cases");
    match res {
        Ok(n) => {
            rep.add("messages_received_after_the_sender_hung_up", n);
            rep.evaluations += n;
        }
        Err((sig, d)) if sig == "inconclusive" => rep.inconclusive.push(format!("{d}; {desc}")),
        Err((sig, d)) => rep.violation(&sig, format!("{d}; {desc}"), replay),
    }
}

// ---- abandoned sends ---------------------------------------------------------------------------

struct CancelOut {
    /// reference encoding (without NUL) of every submitted message, with its fate
    submitted: Vec<(Vec<u8>, &'static str)>, // "ok" | "abandoned" | "error"
    received: Vec<u8>,
    via_zlink: Vec<Result<u64, String>>,
}

async fn cancel_scenario<S: Socket>(kind: Kind, mut a: Connection<S>, b: RawOrZlink<S>, seed: u64, big: usize) -> Result<CancelOut, String> {
    let mut rng = Rng::derive(seed, 1919);
    let mut submitted = Vec::new();
    let mut id = 0u64;
    let msg = |len: usize, id: &mut u64| {
        let b = body(2, *id, len);
        let i = *id;
        *id += 1;
        (i, len, b)
    };
    // phase 1: small messages, peer not reading (they fit into the kernel buffer)
    // Some of them are sent by an impatient caller: the deadline is already due when the send is first
    // polled (a deadline shared by a batch, a select whose other branch is ready). The socket has room, so
    // whatever a send does before it first answers `Pending` is all that happens to that message: if it is
    // abandoned there, the peer must still see only whole frames, each at most once.
    let n1 = rng.range(0, 5);
    for _ in 0..n1 {
        let (i, len, bd) = msg(rng.range(1, 400), &mut id);
        let call = Call::new(Msg::Data { id: i, dir: 2, len, body: Cow::Borrowed(&bd) });
        let enc = serde_json::to_vec(&call).unwrap();
        let impatient = rng.chance(1, 2);
        let wait = if impatient { Duration::ZERO } else { Duration::from_secs(10) };
        match with_deadline(kind, wait, a.send_call(&call)).await {
            Some(Ok(())) => submitted.push((enc, "ok")),
            Some(Err(e)) => return Err(format!("small send failed: {e:?}")),
            None if impatient => submitted.push((enc, "abandoned")),
            None => return Err("small send did not complete although the kernel buffer is empty".into()),
        }
    }
    // phase 2: a message larger than the socket buffer, abandoned after a short while
    let nbig = rng.range(1, 2);
    for _ in 0..nbig {
        let (i, len, bd) = msg(big + rng.below(5000), &mut id);
        let call = Call::new(Msg::Data { id: i, dir: 2, len, body: Cow::Borrowed(&bd) });
        let enc = serde_json::to_vec(&call).unwrap();
        let wait = Duration::from_millis(rng.range(2, 40) as u64);
        match with_deadline(kind, wait, a.send_call(&call)).await {
            Some(Ok(())) => submitted.push((enc, "ok")),
            Some(Err(_)) => submitted.push((enc, "error")),
            None => submitted.push((enc, "abandoned")),
        }
    }
    // phase 3: the peer drains while more messages are sent
    let n3 = rng.range(1, 4);
    let sizes3: Vec<usize> = (0..n3).map(|_| rng.range(1, 3000)).collect();
    let sender = async {
        let mut out = Vec::new();
        for len in sizes3 {
            let (i, len, bd) = msg(len, &mut id);
            let call = Call::new(Msg::Data { id: i, dir: 2, len, body: Cow::Borrowed(&bd) });
            let enc = serde_json::to_vec(&call).unwrap();
            match with_deadline(kind, Duration::from_secs(30), a.send_call(&call)).await {
                Some(Ok(())) => out.push((enc, "ok")),
                Some(Err(_)) => out.push((enc, "error")),
                None => out.push((enc, "abandoned")),
            }
        }
        drop(a); // close: the peer sees end-of-stream
        out
    };
    let (more, (received, via)) = futures_util::join!(sender, b.drain(kind));
    submitted.extend(more);
    Ok(CancelOut { submitted, received, via_zlink: via })
}

enum RawOrZlink<S: Socket> {
    Raw(std::os::unix::net::UnixStream),
    Zlink(Connection<S>),
}

impl<S: Socket> RawOrZlink<S> {
    async fn drain(self, kind: Kind) -> (Vec<u8>, Vec<Result<u64, String>>) {
        match self {
            RawOrZlink::Raw(s) => {
                // a plain blocking reader on its own thread; the async side only waits for it
                let (tx, rx) = std::sync::mpsc::channel();
                std::thread::spawn(move || {
                    use std::io::Read;
                    let mut s = s;
                    s.set_read_timeout(Some(Duration::from_secs(60))).ok();
                    let mut all = Vec::new();
                    let mut buf = vec![0u8; 65536];
                    loop {
                        match s.read(&mut buf) {
                            Ok(0) => break,
                            Ok(n) => all.extend_from_slice(&buf[..n]),
                            Err(_) => break,
                        }
                    }
                    let _ = tx.send(all);
                });
                loop {
                    if let Ok(v) = rx.try_recv() {
                        return (v, Vec::new());
                    }
                    sleep(kind, Duration::from_millis(2)).await;
                }
            }
            RawOrZlink::Zlink(mut c) => {
                let mut out = Vec::new();
                loop {
                    match with_deadline(kind, Duration::from_secs(60), c.receive_call::<Msg<'_>>()).await {
                        None => {
                            out.push(Err("timeout".into()));
                            break;
                        }
                        Some(Err(zlink_core::Error::UnexpectedEof)) => break,
                        Some(Err(zlink_core::Error::Io(e))) => {
                            out.push(Err(format!("io: {e}")));
                            break;
                        }
                        Some(Err(e)) => out.push(Err(format!("{e:?}"))),
                        Some(Ok(call)) => {
                            let Msg::Data { id, dir, len, body: b } = call.method();
                            if *dir == 2 && b.len() == *len && **b == *body(2, *id, *len) {
                                out.push(Ok(*id));
                            } else {
                                out.push(Err(format!("message {id} decoded with wrong content")));
                            }
                        }
                    }
                    if out.len() > 64 {
                        break;
                    }
                }
                (Vec::new(), out)
            }
        }
    }
}

fn judge_cancel(o: &CancelOut, raw: bool) -> Option<(String, String)> {
    let fates: Vec<&str> = o.submitted.iter().map(|s| s.1).collect();
    if raw {
        let (frames, rest) = vnet::split_frames(&o.received);
        let mut next = 0usize; // index into submitted: frames must be a subsequence
        for f in &frames {
            match o.submitted[next.min(o.submitted.len())..].iter().position(|(enc, _)| enc.as_slice() == *f) {
                Some(k) => {
                    // everything skipped must not have been sent successfully
                    for j in next..next + k {
                        if o.submitted[j].1 == "ok" {
                            return Some(("C19/successfully-sent-message-missing-at-the-peer".into(), format!("message #{j} (fates {fates:?})")));
                        }
                    }
                    next += k + 1;
                }
                None => {
                    // which shape? a proper prefix of an abandoned message followed by that message again
                    let resent = o.submitted.iter().any(|(enc, fate)| {
                        *fate == "abandoned" && f.len() > enc.len() && f.ends_with(enc) && enc.starts_with(&f[..f.len() - enc.len()])
                    });
                    let dup = o.submitted.iter().any(|(enc, _)| enc.as_slice() == *f);
                    let sig = if resent {
                        "C19/send-cancelled-after-partial-write-resent-from-start"
                    } else if dup {
                        "C19/peer-received-a-message-twice-or-out-of-order"
                    } else {
                        "C19/peer-received-a-frame-that-is-no-submitted-message"
                    };
                    return Some((sig.into(), format!("frame of {} bytes: {}...; fates {fates:?}", f.len(), vnet::json::show(&f[..f.len().min(80)]))));
                }
            }
        }
        for j in next..o.submitted.len() {
            if o.submitted[j].1 == "ok" {
                return Some(("C19/successfully-sent-message-missing-at-the-peer".into(), format!("message #{j} (fates {fates:?})")));
            }
        }
        if !rest.is_empty() {
            // an unterminated tail can only be (part of) an abandoned message
            let ok_tail = o.submitted.iter().any(|(enc, fate)| *fate != "ok" && enc.starts_with(rest));
            if !ok_tail {
                return Some(("C19/stream-ends-with-bytes-of-no-submitted-message".into(), format!("{} trailing bytes; fates {fates:?}", rest.len())));
            }
        }
        None
    } else {
        let mut next = 0u64;
        for r in &o.via_zlink {
            match r {
                Ok(id) => {
                    if *id < next {
                        return Some(("C19/peer-received-a-message-twice-or-out-of-order".into(), format!("id {id} after {next}; {:?}; fates {fates:?}", o.via_zlink)));
                    }
                    for j in next..*id {
                        if o.submitted[j as usize].1 == "ok" {
                            return Some(("C19/successfully-sent-message-missing-at-the-peer".into(), format!("message #{j}; {:?}; fates {fates:?}", o.via_zlink)));
                        }
                    }
                    next = id + 1;
                }
                Err(e) if e == "timeout" => return Some(("inconclusive".into(), "peer drain timed out".into())),
                Err(e) => {
                    let sig = if fates.contains(&"abandoned") {
                        "C19/send-cancelled-after-partial-write-resent-from-start"
                    } else {
                        "C19/peer-received-a-frame-that-is-no-submitted-message"
                    };
                    return Some((sig.into(), format!("peer's zlink connection failed to decode a frame: {e}; results {:?}; fates {fates:?}", o.via_zlink)));
                }
            }
        }
        for j in next..o.submitted.len() as u64 {
            if o.submitted[j as usize].1 == "ok" {
                return Some(("C19/successfully-sent-message-missing-at-the-peer".into(), format!("message #{j}; {:?}; fates {fates:?}", o.via_zlink)));
            }
        }
        None
    }
}

fn cancel_case(kind: Kind, raw: bool, seed: u64, rep: &mut Report) {
    let desc = format!("abandoned-send {} peer={} seed={}", kind.name(), if raw { "raw" } else { "zlink" }, seed);
    let replay = json!({"monitor": "c19", "case": desc});
    let big = 600_000;
    let res: Result<CancelOut, String> = run_on(kind, async {
        match kind {
            Kind::Smol => {
                let (a, b) = smol::Async::<std::os::unix::net::UnixStream>::pair().map_err(|e| e.to_string())?;
                let a = Connection::new(zlink_smol::unix::Stream::from(a));
                let b = if raw {
                    let s = b.into_inner().map_err(|e| e.to_string())?;
                    s.set_nonblocking(false).map_err(|e| e.to_string())?;
                    RawOrZlink::Raw(s)
                } else {
                    RawOrZlink::Zlink(Connection::new(zlink_smol::unix::Stream::from(b)))
                };
                cancel_scenario(kind, a, b, seed, big).await
            }
            _ => {
                let (a, b) = tokio::net::UnixStream::pair().map_err(|e| e.to_string())?;
                let a = Connection::new(zlink_tokio::unix::Stream::from(a));
                let b = if raw {
                    let s = b.into_std().map_err(|e| e.to_string())?;
                    s.set_nonblocking(false).map_err(|e| e.to_string())?;
                    RawOrZlink::Raw(s)
                } else {
                    RawOrZlink::Zlink(Connection::new(zlink_tokio::unix::Stream::from(b)))
                };
                cancel_scenario(kind, a, b, seed, big).await
            }
        }
    });
    rep.eval(vnet::fnv(desc.as_bytes()));
    match res {
        Err(e) => rep.inconclusive.push(format!("{e}; {desc}")),
        Ok(o) => {
            let abandoned = o.submitted.iter().filter(|s| s.1 == "abandoned").count();
            rep.add("sends_abandoned_mid_write", abandoned as u64);
            rep.add("sends_completed", o.submitted.iter().filter(|s| s.1 == "ok").count() as u64);
            rep.add("bytes_seen_by_raw_peer", o.received.len() as u64);
            if abandoned == 0 {
                rep.count("cancel_cases_where_no_send_was_abandoned");
            }
            match judge_cancel(&o, raw) {
                None => rep.count("cancel_cases_ok"),
                Some((sig, d)) if sig == "inconclusive" => rep.inconclusive.push(format!("{d}; {desc}")),
                Some((sig, d)) => rep.violation(&sig, format!("{d}; {desc}"), replay),
            }
        }
    }
}

// ---- strict call / answer alternation for every frame size -----------------------------------------
//
// One side sends a call and then WAITS for the answer before it sends anything else, so nothing more
// arrives behind a frame: a receiver that holds a complete frame but goes back to the socket for more
// never delivers it. A hang is not judged by the clock alone: when the deadline fires, the sender's
// send has returned Ok (every byte is in the kernel) and the receiver's socket has nothing left to
// read (FIONREAD == 0, checked through a duplicate of its descriptor), then the receiver has taken
// the whole frame off the socket and still not delivered it.

fn unread_bytes(probe: &std::os::unix::net::UnixStream) -> Option<usize> {
    use std::os::fd::AsRawFd;
    let mut n: libc::c_int = 0;
    let r = unsafe { libc::ioctl(probe.as_raw_fd(), libc::FIONREAD, &mut n) };
    if r == 0 { Some(n as usize) } else { None }
}

async fn pingpong<S: Socket>(kind: Kind, mut a: Connection<S>, mut b: Connection<S>, probe_a: std::os::unix::net::UnixStream, probe_b: std::os::unix::net::UnixStream, targets: &[usize]) -> Result<u64, (String, String)> {
    let grace = Duration::from_secs(15);
    let mut done = 0u64;
    for (k, target) in targets.iter().enumerate() {
        // a -> b: a call whose frame (without the terminator) is exactly `target` bytes
        for (dirn, len) in [(3u8, exact_fit(3, k as u64, *target).unwrap_or(*target)), (4u8, k % 7)] {
            let bd = body(dirn, k as u64, len);
            let call = Call::new(Msg::Data { id: k as u64, dir: dirn, len, body: Cow::Borrowed(&bd) });
            let frame_len = serde_json::to_vec(&call).unwrap().len();
            let (tx, rx, probe) = if dirn == 3 { (&mut a, &mut b, &probe_b) } else { (&mut b, &mut a, &probe_a) };
            match with_deadline(kind, Duration::from_secs(60), tx.send_call(&call)).await {
                Some(Ok(())) => {}
                Some(Err(e)) => return Err(("C19/send-failed".into(), format!("frame of {frame_len} bytes: {e:?}"))),
                None => return Err(("inconclusive".into(), format!("send of a {frame_len}-byte frame to a reading peer did not finish within 60 s"))),
            }
            match with_deadline(kind, grace, rx.receive_call::<Msg<'_>>()).await {
                Some(Ok(c)) => {
                    let Msg::Data { id, dir: d, len: l, body: gb } = c.method();
                    if *id != k as u64 || *d != dirn || *l != len || **gb != *bd {
                        return Err(("C19/message-content-corrupted".into(), format!("alternating exchange, frame of {frame_len} bytes: received id {id} dir {d} len {l}")));
                    }
                    done += 1;
                }
                Some(Err(e)) => return Err(("C19/receive-failed-on-a-sent-message".into(), format!("alternating exchange, frame of {frame_len} bytes: {e:?}"))),
                None => {
                    // give the receiver more time, then look at the facts
                    sleep(kind, Duration::from_secs(5)).await;
                    return match unread_bytes(probe) {
                        Some(0) => Err(("C19/complete-frame-taken-off-the-socket-but-not-delivered".into(), format!("alternating exchange (the sender waits for the answer): the send of a {frame_len}-byte frame returned Ok, the receiver's socket has no unread bytes left, and receive_call has not returned for {} s", grace.as_secs() + 5))),
                        Some(n) => Err(("inconclusive".into(), format!("receiver has not read {n} bytes of a {frame_len}-byte frame after {} s", grace.as_secs() + 5))),
                        None => Err(("inconclusive".into(), "FIONREAD failed".into())),
                    };
                }
            }
        }
    }
    Ok(done)
}

fn pingpong_case(kind: Kind, seed: u64, rep: &mut Report) {
    let mut rng = Rng::derive(seed, 1920);
    // multiples of the 256-byte buffer step with their neighbours (all well below the kernel socket buffer: the
    // sender does not read while it sends), random sizes
    let mut targets: Vec<usize> = Vec::new();
    let base = rng.range(1, 16);
    for m in [base, base + 16 * rng.range(1, 6), *rng.pick(&[64usize, 128, 256, 257, 300])] {
        for d in [-1isize, 0, 1] {
            targets.push((256 * m as isize + d) as usize);
        }
    }
    for _ in 0..6 {
        targets.push(rng.range(70, 3000));
    }
    for i in (1..targets.len()).rev() {
        targets.swap(i, rng.below(i + 1));
    }
    let desc = format!("alternating {} seed={} frames={:?}", kind.name(), seed, targets);
    let replay = json!({"monitor": "c19", "case": desc});
    let res: Result<u64, (String, String)> = run_on(kind, async {
        let (sa, sb) = std::os::unix::net::UnixStream::pair().map_err(|e| ("inconclusive".to_string(), e.to_string()))?;
        let (pa, pb) = (sa.try_clone().map_err(|e| ("inconclusive".to_string(), e.to_string()))?, sb.try_clone().map_err(|e| ("inconclusive".to_string(), e.to_string()))?);
        sa.set_nonblocking(true).ok();
        sb.set_nonblocking(true).ok();
        match kind {
            Kind::Smol => {
                let a = smol::Async::new(sa).map_err(|e| ("inconclusive".to_string(), e.to_string()))?;
                let b = smol::Async::new(sb).map_err(|e| ("inconclusive".to_string(), e.to_string()))?;
                pingpong(kind, Connection::new(zlink_smol::unix::Stream::from(a)), Connection::new(zlink_smol::unix::Stream::from(b)), pa, pb, &targets).await
            }
            _ => {
                let a = tokio::net::UnixStream::from_std(sa).map_err(|e| ("inconclusive".to_string(), e.to_string()))?;
                let b = tokio::net::UnixStream::from_std(sb).map_err(|e| ("inconclusive".to_string(), e.to_string()))?;
                pingpong(kind, Connection::new(zlink_tokio::unix::Stream::from(a)), Connection::new(zlink_tokio::unix::Stream::from(b)), pa, pb, &targets).await
            }
        }
    });
    rep.eval(vnet::fnv(desc.as_bytes()));
    rep.count("alternating_exchanges");
    match res {
        Ok(n) => {
            rep.add("alternating_messages_delivered", n);
            rep.evaluations += n;
        }
        Err((sig, d)) if sig == "inconclusive" => rep.inconclusive.push(format!("{d}; {desc}")),
        Err((sig, d)) => rep.violation(&sig, format!("{d}; {desc}"), replay),
    }
}

// ---- abandoned receives --------------------------------------------------------------------------
//
// A plain writer thread dribbles the reference encodings of N messages into the socket in small pieces;
// the zlink receiver wraps every receive in a very short timer, so receives are abandoned (their futures
// dropped) while a message has only partly arrived, and started again. Nothing may be lost or garbled.

async fn recv_abandoning<S: Socket>(prop: &str, kind: Kind, mut c: Connection<S>, n: usize, lens: &[usize], seed: u64) -> Result<(u64, u64), (String, String)> {
    let mut rng = Rng::derive(seed, 1922);
    let mut abandoned = 0u64;
    let mut got = 0usize;
    let started = std::time::Instant::now();
    while got < n {
        if started.elapsed() > Duration::from_secs(120) {
            return Err(("inconclusive".into(), format!("only {got} of {n} messages after 120 s ({abandoned} receives abandoned)")));
        }
        let d = Duration::from_micros(*rng.pick(&[0u64, 50, 200, 800, 3000]));
        match with_deadline(kind, d, c.receive_call::<Msg<'_>>()).await {
            None => abandoned += 1,
            Some(Err(e)) => return Err((sig_abandoned(prop), format!("receive #{got} failed with {e:?} after {abandoned} abandoned receives"))),
            Some(Ok(call)) => {
                let Msg::Data { id, dir, len, body: b } = call.method();
                if *id != got as u64 || *dir != 5 || *len != lens[got] || **b != *body(5, got as u64, lens[got]) {
                    return Err((sig_abandoned(prop), format!("expected message {got} (len {}), received id {id} dir {dir} len {len} after {abandoned} abandoned receives", lens[got])));
                }
                got += 1;
            }
        }
    }
    Ok((got as u64, abandoned))
}

fn sig_abandoned(prop: &str) -> String {
    if prop == "C19" {
        "C19/message-lost-or-garbled-after-an-abandoned-receive".into()
    } else {
        format!("{prop}/real-sockets:message-lost-or-garbled-after-an-abandoned-receive")
    }
}

/// C07 on real sockets and runtimes (the same workload as C19's abandoned receives).
pub fn run_c07(cfg: &Cfg) -> Report {
    let mut rep = Report::new("C07", "c07-real");
    let kinds = [Kind::TokioCurrent, Kind::TokioMulti, Kind::Smol];
    let n = cfg.n(1600, 40_000);
    for k in 0..n {
        let idx = k * cfg.shards as u64 + cfg.shard as u64;
        abandoned_receive_case("C07", kinds[(idx % 3) as usize], cfg.seed.wrapping_mul(32_452_843).wrapping_add(idx), &mut rep);
        if rep.enough() {
            break;
        }
    }
    rep
}

pub(crate) fn abandoned_receive_case(prop: &str, kind: Kind, seed: u64, rep: &mut Report) {
    let mut rng = Rng::derive(seed, 1921);
    let n = rng.range(6, 20);
    let lens: Vec<usize> = (0..n).map(|_| { let l = *rng.pick(&[0usize, 10, 190, 250, 600, 3000, 20_000, 70_000]); l + rng.below(7) }).collect();
    let mut stream = Vec::new();
    for (i, len) in lens.iter().enumerate() {
        let bd = body(5, i as u64, *len);
        let call = Call::new(Msg::Data { id: i as u64, dir: 5, len: *len, body: Cow::Borrowed(&bd) });
        stream.extend(serde_json::to_vec(&call).unwrap());
        stream.push(0);
    }
    let desc = format!("abandoned-receive {} seed={} lens={:?}", kind.name(), seed, lens);
    let replay = json!({"monitor": prop.to_lowercase(), "case": desc});
    let total = stream.len();
    let res: Result<(u64, u64), (String, String)> = run_on(kind, async {
        let (sa, sb) = std::os::unix::net::UnixStream::pair().map_err(|e| ("inconclusive".to_string(), e.to_string()))?;
        sb.set_nonblocking(true).ok();
        let wseed = seed;
        let writer = std::thread::spawn(move || {
            use std::io::Write;
            let mut sa = sa;
            let mut r = Rng::derive(wseed, 1923);
            let mut off = 0;
            while off < stream.len() {
                let k = (*r.pick(&[1usize, 7, 100, 255, 256, 257, 1000, 5000, 40_000])).min(stream.len() - off);
                if sa.write_all(&stream[off..off + k]).is_err() {
                    break;
                }
                off += k;
                if r.chance(2, 3) {
                    std::thread::sleep(Duration::from_micros(*r.pick(&[20u64, 100, 400, 1500])));
                }
            }
            // keep the socket open until the receiver is done (it is dropped with the thread's return value) -
            // or, every other case, hang up right behind the last piece: what was sent is still owed to the receiver
            if wseed % 2 == 0 {
                drop(sa);
                return None;
            }
            Some(sa)
        });
        let r = match kind {
            Kind::Smol => {
                let b = smol::Async::new(sb).map_err(|e| ("inconclusive".to_string(), e.to_string()))?;
                recv_abandoning(prop, kind, Connection::new(zlink_smol::unix::Stream::from(b)), n, &lens, seed).await
            }
            _ => {
                let b = tokio::net::UnixStream::from_std(sb).map_err(|e| ("inconclusive".to_string(), e.to_string()))?;
                recv_abandoning(prop, kind, Connection::new(zlink_tokio::unix::Stream::from(b)), n, &lens, seed).await
            }
        };
        let _ = writer.join();
        r
    });
    rep.eval(vnet::fnv(desc.as_bytes()));
    rep.count("abandoned_receive_cases");
    rep.add("abandoned_receive_stream_bytes", total as u64);
    match res {
        Ok((got, abandoned)) => {
            rep.add("messages_received_intact_despite_abandoned_receives", got);
            rep.add("receives_abandoned", abandoned);
            rep.evaluations += got;
        }
        Err((sig, d)) if sig == "inconclusive" => rep.inconclusive.push(format!("{d}; {desc}")),
        Err((sig, d)) => rep.violation(&sig, format!("{d}; {desc}"), replay),
    }
}

// ---- connection ids ----------------------------------------------------------------------------

fn ids_case(rep: &mut Report, threads: usize, per: usize) {
    let handles: Vec<_> = (0..threads)
        .map(|_| {
            std::thread::spawn(move || {
                let mut ids = Vec::with_capacity(per * 2);
                let rt = tokio::runtime::Builder::new_current_thread().enable_all().build().unwrap();
                rt.block_on(async {
                    for _ in 0..per {
                        if let Ok((a, b)) = tokio::net::UnixStream::pair() {
                            ids.push(Connection::new(zlink_tokio::unix::Stream::from(a)).id());
                            ids.push(Connection::new(zlink_tokio::unix::Stream::from(b)).id());
                        }
                    }
                });
                smol::block_on(async {
                    for _ in 0..per {
                        if let Ok((a, b)) = smol::Async::<std::os::unix::net::UnixStream>::pair() {
                            ids.push(Connection::new(zlink_smol::unix::Stream::from(a)).id());
                            ids.push(Connection::new(zlink_smol::unix::Stream::from(b)).id());
                        }
                    }
                });
                ids
            })
        })
        .collect();
    let mut all = Vec::new();
    for h in handles {
        match h.join() {
            Ok(v) => all.extend(v),
            Err(_) => rep.inconclusive.push("id thread panicked".into()),
        }
    }
    rep.eval(vnet::fnv(format!("ids{threads}x{per}").as_bytes()));
    rep.add("connection_ids_collected", all.len() as u64);
    let set: HashSet<usize> = all.iter().copied().collect();
    if set.len() != all.len() {
        rep.violation(
            "C19/connection-ids-not-distinct",
            format!("{} connections created from {threads} threads share {} ids", all.len(), all.len() - set.len()),
            json!({"monitor": "c19", "case": format!("ids {threads}x{per}")}),
        );
    }
}

pub fn run(cfg: &Cfg) -> Report {
    let mut rep = Report::new("C19", "c19");
    start_watchdog(cfg.out.clone());
    let dir = sock_dir();
    let heavy = cfg.layer == "asan" || cfg.layer == "tsan";
    let mut rng = cfg.rng(191);
    let kinds = [Kind::TokioCurrent, Kind::TokioMulti, Kind::Smol];
    let hows = [How::Pair, How::BindConnect, How::FromFd, How::FromFdAbstract];
    let only = cfg.opt("part");
    // (1) transfers
    if only.is_none() || only == Some("transfer") {
        let n = cfg.n(if heavy { 18 } else { 72 }, if heavy { 72 } else { 1440 });
        for k in 0..n {
            let idx = k * cfg.shards as u64 + cfg.shard as u64;
            let c = XCase {
                kind: kinds[(idx % 3) as usize],
                how: hows[((idx / 3) % 4) as usize],
                nconn: [1, 2, 4, 8][((idx / 12) % 4) as usize],
                nmsg: rng.range(3, if cfg.thorough { 40 } else { 16 }),
                max: if k % 12 == 5 { 1 << 20 } else if k % 4 == 1 { 300_000 } else { 20_000 },
                pace_w: *rng.pick(&[0, 0, 1, 3]),
                pace_r: *rng.pick(&[0, 0, 1, 3]),
                seed: cfg.seed.wrapping_mul(1_000_003).wrapping_add(idx),
            };
            transfer(&c, &mut rep, &dir);
            if k < 3 {
                rep.sample(6, || json!({"transfer": format!("{} {:?} conns={} msgs={} max={}", c.kind.name(), c.how, c.nconn, c.nmsg, c.max)}));
            }
        }
    }
    // (2) abandoned sends
    if only.is_none() || only == Some("cancel") {
        let n = cfg.n(if heavy { 12 } else { 48 }, if heavy { 48 } else { 960 });
        for k in 0..n {
            let idx = k * cfg.shards as u64 + cfg.shard as u64;
            cancel_case(kinds[(idx % 3) as usize], (idx / 3) % 2 == 0, cfg.seed.wrapping_mul(7919).wrapping_add(idx), &mut rep);
        }
    }
    // (2b) strict alternation for frame sizes at the buffer steps; (2c) abandoned receives
    if only.is_none() || only == Some("alternate") {
        let n = cfg.n(if heavy { 12 } else { 240 }, if heavy { 48 } else { 4800 });
        for k in 0..n {
            let idx = k * cfg.shards as u64 + cfg.shard as u64;
            pingpong_case(kinds[(idx % 3) as usize], cfg.seed.wrapping_mul(104_729).wrapping_add(idx), &mut rep);
        }
    }
    if only.is_none() || only == Some("cancelrecv") {
        let n = cfg.n(if heavy { 12 } else { 240 }, if heavy { 48 } else { 4800 });
        for k in 0..n {
            let idx = k * cfg.shards as u64 + cfg.shard as u64;
            abandoned_receive_case("C19", kinds[(idx % 3) as usize], cfg.seed.wrapping_mul(15_485_863).wrapping_add(idx), &mut rep);
        }
    }
    // (2d) the sender hangs up right behind its last message
    if only.is_none() || only == Some("hangup") {
        let n = cfg.n(if heavy { 24 } else { 960 }, if heavy { 96 } else { 19_200 });
        for k in 0..n {
            let idx = k * cfg.shards as u64 + cfg.shard as u64;
            hangup_case(kinds[(idx % 3) as usize], cfg.seed.wrapping_mul(49_979_687).wrapping_add(idx), &mut rep);
            if rep.enough() {
                break;
            }
        }
    }
    // (3) ids
    if (only.is_none() || only == Some("ids")) && cfg.shard == 0 {
        ids_case(&mut rep, 8, if cfg.thorough { 4000 } else { 500 });
    }
    phase("done", false);
    let _ = std::fs::remove_dir_all(&dir);
    rep
}

//! C20 with real threads: one setter thread, 1..4 subscriber threads, real wakers (thread unpark).
//!
//! The deterministic monitor (`c20.rs`) enumerates poll schedules of one task; this one lets the operating system
//! interleave a `set` with the subscribers' polls and waker registrations. The verdicts are computed from states,
//! never from how long something took:
//!
//! * the setter publishes `sets_done = s` after `set(s)` has returned; a subscriber loads it *before* it polls. A
//!   poll that answers `Pending` although `sets_done` (as loaded before) is newer than the last value the
//!   subscriber has yielded is a violation: the value had been set, completely, before the poll began;
//! * a `set` wakes its subscribers before it returns, so once `sets_done` is newer than what a parked subscriber
//!   has seen, that subscriber's waker must have fired (a flag the waker sets). Parked, not woken, newer value set:
//!   a lost wake-up. The same at the end: all handles dropped and reported as dropped, subscriber parked, not woken;
//! * values yielded: ordinals strictly increasing, all set after the subscription, each marked as continuing; the
//!   stream ends only after every handle of the state is gone.
//!
//! A case that is not over after 60 s is inconclusive.

use crate::c20::{vfun, Notif, Smo, Tok, Val};
use crate::cfg::Cfg;
use futures_util::StreamExt;
use serde_json::json;
use std::sync::atomic::{AtomicBool, AtomicU64, Ordering::SeqCst};
use std::sync::{mpsc, Arc};
use std::task::{Context, Poll, Wake, Waker};
use std::time::{Duration, Instant};
use vnet::{Report, Rng};

struct ParkWaker {
    thread: std::thread::Thread,
    woken: AtomicBool,
}
impl Wake for ParkWaker {
    fn wake(self: Arc<Self>) {
        self.wake_by_ref()
    }
    fn wake_by_ref(self: &Arc<Self>) {
        self.woken.store(true, SeqCst);
        self.thread.unpark();
    }
}

#[derive(Debug, Default)]
struct SubOut {
    /// ordinals yielded, in order
    seqs: Vec<u64>,
    problems: Vec<(String, String)>,
    ended: bool,
    pendings: u64,
    gave_up: bool,
}

struct Shared {
    /// ordinal of the latest `set` that has returned
    sets_done: AtomicU64,
    /// the handles of the state are about to be dropped (stored before the drop begins)
    closing: AtomicBool,
    /// every handle of the state has been dropped (stored after the drop returned)
    closed: AtomicBool,
    /// the case is over: subscribers stop whatever they see
    abort: AtomicBool,
}

fn subscriber<S: futures_util::Stream<Item = zlink_core::Reply<Val>> + Unpin>(mut st: S, subscribed_after: u64, pat: u8, sh: Arc<Shared>, progress: Arc<AtomicU64>, pace: u8) -> SubOut {
    let mut out = SubOut::default();
    let w = Arc::new(ParkWaker { thread: std::thread::current(), woken: AtomicBool::new(false) });
    let waker = Waker::from(w.clone());
    let mut cx = Context::from_waker(&waker);
    let mut last = subscribed_after;
    loop {
        if sh.abort.load(SeqCst) {
            out.gave_up = true;
            return out;
        }
        w.woken.store(false, SeqCst);
        let done_before = sh.sets_done.load(SeqCst);
        let closed_before = sh.closed.load(SeqCst);
        match st.poll_next_unpin(&mut cx) {
            Poll::Ready(Some(r)) => {
                let cont = r.continues();
                match r.parameters() {
                    None => out.problems.push(("item-without-parameters".into(), format!("after ordinal {last}"))),
                    Some(v) => {
                        if v.seq <= last {
                            out.problems.push(("value-not-newer-than-the-previous-one".into(), format!("ordinal {} after {last}", v.seq)));
                        }
                        if v.v != vfun(pat, v.seq) {
                            out.problems.push(("value-was-never-set".into(), format!("ordinal {} carries {}", v.seq, v.v)));
                        }
                        last = last.max(v.seq);
                        out.seqs.push(v.seq);
                        progress.store(last, SeqCst);
                    }
                }
                if cont != Some(true) {
                    out.problems.push(("item-not-marked-as-continuing".into(), format!("ordinal {last}: continues = {cont:?}")));
                }
                if !out.problems.is_empty() {
                    return out;
                }
                // a subscriber that is slower than the setter (it then skips values)
                match pace {
                    1 => std::thread::yield_now(),
                    2 => std::thread::sleep(Duration::from_micros(60)),
                    3 => {
                        for _ in 0..2000 {
                            std::hint::spin_loop();
                        }
                    }
                    _ => {}
                }
            }
            Poll::Ready(None) => {
                out.ended = true;
                // only legal once every handle is gone: if the drop has not even begun by now, the stream ended
                // while the state existed
                if !sh.closing.load(SeqCst) {
                    out.problems.push(("stream-ended-while-the-state-exists".into(), format!("after ordinal {last}")));
                }
                return out;
            }
            Poll::Pending => {
                out.pendings += 1;
                // A set to a value equal to the one the subscriber holds may be silent: what is demanded is that the
                // subscriber holds the latest *value* (ordinal 0 = the value the state was created with).
                let val = |k: u64| if k == 0 { u64::MAX } else { vfun(pat, k) };
                let behind = |done: u64| done > last && val(done) != val(last);
                if behind(done_before) {
                    out.problems.push(("pending-although-a-newer-value-had-been-set-before-the-poll-began".into(), format!("last yielded ordinal {last}, set #{done_before} had returned before the poll started")));
                    return out;
                }
                if closed_before {
                    out.problems.push(("pending-although-every-handle-of-the-state-was-gone-before-the-poll-began".into(), format!("last yielded ordinal {last}")));
                    return out;
                }
                // wait for the wake-up
                loop {
                    if w.woken.load(SeqCst) {
                        break;
                    }
                    std::thread::park_timeout(Duration::from_millis(20));
                    if w.woken.load(SeqCst) {
                        break;
                    }
                    if sh.abort.load(SeqCst) {
                        out.gave_up = true;
                        return out;
                    }
                    let done_now = sh.sets_done.load(SeqCst);
                    if behind(done_now) && !w.woken.load(SeqCst) {
                        out.problems.push(("subscriber-not-woken-although-a-newer-value-was-set".into(), format!("parked with last yielded ordinal {last}; set #{done_now} has returned; the waker given to the last poll never fired")));
                        return out;
                    }
                    if sh.closed.load(SeqCst) && !w.woken.load(SeqCst) {
                        out.problems.push(("subscriber-not-woken-when-the-state-went-away".into(), format!("parked with last yielded ordinal {last}; every handle has been dropped; the waker never fired")));
                        return out;
                    }
                }
            }
        }
    }
}

fn one<N: Notif>(seed: u64, rep: &mut Report)
where
    N::State: Send + 'static,
    N::Stream: Send + 'static,
{
    let mut rng = Rng::derive(seed, 2020);
    let nsets = rng.range(1, 60) as u64;
    let nsub = rng.range(1, 4);
    let pat = *rng.pick(&[0u8, 0, 0, 1, 2, 3]);
    let with_clone = rng.chance(1, 3);
    // subscriber i subscribes when `at[i]` sets have been made
    let at: Vec<u64> = (0..nsub).map(|_| if rng.chance(1, 3) { 0 } else { rng.below(nsets as usize + 1) as u64 }).collect();
    let pace: Vec<u8> = (0..=nsets).map(|_| rng.below(6) as u8).collect();
    let desc = format!("{} threads: {nsets} sets (value pattern {pat}), {nsub} subscribers subscribing after {at:?} sets, second handle: {with_clone}, seed {seed}", N::NAME);
    rep.eval(vnet::fnv(desc.as_bytes()));
    rep.count(&format!("threaded_cases.{}", N::NAME));
    let replay = json!({"monitor": "c20t", "case": desc});
    let sh = Arc::new(Shared { sets_done: AtomicU64::new(0), closing: AtomicBool::new(false), closed: AtomicBool::new(false), abort: AtomicBool::new(false) });
    let mut handles = Vec::new();
    let mut txs: Vec<Option<mpsc::Sender<N::Stream>>> = Vec::new();
    let progress: Vec<Arc<AtomicU64>> = (0..nsub).map(|i| Arc::new(AtomicU64::new(at[i]))).collect();
    for i in 0..nsub {
        let (tx, rx) = mpsc::channel::<N::Stream>();
        txs.push(Some(tx));
        let (sh2, after, pr) = (sh.clone(), at[i], progress[i].clone());
        let sub_pace = rng.below(5) as u8;
        handles.push(std::thread::spawn(move || match rx.recv() {
            Ok(st) => subscriber(st, after, pat, sh2, pr, sub_pace),
            Err(_) => SubOut { gave_up: true, ..Default::default() },
        }));
    }
    let sh_setter = sh.clone();
    let at2 = at.clone();
    let setter = std::thread::spawn(move || {
        let mut state = N::new(Val { v: u64::MAX, seq: 0 });
        let mut second = if with_clone { Some(N::clone_state(&state)) } else { None };
        for s in 0..=nsets {
            for (i, a) in at2.iter().enumerate() {
                if *a == s {
                    if let Some(tx) = txs[i].take() {
                        let _ = tx.send(N::stream(&state));
                    }
                }
            }
            if s == nsets {
                break;
            }
            match pace[s as usize] {
                0 => std::thread::yield_now(),
                1 => std::thread::sleep(Duration::from_micros(30)),
                2 => {
                    for _ in 0..200 {
                        std::hint::spin_loop();
                    }
                }
                _ => {}
            }
            let v = Val { v: vfun(pat, s + 1), seq: s + 1 };
            match (&mut second, s % 2 == 1) {
                (Some(h), true) => N::set(h, v),
                _ => N::set(&mut state, v),
            }
            sh_setter.sets_done.store(s + 1, SeqCst);
        }
        (state, second)
    });
    let t0 = Instant::now();
    let state = match setter.join() {
        Ok(s) => s,
        Err(_) => {
            sh.abort.store(true, SeqCst);
            rep.violation(&format!("C20/{}/threads:set-panicked", N::NAME), desc.clone(), replay);
            for h in handles {
                let _ = h.join();
            }
            return;
        }
    };
    // every subscriber that has something to expect catches up (its own thread reports a lost wake-up if it is
    // parked without one); then the state goes away and every stream must end
    let val = |k: u64| if k == 0 { u64::MAX } else { vfun(pat, k) };
    // (a subscriber that holds the latest value has nothing more to expect)
    let wants = |i: usize| -> bool {
        let p = progress[i].load(SeqCst);
        p >= nsets || val(p) == val(nsets)
    };
    while !(0..nsub).all(|i| wants(i) || handles[i].is_finished()) {
        if t0.elapsed() > Duration::from_secs(60) {
            break;
        }
        std::thread::sleep(Duration::from_micros(200));
    }
    let caught_up_in_time = (0..nsub).all(|i| wants(i) || handles[i].is_finished());
    sh.closing.store(true, SeqCst);
    drop(state);
    sh.closed.store(true, SeqCst);
    let t1 = Instant::now();
    while !handles.iter().all(|h| h.is_finished()) {
        if t1.elapsed() > Duration::from_secs(60) {
            sh.abort.store(true, SeqCst);
            break;
        }
        std::thread::sleep(Duration::from_micros(200));
    }
    let mut inconclusive = !caught_up_in_time;
    let mut notes: Vec<String> = Vec::new();
    if !caught_up_in_time {
        notes.push(format!("subscribers had yielded up to ordinals {:?} of {nsets} after 60 s", progress.iter().map(|p| p.load(SeqCst)).collect::<Vec<_>>()));
    }
    for (i, h) in handles.into_iter().enumerate() {
        let o = match h.join() {
            Ok(o) => o,
            Err(_) => {
                rep.violation(&format!("C20/{}/threads:subscriber-panicked", N::NAME), format!("subscriber {i}; {desc}"), replay.clone());
                continue;
            }
        };
        rep.add("threaded_items_checked", o.seqs.len() as u64);
        rep.add("threaded_values_skipped_by_slow_subscribers", o.seqs.windows(2).filter(|w| w[1] > w[0] + 1).count() as u64);
        rep.add("threaded_pending_polls", o.pendings);
        if let Some((sig, d)) = o.problems.first() {
            rep.violation(&format!("C20/{}/threads:{sig}", N::NAME), format!("subscriber {i} (subscribed after {} sets): {d}; yielded ordinals {:?}; {desc}", at[i], o.seqs), replay.clone());
            continue;
        }
        if o.gave_up {
            inconclusive = true;
            notes.push(format!("subscriber {i} was told to stop after yielding {:?} ({} pending polls, ended: {})", o.seqs, o.pendings, o.ended));
            continue;
        }
        if o.seqs.first().is_some_and(|s| *s <= at[i]) {
            rep.violation(&format!("C20/{}/threads:value-set-before-the-subscription", N::NAME), format!("subscriber {i} subscribed after {} sets, yielded {:?}; {desc}", at[i], o.seqs), replay.clone());
            continue;
        }
        if !o.ended {
            rep.violation(&format!("C20/{}/threads:stream-did-not-end-although-the-state-is-gone", N::NAME), format!("subscriber {i}; {desc}"), replay.clone());
            continue;
        }
        rep.count("threaded_subscribers_ok");
    }
    if inconclusive {
        rep.inconclusive.push(format!("threaded case not over within its 60 s watchdogs ({}); {desc}", notes.join("; ")));
    } else {
        rep.count("threaded_cases_ok");
    }
}

pub fn run(cfg: &Cfg) -> Report {
    let mut rep = Report::new("C20", "c20-threads");
    let n = cfg.n(8_000, 800_000);
    for k in 0..n {
        let idx = k * cfg.shards as u64 + cfg.shard as u64;
        let seed = cfg.seed.wrapping_mul(1_000_003).wrapping_add(idx);
        if k % 2 == 0 {
            one::<Tok>(seed, &mut rep);
        } else {
            one::<Smo>(seed, &mut rep);
        }
        if rep.enough() {
            break;
        }
    }
    rep
}

//! C20 — notified state: subscribers converge on the latest value, in order; one-shot
//! notifications yield exactly one final reply. Both runtime crates, same oracle.
//!
//! `State` / `Once` of zlink-tokio and zlink-smol need no reactor, so they are driven by the
//! harness' poll-by-poll executor: an operation sequence is plain data.

use crate::cfg::Cfg;
use futures_util::{Stream, StreamExt};
use serde_json::{json, Value};
use std::task::Poll;
use vnet::{Report, Rng};
use zlink_core::Reply;

/// What the state holds: a value the application cares about (`v`) and the ordinal of the `set` that stored
/// it (`seq`, which only the oracle looks at). Two values are equal when their `v` is: a state that is set to the
/// value it already has holds an *equal* value afterwards.
#[derive(Debug, Clone, Copy)]
pub struct Val {
    pub v: u64,
    pub seq: u64,
}
impl PartialEq for Val {
    fn eq(&self, o: &Val) -> bool {
        self.v == o.v
    }
}

/// The value the `seq`-th set stores, under value pattern `pat`: 0 = all different, 1 = alternating between two
/// values, 2 = always the same value, 3 = pairs (a, a, b, b, a, a, ...).
pub fn vfun(pat: u8, seq: u64) -> u64 {
    match pat {
        0 => seq,
        1 => seq % 2,
        2 => 7,
        _ => (seq / 2) % 2,
    }
}

pub trait Notif {
    const NAME: &'static str;
    type State;
    type Stream: Stream<Item = Reply<Val>> + Unpin;
    type Once;
    fn new(v: Val) -> Self::State;
    fn set(s: &mut Self::State, v: Val);
    fn get(s: &Self::State) -> Val;
    fn stream(s: &Self::State) -> Self::Stream;
    fn clone_state(s: &Self::State) -> Self::State;
    fn once() -> (Self::Once, Self::Stream);
    fn notify(o: Self::Once, v: Val);
}

pub struct Tok;
impl Notif for Tok {
    const NAME: &'static str = "tokio";
    type State = zlink_tokio::notified::State<Val, Val>;
    type Stream = zlink_tokio::notified::Stream<Val>;
    type Once = zlink_tokio::notified::Once<Val>;
    fn new(v: Val) -> Self::State {
        zlink_tokio::notified::State::new(v)
    }
    fn set(s: &mut Self::State, v: Val) {
        vnet::block_on(s.set(v), 8).expect("State::set must not block");
    }
    fn get(s: &Self::State) -> Val {
        s.get()
    }
    fn stream(s: &Self::State) -> Self::Stream {
        s.stream()
    }
    fn clone_state(s: &Self::State) -> Self::State {
        s.clone()
    }
    fn once() -> (Self::Once, Self::Stream) {
        zlink_tokio::notified::Once::new()
    }
    fn notify(o: Self::Once, v: Val) {
        o.notify(v)
    }
}

pub struct Smo;
impl Notif for Smo {
    const NAME: &'static str = "smol";
    type State = zlink_smol::notified::State<Val, Val>;
    type Stream = zlink_smol::notified::Stream<Val>;
    type Once = zlink_smol::notified::Once<Val>;
    fn new(v: Val) -> Self::State {
        zlink_smol::notified::State::new(v)
    }
    fn set(s: &mut Self::State, v: Val) {
        vnet::block_on(s.set(v), 8).expect("State::set must not block");
    }
    fn get(s: &Self::State) -> Val {
        s.get()
    }
    fn stream(s: &Self::State) -> Self::Stream {
        s.stream()
    }
    fn clone_state(s: &Self::State) -> Self::State {
        s.clone()
    }
    fn once() -> (Self::Once, Self::Stream) {
        zlink_smol::notified::Once::new()
    }
    fn notify(o: Self::Once, v: Val) {
        o.notify(v)
    }
}

#[derive(Debug, Clone, Copy, PartialEq, Eq, Hash)]
pub enum Op {
    /// set the next value (1, 2, 3, ...) through state handle `h`
    Set(u8),
    /// subscribe through state handle `h`
    Sub(u8),
    /// poll subscriber `i` once
    Poll(u8),
    /// clone state handle 0 into handle 1
    Clone,
    /// drop state handle `h`
    Drop(u8),
    /// drop subscriber `i`
    Unsub(u8),
}

#[derive(Debug, Clone, PartialEq, Eq)]
pub enum Obs {
    Done,
    Skipped,
    Item(u64, Option<bool>, bool), // value, continues, parameters present
    Pending,
    End,
    /// wake-driven execution: the subscriber's waker has not fired since its last poll, so a runtime
    /// would not poll it (and the harness does not either)
    NotWoken,
}

fn op_json(o: &Op) -> Value {
    match o {
        Op::Set(h) => json!(["set", h]),
        Op::Sub(h) => json!(["sub", h]),
        Op::Poll(i) => json!(["poll", i]),
        Op::Clone => json!(["clone", 0]),
        Op::Drop(h) => json!(["drop", h]),
        Op::Unsub(i) => json!(["unsub", i]),
    }
}
fn op_from(v: &Value) -> Op {
    let n = v[1].as_u64().unwrap() as u8;
    match v[0].as_str().unwrap() {
        "set" => Op::Set(n),
        "sub" => Op::Sub(n),
        "poll" => Op::Poll(n),
        "clone" => Op::Clone,
        "drop" => Op::Drop(n),
        _ => Op::Unsub(n),
    }
}

/// Execute the sequence on runtime crate `N`; operations that are impossible in the current
/// situation (set through a dropped handle, poll of a subscriber that does not exist) are skipped.
pub fn execute<N: Notif>(ops: &[Op]) -> Vec<Obs> {
    execute_mode::<N>(ops, false, 0)
}

/// `wake`: every subscriber is a task of its own with its own waker; after its first poll it is polled
/// again only if that waker has fired (what a runtime does), otherwise the poll is recorded as `NotWoken`.
pub fn execute_mode<N: Notif>(ops: &[Op], wake: bool, pat: u8) -> Vec<Obs> {
    let mut handles: Vec<Option<N::State>> = vec![Some(N::new(Val { v: vfun(pat, 0), seq: 0 })), None];
    let mut subs: Vec<Option<N::Stream>> = Vec::new();
    let mut tasks: Vec<(std::sync::Arc<vnet::WakeFlag>, bool)> = Vec::new();
    let mut next = 1u64;
    let mut out = Vec::with_capacity(ops.len());
    for op in ops {
        let o = match *op {
            Op::Set(h) => match handles.get_mut(h as usize).and_then(|x| x.as_mut()) {
                Some(s) => {
                    N::set(s, Val { v: vfun(pat, next), seq: next });
                    let got = N::get(s);
                    // the handle that was set holds a value equal to the one it was given
                    let r = if got.v == vfun(pat, next) { Obs::Done } else { Obs::Item(got.seq, None, false) };
                    next += 1;
                    r
                }
                None => Obs::Skipped,
            },
            Op::Sub(h) => match handles.get(h as usize).and_then(|x| x.as_ref()) {
                Some(s) => {
                    subs.push(Some(N::stream(s)));
                    tasks.push((vnet::WakeFlag::new(), false));
                    Obs::Done
                }
                None => Obs::Skipped,
            },
            Op::Poll(i) => match subs.get_mut(i as usize).and_then(|x| x.as_mut()) {
                Some(_) if wake && tasks[i as usize].1 && !tasks[i as usize].0.is_set() => Obs::NotWoken,
                Some(st) => {
                    let fut = st.next();
                    let mut fut = core::pin::pin!(fut);
                    let r = if wake {
                        tasks[i as usize].1 = true;
                        tasks[i as usize].0.poll(fut.as_mut())
                    } else {
                        vnet::poll_once(fut.as_mut())
                    };
                    if wake && r.is_ready() {
                        // a task that got an item goes on (asks for the next one): it is runnable
                        tasks[i as usize].1 = false;
                    }
                    match r {
                        Poll::Pending => Obs::Pending,
                        Poll::Ready(None) => Obs::End,
                        Poll::Ready(Some(r)) => match r.parameters() {
                            // an item whose value is not the one that set stored is reported as garbage
                            Some(p) if p.v != vfun(pat, p.seq) => Obs::Item(u64::MAX - 1, r.continues(), true),
                            Some(p) => Obs::Item(p.seq, r.continues(), true),
                            None => Obs::Item(u64::MAX, r.continues(), false),
                        },
                    }
                }
                None => Obs::Skipped,
            },
            Op::Clone => {
                if handles[1].is_none() {
                    if let Some(s) = handles[0].as_ref() {
                        handles[1] = Some(N::clone_state(s));
                        Obs::Done
                    } else {
                        Obs::Skipped
                    }
                } else {
                    Obs::Skipped
                }
            }
            Op::Drop(h) => match handles.get_mut(h as usize) {
                Some(x) if x.is_some() => {
                    *x = None;
                    Obs::Done
                }
                _ => Obs::Skipped,
            },
            Op::Unsub(i) => match subs.get_mut(i as usize) {
                Some(x) if x.is_some() => {
                    *x = None;
                    Obs::Done
                }
                _ => Obs::Skipped,
            },
        };
        out.push(o);
    }
    out
}

/// The oracle: returns (signature suffix, detail) for the first violation in the trace.
pub fn judge(ops: &[Op], obs: &[Obs], stats: &mut Stats, pat: u8) -> Option<(String, String)> {
    struct SubSt {
        sub_at: u64,
        last: Option<u64>,
        ended: bool,
    }
    let mut handles = [true, false];
    let mut latest = 0u64; // last value set so far (0 = initial)
    let mut subs: Vec<Option<SubSt>> = Vec::new();
    for (k, (op, o)) in ops.iter().zip(obs).enumerate() {
        match (*op, o) {
            (_, Obs::Skipped) => {}
            (Op::Set(_), Obs::Done) => latest += 1,
            (Op::Set(_), other) => return Some(("get-after-set-returns-another-value".into(), format!("step {k}: {other:?}"))),
            (Op::Sub(_), _) => subs.push(Some(SubSt { sub_at: latest, last: None, ended: false })),
            (Op::Clone, _) => handles[1] = true,
            (Op::Drop(h), _) => handles[h as usize] = false,
            (Op::Unsub(i), _) => subs[i as usize] = None,
            (Op::Poll(i), o) => {
                let alive = handles.iter().any(|h| *h);
                let s = subs[i as usize].as_mut().unwrap();
                let newest_since_sub = if latest > s.sub_at { Some(latest) } else { None };
                // convergence is judged on the values: what the subscriber has seen last (or what the state held
                // when it subscribed) against what the state was set to last
                let caught_up = |s: &SubSt| vfun(pat, s.last.unwrap_or(s.sub_at)) == vfun(pat, latest);
                match o {
                    Obs::Item(v, c, present) => {
                        stats.items += 1;
                        if !*present {
                            return Some(("item-without-parameters".into(), format!("step {k}")));
                        }
                        if s.ended {
                            return Some(("item-after-the-stream-ended".into(), format!("step {k}: {v}")));
                        }
                        if *v <= s.sub_at || *v > latest {
                            return Some(("value-not-set-after-subscribing".into(), format!("step {k}: subscriber {i} subscribed after value {} and received {v} (latest set {latest})", s.sub_at)));
                        }
                        if let Some(l) = s.last {
                            if *v <= l {
                                return Some(("values-out-of-order-or-repeated".into(), format!("step {k}: subscriber {i} received {v} after {l}")));
                            }
                            if *v > l + 1 {
                                stats.skips += 1;
                            }
                        }
                        if *c != Some(true) {
                            return Some(("state-item-not-marked-continuing".into(), format!("step {k}: continues={c:?}")));
                        }
                        s.last = Some(*v);
                    }
                    Obs::Pending => {
                        stats.pendings += 1;
                        if let Some(n) = newest_since_sub {
                            if !caught_up(s) && !s.ended {
                                return Some(("poll-pending-although-a-newer-value-was-set".into(), format!("step {k}: subscriber {i} has seen {:?}, latest set since it subscribed is {n}", s.last)));
                            }
                        }
                        if !alive && !s.ended {
                            stats.pending_after_state_dropped += 1;
                        }
                    }
                    Obs::NotWoken => {
                        stats.not_woken += 1;
                        if let Some(n) = newest_since_sub {
                            if !caught_up(s) && !s.ended {
                                return Some(("subscriber-not-woken-although-a-newer-value-was-set".into(), format!("step {k}: subscriber {i} returned Pending earlier, has seen {:?}, latest set since it subscribed is {n}, and its waker has not fired: a runtime would never poll it again", s.last)));
                            }
                        }
                    }
                    Obs::End => {
                        stats.ends += 1;
                        if alive && !s.ended {
                            return Some(("subscription-ended-while-the-state-exists".into(), format!("step {k}: subscriber {i}")));
                        }
                        if let Some(n) = newest_since_sub {
                            if !caught_up(s) && !s.ended {
                                return Some(("subscription-ended-before-delivering-the-most-recent-value".into(), format!("step {k}: subscriber {i} has seen {:?}, latest {n}", s.last)));
                            }
                        }
                        s.ended = true;
                    }
                    _ => {}
                }
            }
        }
    }
    None
}

#[derive(Default, Debug)]
pub struct Stats {
    pub items: u64,
    pub skips: u64,
    pub pendings: u64,
    pub ends: u64,
    pub pending_after_state_dropped: u64,
    pub not_woken: u64,
}

fn hash_ops(ops: &[Op]) -> u64 {
    vnet::fnv(format!("{ops:?}").as_bytes())
}

fn check(ops: &[Op], rep: &mut Report, stats: &mut Stats) {
    rep.eval(hash_ops(ops));
    let replay = || json!({"monitor": "c20", "ops": ops.iter().map(op_json).collect::<Vec<_>>()});
    // which values the sets store: all different, or (chosen by the sequence) alternating / constant / pairs
    let pat = (hash_ops(ops) % 4) as u8;
    let t = vnet::catch(|| execute::<Tok>(ops));
    let s = vnet::catch(|| execute::<Smo>(ops));
    let mut traces = Vec::new();
    for (name, r) in [("tokio", t), ("smol", s)] {
        match r {
            Err(p) => rep.violation(&format!("C20/{name}/panic"), format!("panic: {p}; ops {ops:?}"), replay()),
            Ok(obs) => {
                if let Some((sig, detail)) = judge(ops, &obs, stats, 0) {
                    rep.violation(&format!("C20/{name}/{sig}"), format!("{detail}; ops {ops:?}; observed {obs:?}"), replay());
                }
                traces.push(obs);
            }
        }
    }
    // the same sequence wake-driven: a subscriber that returned Pending is only polled again after its waker fired
    rep.evaluations += 1;
    for (name, r) in [("tokio", vnet::catch(|| execute_mode::<Tok>(ops, true, 0))), ("smol", vnet::catch(|| execute_mode::<Smo>(ops, true, 0)))] {
        match r {
            Err(p) => rep.violation(&format!("C20/{name}/panic"), format!("panic (wake-driven): {p}; ops {ops:?}"), replay()),
            Ok(obs) => {
                if let Some((sig, detail)) = judge(ops, &obs, stats, 0) {
                    rep.violation(&format!("C20/{name}/{sig}"), format!("[wake-driven] {detail}; ops {ops:?}; observed {obs:?}"), replay());
                }
            }
        }
    }
    // the same sequence with values that repeat (set to what the state already holds, set back to an earlier
    // value through another handle): by the values, every subscriber still ends up with what was set last
    if pat != 0 {
        rep.evaluations += 1;
        rep.count(&format!("sequences_with_repeating_values.pattern{pat}"));
        for wake in [false, true] {
            for (name, r) in [("tokio", vnet::catch(|| execute_mode::<Tok>(ops, wake, pat))), ("smol", vnet::catch(|| execute_mode::<Smo>(ops, wake, pat)))] {
                match r {
                    Err(p) => rep.violation(&format!("C20/{name}/panic"), format!("panic (values pattern {pat}): {p}; ops {ops:?}"), replay()),
                    Ok(obs) => {
                        if let Some((sig, detail)) = judge(ops, &obs, stats, pat) {
                            rep.violation(&format!("C20/{name}/{sig}"), format!("[values pattern {pat}: the k-th set stores {:?}{}] {detail}; ops {ops:?}; observed {obs:?}", (0..6).map(|k| vfun(pat, k)).collect::<Vec<_>>(), if wake { ", wake-driven" } else { "" }), replay());
                        }
                    }
                }
            }
        }
    }
    if traces.len() == 2 {
        if traces[0] == traces[1] {
            rep.count("traces_identical_tokio_smol");
        } else {
            rep.count("traces_differ_tokio_smol_but_both_conform");
        }
    }
}

// ---- Once -------------------------------------------------------------------------------------

#[derive(Debug, Clone, Copy, PartialEq, Eq)]
pub enum OOp {
    Poll,
    Notify,
    DropNotifier,
}

pub fn execute_once<N: Notif>(ops: &[OOp]) -> Vec<Obs> {
    execute_once_mode::<N>(ops, false)
}

pub fn execute_once_mode<N: Notif>(ops: &[OOp], wake: bool) -> Vec<Obs> {
    let (o, mut st) = N::once();
    let mut o = Some(o);
    let mut out = Vec::new();
    let flag = vnet::WakeFlag::new();
    let mut parked = false;
    for op in ops {
        out.push(match op {
            OOp::Poll if wake && parked && !flag.is_set() => Obs::NotWoken,
            OOp::Poll => {
                let fut = st.next();
                let mut fut = core::pin::pin!(fut);
                let r = if wake { flag.poll(fut.as_mut()) } else { vnet::poll_once(fut.as_mut()) };
                parked = r.is_pending();
                match r {
                    Poll::Pending => Obs::Pending,
                    Poll::Ready(None) => Obs::End,
                    Poll::Ready(Some(r)) => Obs::Item(r.parameters().map(|p| p.v).unwrap_or(u64::MAX), r.continues(), r.parameters().is_some()),
                }
            }
            OOp::Notify => match o.take() {
                Some(x) => {
                    N::notify(x, Val { v: 77, seq: 0 });
                    Obs::Done
                }
                None => Obs::Skipped,
            },
            OOp::DropNotifier => match o.take() {
                Some(_) => Obs::Done,
                None => Obs::Skipped,
            },
        });
    }
    out
}

pub fn judge_once(ops: &[OOp], obs: &[Obs]) -> Option<(String, String)> {
    let mut notified = false;
    let mut gone = false; // notifier consumed or dropped
    let mut got = 0;
    let mut ended = false;
    for (k, (op, o)) in ops.iter().zip(obs).enumerate() {
        match (op, o) {
            (_, Obs::Skipped) => {}
            (OOp::Notify, _) => {
                notified = true;
                gone = true;
            }
            (OOp::DropNotifier, _) => gone = true,
            (OOp::Poll, Obs::Pending) => {
                if gone {
                    return Some(("once-poll-pending-after-notify-or-drop".into(), format!("step {k}")));
                }
            }
            (OOp::Poll, Obs::NotWoken) => {
                if gone && !ended {
                    return Some(("once-stream-not-woken-after-notify-or-drop".into(), format!("step {k}: the stream returned Pending earlier and its waker has not fired although the notifier has notified / is gone")));
                }
            }
            (OOp::Poll, Obs::Item(v, c, present)) => {
                got += 1;
                if !notified || got > 1 || ended {
                    return Some(("once-yields-an-item-nobody-sent".into(), format!("step {k}: {v}")));
                }
                if *v != 77 || !*present {
                    return Some(("once-item-has-wrong-content".into(), format!("step {k}: {v}")));
                }
                if *c != Some(false) {
                    return Some(("once-item-not-marked-final".into(), format!("step {k}: continues={c:?}")));
                }
            }
            (OOp::Poll, Obs::End) => {
                if !gone {
                    return Some(("once-ends-before-notify-or-drop".into(), format!("step {k}")));
                }
                if notified && got == 0 {
                    return Some(("once-ends-without-delivering-the-notification".into(), format!("step {k}")));
                }
                ended = true;
            }
            _ => {}
        }
    }
    None
}

fn check_once(ops: &[OOp], rep: &mut Report) {
    rep.eval(vnet::fnv(format!("once{ops:?}").as_bytes()));
    let replay = || json!({"monitor": "c20", "once": ops.iter().map(|o| match o { OOp::Poll => "poll", OOp::Notify => "notify", OOp::DropNotifier => "drop" }).collect::<Vec<_>>()});
    let t = vnet::catch(|| execute_once::<Tok>(ops));
    let s = vnet::catch(|| execute_once::<Smo>(ops));
    let mut traces = Vec::new();
    for (name, r) in [("tokio", t), ("smol", s)] {
        match r {
            Err(p) => rep.violation(&format!("C20/{name}/once-panic"), format!("panic: {p}; ops {ops:?}"), replay()),
            Ok(obs) => {
                if let Some((sig, detail)) = judge_once(ops, &obs) {
                    rep.violation(&format!("C20/{name}/{sig}"), format!("{detail}; ops {ops:?}; observed {obs:?}"), replay());
                }
                traces.push(obs);
            }
        }
    }
    for (name, r) in [("tokio", vnet::catch(|| execute_once_mode::<Tok>(ops, true))), ("smol", vnet::catch(|| execute_once_mode::<Smo>(ops, true)))] {
        match r {
            Err(p) => rep.violation(&format!("C20/{name}/once-panic"), format!("panic (wake-driven): {p}; ops {ops:?}"), replay()),
            Ok(obs) => {
                if let Some((sig, detail)) = judge_once(ops, &obs) {
                    rep.violation(&format!("C20/{name}/{sig}"), format!("[wake-driven] {detail}; ops {ops:?}; observed {obs:?}"), replay());
                }
            }
        }
    }
    rep.count("once_sequences");
    if traces.len() == 2 && traces[0] != traces[1] {
        rep.count("once_traces_differ_tokio_smol_but_both_conform");
    }
}

pub fn run(cfg: &Cfg) -> Report {
    let mut rep = Report::new("C20", "c20");
    let mut stats = Stats::default();
    if let Some(r) = &cfg.replay {
        if let Some(ops) = r.get("ops").and_then(|o| o.as_array()) {
            let ops: Vec<Op> = ops.iter().map(op_from).collect();
            check(&ops, &mut rep, &mut stats);
            rep.notes.push(format!("tokio {:?}", vnet::catch(|| execute::<Tok>(&ops))));
            rep.notes.push(format!("smol {:?}", vnet::catch(|| execute::<Smo>(&ops))));
        } else if let Some(ops) = r.get("once").and_then(|o| o.as_array()) {
            let ops: Vec<OOp> = ops.iter().map(|o| match o.as_str().unwrap() { "poll" => OOp::Poll, "notify" => OOp::Notify, _ => OOp::DropNotifier }).collect();
            check_once(&ops, &mut rep);
        }
        return rep;
    }
    let miri = cfg.layer == "miri";
    // (1) exhaustive: all sequences up to length L over {Set, Sub, Poll0, Poll1, Drop}, k <= 4 sets, <= 2 subscribers
    let max_len = if miri { 5 } else if cfg.thorough { 11 } else { 9 };
    let alphabet = [Op::Set(0), Op::Sub(0), Op::Poll(0), Op::Poll(1), Op::Drop(0)];
    let mut idx = 0u64;
    let mut seq: Vec<Op> = Vec::new();
    fn rec(seq: &mut Vec<Op>, max_len: usize, alphabet: &[Op], idx: &mut u64, cfg: &Cfg, rep: &mut Report, stats: &mut Stats) {
        if !seq.is_empty() {
            *idx += 1;
            // only maximal prefixes matter less; check every sequence that ends with a poll
            if matches!(seq.last(), Some(Op::Poll(_))) && cfg.mine(*idx) {
                check(seq, rep, stats);
            }
        }
        if seq.len() == max_len {
            return;
        }
        let sets = seq.iter().filter(|o| matches!(o, Op::Set(_))).count();
        let subs = seq.iter().filter(|o| matches!(o, Op::Sub(_))).count();
        let dropped = seq.iter().any(|o| matches!(o, Op::Drop(_)));
        for a in alphabet {
            let ok = match a {
                Op::Set(_) => sets < 4 && !dropped,
                Op::Sub(_) => subs < 2 && !dropped,
                Op::Poll(i) => (*i as usize) < subs,
                Op::Drop(_) => !dropped,
                _ => false,
            };
            if ok {
                seq.push(*a);
                rec(seq, max_len, alphabet, idx, cfg, rep, stats);
                seq.pop();
            }
        }
    }
    rec(&mut seq, max_len, &alphabet, &mut idx, cfg, &mut rep, &mut stats);
    rep.add("exhaustive_max_len", max_len as u64);
    // (2) random: k <= 6 sets, up to 3 subscribers, clones, unsubscribes
    let n = cfg.n(if miri { 160 } else { 200_000 }, 5_000_000);
    let mut rng: Rng = cfg.rng(201);
    for k in 0..n {
        let len = rng.range(4, 24);
        let mut ops = Vec::with_capacity(len);
        let mut sets = 0;
        for _ in 0..len {
            let op = match rng.below(16) {
                0..=3 if sets < 6 => {
                    sets += 1;
                    Op::Set(rng.below(2) as u8)
                }
                4 | 5 => Op::Sub(rng.below(2) as u8),
                6..=11 => Op::Poll(rng.below(3) as u8),
                12 => Op::Clone,
                13 => Op::Drop(rng.below(2) as u8),
                14 => Op::Unsub(rng.below(3) as u8),
                _ => Op::Poll(rng.below(3) as u8),
            };
            ops.push(op);
        }
        // finish with a few polls of everybody so that convergence is observed
        for _ in 0..2 {
            for i in 0..3 {
                ops.push(Op::Poll(i));
            }
        }
        check(&ops, &mut rep, &mut stats);
        if k % 40_000 == 1 {
            let obs = execute::<Tok>(&ops);
            rep.sample(6, || json!({"ops": format!("{ops:?}"), "tokio_trace": format!("{obs:?}")}));
        }
    }
    // (3) Once: all sequences up to length 6
    if cfg.shard == 0 {
        let oa = [OOp::Poll, OOp::Notify, OOp::DropNotifier];
        let max = if miri { 4 } else { 7 };
        for len in 1..=max {
            for code in 0..3usize.pow(len as u32) {
                let mut c = code;
                let ops: Vec<OOp> = (0..len).map(|_| { let o = oa[c % 3]; c /= 3; o }).collect();
                check_once(&ops, &mut rep);
            }
        }
    }
    rep.add("items_observed", stats.items);
    rep.add("skipped_intermediate_values", stats.skips);
    rep.add("pending_polls", stats.pendings);
    rep.add("stream_ends_observed", stats.ends);
    rep.add("wake_driven_polls_skipped_because_not_woken", stats.not_woken);
    rep.add("advisory_pending_after_every_state_handle_dropped", stats.pending_after_state_dropped);
    rep.exhaustive = false;
    rep
}

//! The server world on real runtimes and real Unix sockets (C01, C08, C09, C10).
//!
//! `Server::run` of zlink-tokio (current-thread and multi-thread runtime) and zlink-smol over a bound Unix
//! socket; the clients are plain blocking `std::os::unix::net::UnixStream`s driven by the harness, so what
//! they see is exactly what went through the kernel. Order is forced with the service's own log (the
//! harness waits until the service has seen a call before it takes the next step), never with sleeps, and
//! every verdict is computed from the frames the clients received. A step that does not complete within
//! its (generous) wall-clock watchdog makes the case inconclusive unless the recorded state proves more.

use crate::c19::Kind;
use crate::cfg::Cfg;
use futures_util::future::{select, Either};
use serde::{Deserialize, Serialize};
use serde_json::{json, Value};
use std::{
    io::{Read, Write},
    os::unix::net::UnixStream,
    path::{Path, PathBuf},
    sync::{
        atomic::{AtomicBool, Ordering},
        Arc, Mutex,
    },
    time::{Duration, Instant},
};
use vnet::{Report, Rng};
use zlink_core::{Call, ReplyError, Server};

#[derive(Debug, Clone, Serialize, Deserialize, PartialEq)]
#[serde(tag = "method", content = "parameters")]
pub enum M {
    #[serde(rename = "r.Echo")]
    Echo { client: u32, seq: u32, size: usize },
    #[serde(rename = "r.Fail")]
    Fail { client: u32, seq: u32 },
    #[serde(rename = "r.Set")]
    Set {
        client: u32,
        seq: u32,
        v: u64,
        /// bytes of padding the stored value carries (so that one subscription item can exceed a socket buffer)
        #[serde(default)]
        size: usize,
    },
    #[serde(rename = "r.Watch")]
    Watch { client: u32, seq: u32 },
    #[serde(rename = "r.Job")]
    Job { client: u32, seq: u32 },
    #[serde(rename = "r.Finish")]
    Finish { client: u32, seq: u32, job_client: u32, job_seq: u32, v: u64 },
}

impl M {
    fn id(&self) -> (u32, u32) {
        match self {
            M::Echo { client, seq, .. } | M::Fail { client, seq } | M::Set { client, seq, .. } | M::Watch { client, seq } | M::Job { client, seq } | M::Finish { client, seq, .. } => (*client, *seq),
        }
    }
}

#[derive(Debug, Serialize)]
pub struct Rep<'a> {
    pub client: u32,
    pub seq: u32,
    pub body: &'a str,
}

#[derive(Debug, Clone, Serialize, Deserialize, PartialEq)]
pub struct Val {
    pub v: u64,
    #[serde(default, skip_serializing_if = "String::is_empty")]
    pub pad: String,
}

#[derive(Debug, ReplyError)]
#[zlink(interface = "r", crate = "zlink_core")]
pub enum E {
    Failed { client: u32, seq: u32 },
}

#[derive(Debug, Clone)]
pub struct Logged {
    pub m: M,
    pub oneway: bool,
}
pub type SharedLog = Arc<Mutex<Vec<Logged>>>;

pub fn reply_body(client: u32, seq: u32, size: usize) -> String {
    crate::c19::body(3, (client as u64) << 32 | seq as u64, size)
}

mod tok {
    use zlink_tokio::notified as nt;
    include!("rsrv_svc.rs");
}
mod smo {
    use zlink_smol::notified as nt;
    include!("rsrv_svc.rs");
}

async fn nap(kind: Kind, d: Duration) {
    match kind {
        Kind::Smol => {
            smol::Timer::after(d).await;
        }
        _ => tokio::time::sleep(d).await,
    }
}

// ---- the server ------------------------------------------------------------------------------------

pub struct Srv {
    th: Option<std::thread::JoinHandle<Result<Result<(), String>, String>>>,
    stop: Arc<AtomicBool>,
    pub log: SharedLog,
    pub path: PathBuf,
}

pub fn start(kind: Kind, dir: &Path, tag: u64) -> Result<Srv, String> {
    let path = dir.join(format!("r{}.sock", tag % 10_000_000));
    let _ = std::fs::remove_file(&path);
    let log: SharedLog = Arc::new(Mutex::new(Vec::new()));
    let stop = Arc::new(AtomicBool::new(false));
    let ready = Arc::new(Mutex::new(None::<Result<(), String>>));
    let th = {
        let (log, stop, ready, path) = (log.clone(), stop.clone(), ready.clone(), path.clone());
        std::thread::spawn(move || {
            vnet::catch(move || {
                let body = async move {
                    macro_rules! serve {
                        ($listener:expr, $svc:expr) => {{
                            let listener = match $listener {
                                Ok(l) => l,
                                Err(e) => {
                                    *ready.lock().unwrap() = Some(Err(format!("bind: {e:?}")));
                                    return Ok(());
                                }
                            };
                            *ready.lock().unwrap() = Some(Ok(()));
                            let server = Server::new(listener, $svc);
                            let run = core::pin::pin!(server.run());
                            let halt = core::pin::pin!(async {
                                while !stop.load(Ordering::SeqCst) {
                                    nap(kind, Duration::from_millis(2)).await;
                                }
                            });
                            match select(run, halt).await {
                                Either::Left((r, _)) => Err(format!("Server::run returned {r:?}")),
                                Either::Right(_) => Ok(()),
                            }
                        }};
                    }
                    match kind {
                        Kind::Smol => serve!(zlink_smol::unix::bind(&path), smo::Svc::new(log)),
                        _ => serve!(zlink_tokio::unix::bind(&path), tok::Svc::new(log)),
                    }
                };
                match kind {
                    Kind::Smol => smol::block_on(body),
                    Kind::TokioMulti => tokio::runtime::Builder::new_multi_thread().worker_threads(2).enable_all().build().unwrap().block_on(body),
                    Kind::TokioCurrent => tokio::runtime::Builder::new_current_thread().enable_all().build().unwrap().block_on(body),
                }
            })
        })
    };
    let t0 = Instant::now();
    loop {
        if let Some(r) = ready.lock().unwrap().clone() {
            r?;
            break;
        }
        if t0.elapsed() > Duration::from_secs(30) {
            stop.store(true, Ordering::SeqCst);
            return Err("server did not start within 30 s".into());
        }
        std::thread::sleep(Duration::from_micros(200));
    }
    Ok(Srv { th: Some(th), stop, log, path })
}

pub enum SrvEnd {
    Fine,
    /// `Server::run` completed by itself
    Returned(String),
    /// a panic on the server thread (message with location)
    Panicked(String),
}

impl Srv {
    /// Has the service seen the call (client, seq)?
    pub fn seen(&self, client: u32, seq: u32) -> bool {
        self.log.lock().unwrap().iter().any(|l| l.m.id() == (client, seq))
    }
    pub fn wait_seen(&self, client: u32, seq: u32, secs: u64) -> bool {
        let t0 = Instant::now();
        while !self.seen(client, seq) {
            if t0.elapsed() > Duration::from_secs(secs) || self.th.as_ref().map_or(true, |t| t.is_finished()) {
                return self.seen(client, seq);
            }
            std::thread::sleep(Duration::from_micros(200));
        }
        true
    }
    pub fn alive(&self) -> bool {
        self.th.as_ref().map_or(false, |t| !t.is_finished())
    }
    pub fn finish(mut self) -> SrvEnd {
        // a server that already ended did so by itself
        let ended_before = !self.alive();
        self.stop.store(true, Ordering::SeqCst);
        let r = self.th.take().unwrap().join();
        let _ = std::fs::remove_file(&self.path);
        match r {
            Err(_) => SrvEnd::Panicked("server thread panicked outside the monitor's catch".into()),
            Ok(Err(p)) => SrvEnd::Panicked(p),
            Ok(Ok(Err(e))) => SrvEnd::Returned(e),
            Ok(Ok(Ok(()))) => {
                let _ = ended_before;
                SrvEnd::Fine
            }
        }
    }
}

// ---- blocking clients ------------------------------------------------------------------------------

pub struct Cli {
    pub s: UnixStream,
    buf: Vec<u8>,
}

#[derive(Debug, PartialEq)]
pub enum RdErr {
    Timeout,
    Closed,
    Io(String),
}

impl Cli {
    pub fn connect(path: &Path) -> Result<Cli, String> {
        let s = UnixStream::connect(path).map_err(|e| format!("connect: {e}"))?;
        Ok(Cli { s, buf: Vec::new() })
    }
    pub fn send(&mut self, b: &[u8]) -> Result<(), String> {
        self.s.write_all(b).map_err(|e| format!("write: {e}"))
    }
    /// The next frame (without its NUL).
    pub fn frame(&mut self, timeout: Duration) -> Result<Vec<u8>, RdErr> {
        let deadline = Instant::now() + timeout;
        loop {
            if let Some(p) = self.buf.iter().position(|b| *b == 0) {
                let f: Vec<u8> = self.buf.drain(..=p).collect();
                return Ok(f[..f.len() - 1].to_vec());
            }
            let left = deadline.saturating_duration_since(Instant::now());
            if left.is_zero() {
                return Err(RdErr::Timeout);
            }
            self.s.set_read_timeout(Some(left.min(Duration::from_millis(500)))).ok();
            let mut tmp = [0u8; 65536];
            match self.s.read(&mut tmp) {
                Ok(0) => return Err(RdErr::Closed),
                Ok(n) => self.buf.extend_from_slice(&tmp[..n]),
                Err(e) if matches!(e.kind(), std::io::ErrorKind::WouldBlock | std::io::ErrorKind::TimedOut | std::io::ErrorKind::Interrupted) => {}
                Err(e) => return Err(RdErr::Io(e.to_string())),
            }
        }
    }
    /// Bytes waiting in the socket (not yet read by this client).
    pub fn unread(&self) -> usize {
        use std::os::fd::AsRawFd;
        let mut n: libc::c_int = 0;
        let r = unsafe { libc::ioctl(self.s.as_raw_fd(), libc::FIONREAD, &mut n) };
        if r == 0 {
            n as usize + self.buf.len()
        } else {
            self.buf.len()
        }
    }
}

pub fn call_bytes(m: &M, oneway: bool, more: bool) -> Vec<u8> {
    let c = Call::new(m.clone()).set_oneway(oneway).set_more(more);
    let mut b = serde_json::to_vec(&c).unwrap();
    b.push(0);
    b
}

fn echo_reply(client: u32, seq: u32, size: usize) -> Value {
    json!({"parameters": {"client": client, "seq": seq, "body": reply_body(client, seq, size)}})
}

/// `continues: false` and an absent `continues` are the same answer.
fn norm(mut v: Value) -> Value {
    if let Some(o) = v.as_object_mut() {
        if o.get("continues") == Some(&Value::Bool(false)) {
            o.remove("continues");
        }
    }
    v
}

fn short(v: &Value) -> String {
    let s = v.to_string();
    if s.len() > 160 {
        format!("{}... ({} bytes)", &s[..160], s.len())
    } else {
        s
    }
}

fn sock_dir(tag: &str) -> PathBuf {
    let base = std::env::var("ZV_SOCK_DIR").unwrap_or_else(|_| "/verif/harness/run".into());
    let d = PathBuf::from(base).join(format!("{tag}-{}", std::process::id()));
    std::fs::create_dir_all(&d).expect("socket dir");
    d
}

const KINDS: [Kind; 3] = [Kind::TokioCurrent, Kind::Smol, Kind::TokioMulti];

type Verdict = Result<(), (String, String)>; // Err(("inconclusive", why)) | Err((signature, detail))

fn inc(e: impl Into<String>) -> (String, String) {
    ("inconclusive".into(), e.into())
}

fn settle(prop: &str, srv: Srv, outcome: Verdict, desc: &str, rep: &mut Report) {
    let replay = json!({"monitor": prop.to_lowercase(), "case": desc});
    let end = srv.finish();
    match end {
        SrvEnd::Panicked(p) => {
            if p.contains("/repo/") {
                rep.violation(&format!("{prop}/real-sockets:panic-in-server"), format!("{p}; {desc}"), replay);
            } else {
                rep.inconclusive.push(format!("the harness' server thread panicked: {p}; {desc}"));
            }
            return;
        }
        SrvEnd::Returned(e) => {
            rep.violation(&format!("{prop}/real-sockets:server-future-completed"), format!("{e}; {desc}"), replay);
            return;
        }
        SrvEnd::Fine => {}
    }
    match outcome {
        Ok(()) => rep.count("real_socket_cases_ok"),
        Err((sig, d)) if sig == "inconclusive" => rep.inconclusive.push(format!("{d}; {desc}")),
        Err((sig, d)) => rep.violation(&sig, format!("{d}; {desc}"), replay),
    }
}

// ---- C08: pipelined bursts with big answers, read late (back-pressure) -----------------------------------

#[derive(Debug, Clone)]
struct CallR {
    fail: bool,
    oneway: bool,
    size: usize,
}

fn c08_client(path: &Path, client: u32, script: &[CallR], cuts: &[usize], delay_ms: u64, half_close: bool) -> Result<u64, (String, String)> {
    let mut cli = Cli::connect(path).map_err(inc)?;
    let mut bytes = Vec::new();
    for (j, c) in script.iter().enumerate() {
        let seq = j as u32 + 1;
        let m = if c.fail { M::Fail { client, seq } } else { M::Echo { client, seq, size: c.size } };
        bytes.extend(call_bytes(&m, c.oneway, false));
    }
    // the sentinel: its answer tells the client that everything before it has been answered
    let sentinel = script.len() as u32 + 1;
    bytes.extend(call_bytes(&M::Echo { client, seq: sentinel, size: 0 }, false, false));
    for ch in vnet::chunks_at(&bytes, cuts) {
        cli.send(&ch).map_err(inc)?;
    }
    // "send everything, say so, then collect the answers": the client shuts down its sending side; the calls
    // it sent before are still owed their answers
    if half_close {
        cli.s.shutdown(std::net::Shutdown::Write).map_err(|e| inc(format!("shutdown: {e}")))?;
    }
    // only now start reading: the answers have been piling up in the socket (or the server is waiting for room)
    if delay_ms > 0 {
        std::thread::sleep(Duration::from_millis(delay_ms));
    }
    let mut expected: Vec<Value> = Vec::new();
    for (j, c) in script.iter().enumerate() {
        let seq = j as u32 + 1;
        if c.oneway {
            continue;
        }
        expected.push(if c.fail { json!({"error": "r.Failed", "parameters": {"client": client, "seq": seq}}) } else { echo_reply(client, seq, c.size) });
    }
    expected.push(echo_reply(client, sentinel, 0));
    let mut got = 0u64;
    for (k, want) in expected.iter().enumerate() {
        let f = match cli.frame(Duration::from_secs(90)) {
            Ok(f) => f,
            Err(RdErr::Timeout) => return Err(inc(format!("client {client}: answer #{k} of {} not received within 90 s ({} bytes unread)", expected.len(), cli.unread()))),
            Err(RdErr::Closed) => return Err(("C08/real-sockets:connection-closed-before-all-answers".into(), format!("client {client}: closed after {k} of {} answers", expected.len()))),
            Err(RdErr::Io(e)) => return Err(inc(format!("client {client}: read: {e}"))),
        };
        let v: Value = match serde_json::from_slice(&f) {
            Ok(v) => v,
            Err(e) => {
                return Err(("C08/real-sockets:answer-is-not-one-json-document".into(), format!("client {client}, frame #{k} ({} bytes): {e}; starts {}", f.len(), vnet::json::show(&f[..f.len().min(100)]))));
            }
        };
        if norm(v.clone()) != *want {
            let sig = if v["parameters"]["client"] != json!(client) { "C08/real-sockets:answer-of-another-client" } else { "C08/real-sockets:answers-differ-from-reference" };
            return Err((sig.into(), format!("client {client}, answer #{k}: got {}, expected {}", short(&v), short(want))));
        }
        got += 1;
    }
    // nothing may follow the sentinel's answer
    match cli.frame(Duration::from_millis(30)) {
        Err(RdErr::Timeout) => {}
        Ok(f) => return Err(("C08/real-sockets:more-answers-than-owed".into(), format!("client {client}: extra frame {}", vnet::json::show(&f[..f.len().min(100)])))),
        // a client that has shut down its sending side is done: the server may close
        Err(RdErr::Closed) if half_close => {}
        Err(RdErr::Closed) => return Err(("C08/real-sockets:healthy-connection-closed".into(), format!("client {client}: closed by the server after the last answer"))),
        Err(RdErr::Io(e)) => return Err(inc(format!("client {client}: read: {e}"))),
    }
    Ok(got)
}

fn c08_case(kind: Kind, seed: u64, dir: &Path, rep: &mut Report) {
    let mut rng = Rng::derive(seed, 808);
    let nclients = rng.range(1, 4);
    let scripts: Vec<Vec<CallR>> = (0..nclients)
        .map(|_| {
            let big = rng.chance(2, 3);
            (0..rng.range(1, 10))
                .map(|_| CallR {
                    fail: rng.chance(1, 8),
                    oneway: rng.chance(1, 8),
                    size: match rng.below(10) {
                        0 => 0,
                        1 | 2 => rng.range(1, 300),
                        3 | 4 => rng.range(300, 9000),
                        5 | 6 if big => rng.range(60_000, 140_000),
                        7 if big => rng.range(200_000, 420_000),
                        _ => rng.range(1, 3000),
                    },
                })
                .collect()
        })
        .collect();
    let desc = format!("back-pressure {} seed={} scripts={:?}", kind.name(), seed, scripts.iter().map(|s| s.iter().map(|c| format!("{}{}{}", if c.fail { "F" } else { "E" }, c.size, if c.oneway { "o" } else { "" })).collect::<Vec<_>>().join(",")).collect::<Vec<_>>());
    rep.eval(vnet::fnv(desc.as_bytes()));
    rep.count(&format!("cases.{}", kind.name()));
    let srv = match start(kind, dir, seed) {
        Ok(s) => s,
        Err(e) => {
            rep.inconclusive.push(format!("{e}; {desc}"));
            return;
        }
    };
    let path = srv.path.clone();
    let handles: Vec<_> = scripts
        .iter()
        .cloned()
        .enumerate()
        .map(|(i, sc)| {
            let path = path.clone();
            let total: usize = sc.len() * 90;
            let cuts: Vec<usize> = (0..rng.below(3)).map(|_| rng.range(1, total.max(2))).collect::<std::collections::BTreeSet<_>>().into_iter().collect();
            let delay = *rng.pick(&[0u64, 0, 1, 5, 20]);
            let half_close = rng.chance(1, 3);
            std::thread::spawn(move || c08_client(&path, i as u32, &sc, &cuts, delay, half_close))
        })
        .collect();
    let mut outcome: Verdict = Ok(());
    for h in handles {
        match h.join() {
            Ok(Ok(n)) => {
                rep.add("answers_compared", n);
                rep.evaluations += n;
            }
            Ok(Err(e)) => {
                if outcome.is_ok() || (outcome.as_ref().err().map_or(false, |x| x.0 == "inconclusive") && e.0 != "inconclusive") {
                    outcome = Err(e);
                }
            }
            Err(_) => outcome = Err(inc("client thread panicked")),
        }
    }
    let biggest = scripts.iter().flatten().map(|c| c.size).max().unwrap_or(0);
    rep.max("largest_answer_bytes", biggest as u64);
    // every call exactly once, in order per client (service log)
    if outcome.is_ok() {
        let lg = srv.log.lock().unwrap().clone();
        for (i, sc) in scripts.iter().enumerate() {
            let seen: Vec<u32> = lg.iter().filter(|l| l.m.id().0 == i as u32).map(|l| l.m.id().1).collect();
            let want: Vec<u32> = (1..=sc.len() as u32 + 1).collect();
            if seen != want {
                outcome = Err(("C08/real-sockets:service-did-not-see-each-call-exactly-once-in-order".into(), format!("client {i}: service saw {seen:?}")));
            }
        }
    }
    settle("C08", srv, outcome, &desc, rep);
}

pub fn run_c08(cfg: &Cfg) -> Report {
    let mut rep = Report::new("C08", "c08-real");
    let dir = sock_dir("sock08");
    let n = cfg.n(240, 6000);
    for k in 0..n {
        let idx = k * cfg.shards as u64 + cfg.shard as u64;
        c08_case(KINDS[(idx % 3) as usize], cfg.seed.wrapping_mul(7_368_787).wrapping_add(idx), &dir, &mut rep);
        if rep.enough() {
            break;
        }
    }
    let _ = std::fs::remove_dir_all(&dir);
    rep
}

// ---- C09: subscribers of a notified state, one of them vanishes ---------------------------------------

/// Read subscription items until `last` arrives. Ok(values seen).
fn read_until(cli: &mut Cli, last: u64, secs: u64) -> Result<Vec<u64>, (RdErr, Vec<u64>)> {
    let mut seen = Vec::new();
    let deadline = Instant::now() + Duration::from_secs(secs);
    loop {
        let left = deadline.saturating_duration_since(Instant::now());
        match cli.frame(left) {
            Ok(f) => {
                let v: Value = serde_json::from_slice(&f).map_err(|e| (RdErr::Io(format!("not JSON: {e}: {}", vnet::json::show(&f[..f.len().min(80)]))), seen.clone()))?;
                let Some(x) = v["parameters"]["v"].as_u64() else { return Err((RdErr::Io(format!("not a subscription item: {}", short(&v))), seen)) };
                if v["continues"] != json!(true) {
                    return Err((RdErr::Io(format!("subscription item not marked as continuing: {}", short(&v))), seen));
                }
                if let Some(pad) = v["parameters"]["pad"].as_str() {
                    if pad != reply_body(7, x as u32, pad.len()) {
                        return Err((RdErr::Io(format!("subscription item {x} carries a damaged body of {} bytes", pad.len())), seen));
                    }
                }
                seen.push(x);
                if x == last {
                    return Ok(seen);
                }
            }
            Err(e) => return Err((e, seen)),
        }
    }
}

fn c09_case(kind: Kind, seed: u64, dir: &Path, rep: &mut Report) {
    let mut rng = Rng::derive(seed, 909);
    // subscribers in subscription order; true = the one that vanishes
    let nsub = rng.range(2, 5);
    let nfaulty = rng.range(1, (nsub - 1).min(2));
    let mut faulty = vec![false; nsub];
    let mut idxs: Vec<usize> = (0..nsub).collect();
    rng.shuffle(&mut idxs);
    for i in idxs.iter().take(nfaulty) {
        faulty[*i] = true;
    }
    let how = rng.below(4); // 0 close, 1 half a frame then close, 2 garbage then close, 3 close with unread data
    let sets_before = rng.range(0, 2) as u64;
    let sets_after = rng.range(2, 5) as u64;
    let desc = format!("vanishing subscriber {} seed={} subscribers(faulty)={:?} how={} sets {}+{}", kind.name(), seed, faulty, how, sets_before, sets_after);
    rep.eval(vnet::fnv(desc.as_bytes()));
    rep.count(&format!("cases.{}", kind.name()));
    let srv = match start(kind, dir, seed) {
        Ok(s) => s,
        Err(e) => {
            rep.inconclusive.push(format!("{e}; {desc}"));
            return;
        }
    };
    let outcome: Verdict = (|| {
        let ctl_id = 100u32;
        let mut ctl = Cli::connect(&srv.path).map_err(inc)?;
        let mut seq = 0u32;
        let mut set = |ctl: &mut Cli, v: u64| -> Verdict {
            seq += 1;
            ctl.send(&call_bytes(&M::Set { client: ctl_id, seq, v, size: 0 }, false, false)).map_err(inc)?;
            match ctl.frame(Duration::from_secs(60)) {
                Ok(f) => {
                    let got: Value = serde_json::from_slice(&f).map_err(|e| ("C09/real-sockets:answer-is-not-one-json-document".to_string(), format!("control client: {e}")))?;
                    if norm(got.clone()) != json!({"parameters": {"client": ctl_id, "seq": seq, "body": ""}}) {
                        return Err(("C09/real-sockets:healthy-client-got-a-wrong-answer".into(), format!("control client, Set({v}): {}", short(&got))));
                    }
                    Ok(())
                }
                Err(RdErr::Timeout) => Err(inc(format!("Set({v}) not answered within 60 s"))),
                Err(RdErr::Closed) => Err(("C09/real-sockets:healthy-connection-closed".into(), format!("the control client was disconnected at Set({v})"))),
                Err(RdErr::Io(e)) => Err(inc(e)),
            }
        };
        // subscribe one after the other (the service's log orders them)
        let mut subs: Vec<Cli> = Vec::new();
        for (i, _) in faulty.iter().enumerate() {
            let mut c = Cli::connect(&srv.path).map_err(inc)?;
            c.send(&call_bytes(&M::Watch { client: i as u32, seq: 1 }, false, true)).map_err(inc)?;
            if !srv.wait_seen(i as u32, 1, 30) {
                return Err(inc(format!("subscription of client {i} did not reach the service within 30 s")));
            }
            subs.push(c);
        }
        let mut v = 0u64;
        for _ in 0..sets_before {
            v += 1;
            set(&mut ctl, v)?;
        }
        // the faulty ones vanish
        let mut healthy: Vec<(usize, Cli)> = Vec::new();
        for (i, mut c) in subs.into_iter().enumerate() {
            if faulty[i] {
                match how {
                    1 => {
                        let _ = c.send(b"{\"method\":\"r.Ech");
                    }
                    2 => {
                        let _ = c.send(b"\x01\x02garbage\0{]\0");
                    }
                    _ => {}
                }
                // how == 3: items of `sets_before` are still unread in its socket: the close resets the connection
                drop(c);
            } else {
                healthy.push((i, c));
            }
        }
        for _ in 0..sets_after {
            v += 1;
            set(&mut ctl, v)?;
        }
        let last = v;
        // every healthy subscriber converges on the last value, in order
        for (i, c) in healthy.iter_mut() {
            let res = read_until(c, last, 8);
            let seen = match res {
                Ok(seen) => seen,
                Err((RdErr::Timeout, seen)) => {
                    // is the server idle and alive? then the value is not going to come
                    let mut probe = Cli::connect(&srv.path).map_err(inc)?;
                    probe.send(&call_bytes(&M::Echo { client: 200, seq: 1, size: 3 }, false, false)).map_err(inc)?;
                    let alive = probe.frame(Duration::from_secs(20)).is_ok();
                    let late = read_until(c, last, 3);
                    if alive && late.is_err() && c.unread() == 0 {
                        return Err((
                            "C09/real-sockets:healthy-subscriber-never-got-the-latest-value-after-another-client-vanished".into(),
                            format!("subscriber {i} saw {seen:?}, the last value set is {last}; 11 s later the server answers a new client at once and nothing is waiting in the subscriber's socket"),
                        ));
                    }
                    return Err(inc(format!("subscriber {i} saw {seen:?} within 8 s, last value {last}; server alive: {alive}")));
                }
                Err((RdErr::Closed, seen)) => return Err(("C09/real-sockets:healthy-connection-closed".into(), format!("subscriber {i} was disconnected after {seen:?}"))),
                Err((RdErr::Io(e), seen)) => return Err(("C09/real-sockets:healthy-subscriber-got-a-wrong-frame".into(), format!("subscriber {i} after {seen:?}: {e}"))),
            };
            if seen.windows(2).any(|w| w[0] >= w[1]) {
                return Err(("C09/real-sockets:subscription-values-out-of-order".into(), format!("subscriber {i} saw {seen:?}")));
            }
            rep.evaluations += seen.len() as u64;
            rep.add("subscription_items_checked", seen.len() as u64);
        }
        // a newcomer is served
        let mut newc = Cli::connect(&srv.path).map_err(inc)?;
        newc.send(&call_bytes(&M::Echo { client: 300, seq: 1, size: 10 }, false, false)).map_err(inc)?;
        match newc.frame(Duration::from_secs(60)) {
            Ok(f) => {
                let got: Value = serde_json::from_slice(&f).map_err(|e| ("C09/real-sockets:answer-is-not-one-json-document".to_string(), format!("newcomer: {e}")))?;
                if norm(got.clone()) != echo_reply(300, 1, 10) {
                    return Err(("C09/real-sockets:healthy-client-got-a-wrong-answer".into(), format!("newcomer: {}", short(&got))));
                }
            }
            Err(RdErr::Timeout) => return Err(inc("a newcomer was not answered within 60 s")),
            Err(e) => return Err(("C09/real-sockets:newcomer-not-served-after-a-client-vanished".into(), format!("{e:?}"))),
        }
        Ok(())
    })();
    settle("C09", srv, outcome, &desc, rep);
}

pub fn run_c09(cfg: &Cfg) -> Report {
    let mut rep = Report::new("C09", "c09-real");
    let dir = sock_dir("sock09");
    let n = cfg.n(600, 12_000);
    for k in 0..n {
        let idx = k * cfg.shards as u64 + cfg.shard as u64;
        c09_case(KINDS[(idx % 3) as usize], cfg.seed.wrapping_mul(5_915_587).wrapping_add(idx), &dir, &mut rep);
        if rep.enough() {
            break;
        }
    }
    let _ = std::fs::remove_dir_all(&dir);
    rep
}

fn big_size(rng: &mut Rng, big: bool) -> usize {
    if big {
        rng.range(40_000, 120_000)
    } else {
        0
    }
}

// ---- C10: one-shot streams end, the connection resumes; state streams deliver in order ------------------

fn c10_case(kind: Kind, seed: u64, dir: &Path, rep: &mut Report) {
    let mut rng = Rng::derive(seed, 1010);
    let nw = rng.range(1, 3); // workers: [Echo?, Job(more), Echo behind, Echo behind]
    let nwatch = rng.range(0, 2);
    // big: the values the watchers are sent carry 40..120 KB and the watchers start reading late, so that the
    // server meets a full socket in the middle of an item
    let big = nwatch > 0 && rng.chance(1, 2);
    let desc = format!("one-shot streams {} seed={} workers={} watchers={} big_items={}", kind.name(), seed, nw, nwatch, big);
    rep.eval(vnet::fnv(desc.as_bytes()));
    rep.count(&format!("cases.{}", kind.name()));
    let srv = match start(kind, dir, seed) {
        Ok(s) => s,
        Err(e) => {
            rep.inconclusive.push(format!("{e}; {desc}"));
            return;
        }
    };
    let outcome: Verdict = (|| {
        let ctl_id = 100u32;
        let mut ctl = Cli::connect(&srv.path).map_err(inc)?;
        let mut ctl_seq = 0u32;
        struct W {
            cli: Cli,
            expected: Vec<Value>,
            job_seq: u32,
            v: u64,
        }
        let mut workers = Vec::new();
        for i in 0..nw {
            let client = i as u32;
            let mut cli = Cli::connect(&srv.path).map_err(inc)?;
            let mut bytes = Vec::new();
            let mut expected = Vec::new();
            let mut seq = 0u32;
            if rng.chance(1, 2) {
                seq += 1;
                let size = rng.range(0, 2000);
                bytes.extend(call_bytes(&M::Echo { client, seq, size }, false, false));
                expected.push(echo_reply(client, seq, size));
            }
            seq += 1;
            let job_seq = seq;
            bytes.extend(call_bytes(&M::Job { client, seq }, false, true));
            let v = 1000 + rng.below(1000) as u64;
            expected.push(json!({"parameters": {"v": v}}));
            for _ in 0..rng.range(1, 3) {
                seq += 1;
                if rng.chance(1, 4) {
                    bytes.extend(call_bytes(&M::Fail { client, seq }, false, false));
                    expected.push(json!({"error": "r.Failed", "parameters": {"client": client, "seq": seq}}));
                } else {
                    let size = rng.range(0, 70_000);
                    bytes.extend(call_bytes(&M::Echo { client, seq, size }, false, false));
                    expected.push(echo_reply(client, seq, size));
                }
            }
            // everything in one write: the calls behind the Job wait in the socket / in zlink's buffer
            cli.send(&bytes).map_err(inc)?;
            if !srv.wait_seen(client, job_seq, 30) {
                return Err(inc(format!("Job of worker {i} did not reach the service within 30 s")));
            }
            workers.push(W { cli, expected, job_seq, v });
        }
        // the watchers read on threads of their own (after a delay) until they see the last value
        const LAST: u64 = 4_000_000_000;
        let mut watchers = Vec::new();
        for j in 0..nwatch {
            let client = 50 + j as u32;
            let mut c = Cli::connect(&srv.path).map_err(inc)?;
            c.send(&call_bytes(&M::Watch { client, seq: 1 }, false, true)).map_err(inc)?;
            if !srv.wait_seen(client, 1, 30) {
                return Err(inc("a subscription did not reach the service within 30 s"));
            }
            let delay = if big { *rng.pick(&[0u64, 20, 100, 300]) } else { 0 };
            watchers.push(std::thread::spawn(move || {
                std::thread::sleep(Duration::from_millis(delay));
                read_until(&mut c, LAST, 90)
            }));
        }
        // nothing behind an open stream may have been answered yet: the service has not seen those calls
        for (i, w) in workers.iter().enumerate() {
            if srv.seen(i as u32, w.job_seq + 1) {
                return Err(("C10/real-sockets:call-behind-an-open-stream-handled-before-the-stream-ended".into(), format!("worker {i}")));
            }
        }
        // finish the jobs in random order, with state changes in between
        let mut order: Vec<usize> = (0..nw).collect();
        rng.shuffle(&mut order);
        let mut state_v = 0u64;
        for i in order {
            if nwatch > 0 && rng.chance(1, 2) {
                state_v += 1;
                ctl_seq += 1;
                ctl.send(&call_bytes(&M::Set { client: ctl_id, seq: ctl_seq, v: state_v, size: big_size(&mut rng, big) }, false, false)).map_err(inc)?;
                ctl.frame(Duration::from_secs(60)).map_err(|e| inc(format!("Set: {e:?}")))?;
            }
            ctl_seq += 1;
            ctl.send(&call_bytes(&M::Finish { client: ctl_id, seq: ctl_seq, job_client: i as u32, job_seq: workers[i].job_seq, v: workers[i].v }, false, false)).map_err(inc)?;
            ctl.frame(Duration::from_secs(60)).map_err(|e| inc(format!("Finish: {e:?}")))?;
        }
        if nwatch > 0 {
            // a few more changes in a row, then the last value
            for _ in 0..rng.range(0, 6) {
                state_v += 1;
                ctl_seq += 1;
                ctl.send(&call_bytes(&M::Set { client: ctl_id, seq: ctl_seq, v: state_v, size: big_size(&mut rng, big) }, false, false)).map_err(inc)?;
                ctl.frame(Duration::from_secs(90)).map_err(|e| inc(format!("Set: {e:?}")))?;
            }
            ctl_seq += 1;
            ctl.send(&call_bytes(&M::Set { client: ctl_id, seq: ctl_seq, v: LAST, size: big_size(&mut rng, big) }, false, false)).map_err(inc)?;
            ctl.frame(Duration::from_secs(90)).map_err(|e| inc(format!("Set: {e:?}")))?;
        }
        // every worker: answers in order, the job's single final reply, then the calls behind it
        for (i, w) in workers.iter_mut().enumerate() {
            for (k, want) in w.expected.iter().enumerate() {
                let f = match w.cli.frame(Duration::from_secs(60)) {
                    Ok(f) => f,
                    Err(RdErr::Timeout) => return Err(inc(format!("worker {i}: answer #{k} not received within 60 s"))),
                    Err(e) => return Err(("C10/real-sockets:connection-lost-after-its-stream-ended".into(), format!("worker {i}, answer #{k}: {e:?}"))),
                };
                let v: Value = serde_json::from_slice(&f).map_err(|e| ("C10/real-sockets:answer-is-not-one-json-document".to_string(), format!("worker {i} frame #{k}: {e}")))?;
                if norm(v.clone()) != *want {
                    return Err(("C10/real-sockets:answers-differ-from-reference".into(), format!("worker {i}, answer #{k}: got {}, expected {}", short(&v), short(want))));
                }
                rep.evaluations += 1;
            }
            rep.add("answers_compared", w.expected.len() as u64);
            match w.cli.frame(Duration::from_millis(20)) {
                Err(RdErr::Timeout) => {}
                Ok(f) => return Err(("C10/real-sockets:more-answers-than-owed".into(), format!("worker {i}: extra frame {}", vnet::json::show(&f[..f.len().min(100)])))),
                Err(e) => return Err(("C10/real-sockets:connection-lost-after-its-stream-ended".into(), format!("worker {i}: {e:?}"))),
            }
        }
        for (j, w) in watchers.into_iter().enumerate() {
            match w.join().map_err(|_| inc("watcher thread panicked"))? {
                Ok(seen) => {
                    if seen.windows(2).any(|w| w[0] >= w[1]) {
                        return Err(("C10/real-sockets:subscription-values-out-of-order".into(), format!("watcher {j} saw {seen:?}")));
                    }
                    rep.add("subscription_items_checked", seen.len() as u64);
                }
                Err((RdErr::Timeout, seen)) => return Err(inc(format!("watcher {j} saw {seen:?} within 90 s and not the last value"))),
                Err((e, seen)) => return Err(("C10/real-sockets:subscription-broken".into(), format!("watcher {j} after {seen:?}: {e:?}"))),
            }
        }
        Ok(())
    })();
    settle("C10", srv, outcome, &desc, rep);
}

pub fn run_c10(cfg: &Cfg) -> Report {
    let mut rep = Report::new("C10", "c10-real");
    let dir = sock_dir("sock10");
    let n = cfg.n(600, 12_000);
    for k in 0..n {
        let idx = k * cfg.shards as u64 + cfg.shard as u64;
        c10_case(KINDS[(idx % 3) as usize], cfg.seed.wrapping_mul(3_141_593).wrapping_add(idx), &dir, &mut rep);
        if rep.enough() {
            break;
        }
    }
    let _ = std::fs::remove_dir_all(&dir);
    rep
}

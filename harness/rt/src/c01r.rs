//! C01 on real sockets and runtimes: a peer writes a sequence of frames into a Unix socket and closes it (or
//! shuts down its sending side); the zlink connection at the other end (tokio / smol transport) must return
//! exactly one result per frame, in order, and only then end-of-stream — also when the peer is already gone
//! by the time the reader starts, and when the last frame and the hang-up arrive together.
//!
//! The writer is a plain blocking `UnixStream` on its own thread. Whether the reader starts before or after
//! the close is forced by joining the writer thread first (totals below the kernel socket buffer), not by
//! timing. Verdicts come from the sequence of receive results only.

use crate::c19::{body, run_on, with_deadline, Kind, Msg};
use crate::cfg::Cfg;
use serde_json::json;
use std::{borrow::Cow, io::Write, os::unix::net::UnixStream, time::Duration};
use vnet::{Report, Rng};
use zlink_core::{connection::socket::Socket, Call, Connection};

#[derive(Debug, Clone)]
enum Fr {
    /// a valid call (id, body length)
    Good(u64, usize),
    /// bytes that are not a call of the requested shape
    Bad(Vec<u8>),
}

fn frame_bytes(f: &Fr) -> Vec<u8> {
    let mut b = match f {
        Fr::Good(id, len) => {
            let bd = body(5, *id, *len);
            serde_json::to_vec(&Call::new(Msg::Data { id: *id, dir: 5, len: *len, body: Cow::Borrowed(&bd) })).unwrap()
        }
        Fr::Bad(b) => b.clone(),
    };
    b.push(0);
    b
}

async fn read_side<S: Socket>(kind: Kind, mut c: Connection<S>, frames: &[Fr], reset_expected: bool) -> Result<u64, (String, String)> {
    let n = frames.len();
    for (j, f) in frames.iter().enumerate() {
        let r = match with_deadline(kind, Duration::from_secs(60), c.receive_call::<Msg<'_>>()).await {
            Some(r) => r,
            None => return Err(("inconclusive".into(), format!("receive #{j} of {n} did not return within 60 s"))),
        };
        match (f, r) {
            (_, Err(zlink_core::Error::UnexpectedEof)) => {
                return Err(("C01/real-sockets:end-of-stream-reported-before-all-frames-were-delivered".into(), format!("receive #{j} of {n} reported end-of-stream; the peer had written all {n} frames before it closed")));
            }
            (Fr::Good(id, len), Ok(call)) => {
                let Msg::Data { id: gid, dir, len: glen, body: gb } = call.method();
                if gid != id || *dir != 5 || glen != len || **gb != *body(5, *id, *len) {
                    return Err(("C01/real-sockets:frame-result-differs-from-reference".into(), format!("receive #{j}: expected message {id} (len {len}), got id {gid} dir {dir} len {glen}")));
                }
            }
            (Fr::Good(id, len), Err(e)) => {
                return Err(("C01/real-sockets:frame-result-differs-from-reference".into(), format!("receive #{j}: expected message {id} (len {len}), got error {e:?}")));
            }
            (Fr::Bad(_), Err(_)) => {}
            (Fr::Bad(b), Ok(call)) => {
                return Err(("C01/real-sockets:frame-result-differs-from-reference".into(), format!("receive #{j}: frame {} must fail to decode, got {:?}", vnet::json::show(&b[..b.len().min(60)]), call.method())));
            }
        }
    }
    match with_deadline(kind, Duration::from_secs(60), c.receive_call::<Msg<'_>>()).await {
        Some(Err(zlink_core::Error::UnexpectedEof)) => Ok(n as u64 + 1),
        // the peer hung up with something of ours unread: the kernel reports a reset - after every frame it had sent
        Some(Err(_)) if reset_expected => Ok(n as u64 + 1),
        // a reset instead of an orderly end can only happen if the reader left something unread; it did not
        Some(Err(e)) => Err(("C01/real-sockets:no-end-of-stream-after-the-last-frame".into(), format!("receive #{n} (after the last frame): {e:?}"))),
        Some(Ok(call)) => Err(("C01/real-sockets:message-fabricated-after-the-last-frame".into(), format!("{:?}", call.method()))),
        None => Err(("inconclusive".into(), "end-of-stream not reported within 60 s".into())),
    }
}

fn one_case(kind: Kind, seed: u64, rep: &mut Report) {
    let mut rng = Rng::derive(seed, 101);
    // after_close: the reader's first receive starts only when the writer has written everything and closed
    let after_close = rng.chance(1, 2);
    let cap = if after_close { 90_000 } else { 1_500_000 };
    let nfr = rng.range(1, 24);
    let mut frames = Vec::new();
    let mut total = 0usize;
    for id in 0..nfr {
        let f = if rng.chance(1, 7) {
            Fr::Bad(rng.pick(&[&b"{\"method\":\"x.Nope\"}"[..], b"{]", b"[1,2,3]", b"{\"method\":\"x.Data\",\"parameters\":{\"id\":\"seven\"}}", b"nul", b" {} "]).to_vec())
        } else {
            let len = match rng.below(8) {
                0 => 0,
                1 | 2 => rng.range(1, 200),
                3 => *rng.pick(&[150usize, 190, 200, 254, 255, 256, 257, 420, 448, 449]),
                4 => rng.range(200, 5000),
                5 => rng.range(5000, 70_000),
                6 if !after_close => rng.range(100_000, 600_000),
                _ => rng.range(1, 1000),
            };
            Fr::Good(id as u64, len)
        };
        let l = frame_bytes(&f).len();
        if total + l > cap {
            break;
        }
        total += l;
        frames.push(f);
    }
    if frames.is_empty() {
        frames.push(Fr::Good(0, 5));
    }
    let half_close = rng.chance(1, 3);
    // the peer hangs up while a message of ours lies unread in its socket: the kernel then reports a connection reset
    // to us instead of an orderly end - but only after everything the peer had sent has been delivered
    let unread = !half_close && rng.chance(1, 3);
    // the reader is parked on the empty socket when the peer writes everything and hangs up in one go
    let parked = !after_close && rng.chance(1, 2);
    let pieces = rng.below(4);
    let desc = format!("peer closes {} seed={} frames={} bytes={} reader_starts_after_close={} reader_parked_when_the_peer_writes_and_hangs_up={} shutdown_only={} pieces={} peer_leaves_a_message_of_ours_unread={unread}", kind.name(), seed, frames.len(), total, after_close, parked, half_close, pieces);
    rep.eval(vnet::fnv(desc.as_bytes()));
    rep.count(&format!("real_socket_cases.{}", kind.name()));
    if after_close {
        rep.count("real_socket_cases_reader_starts_after_the_peer_closed");
    }
    if unread {
        rep.count("real_socket_cases_peer_hangs_up_with_a_message_of_ours_unread");
    }
    let replay = json!({"monitor": "c01", "case": desc});
    let stream: Vec<u8> = frames.iter().flat_map(frame_bytes).collect();
    let cuts: Vec<usize> = {
        let mut c: Vec<usize> = (0..pieces).map(|_| rng.range(1, stream.len().max(2) - 1)).collect();
        c.sort_unstable();
        c.dedup();
        c
    };
    let res: Result<u64, (String, String)> = run_on(kind, async {
        let inc = |e: std::io::Error| ("inconclusive".to_string(), e.to_string());
        let (sa, sb) = UnixStream::pair().map_err(inc)?;
        sa.set_nonblocking(true).map_err(inc)?;
        if unread {
            (&sa).write_all(b"{\"method\":\"x.NeverRead\",\"oneway\":true}\0").map_err(inc)?;
        }
        let chunks = vnet::chunks_at(&stream, &cuts);
        let writer = std::thread::spawn(move || -> std::io::Result<Option<UnixStream>> {
            let mut sb = sb;
            if parked {
                std::thread::sleep(Duration::from_millis(3));
                let all: Vec<u8> = chunks.concat();
                sb.write_all(&all)?;
            } else {
                for ch in chunks {
                    sb.write_all(&ch)?;
                }
            }
            if half_close {
                sb.shutdown(std::net::Shutdown::Write)?;
                Ok(Some(sb)) // stays open for reading until the case is over
            } else {
                drop(sb);
                Ok(None)
            }
        });
        let mut keep = None;
        let mut writer = Some(writer);
        if after_close {
            keep = writer.take().unwrap().join().map_err(|_| ("inconclusive".to_string(), "writer thread panicked".to_string()))?.map_err(inc)?;
        }
        let r = match kind {
            Kind::Smol => {
                let a = smol::Async::new(sa).map_err(inc)?;
                read_side(kind, Connection::new(zlink_smol::unix::Stream::from(a)), &frames, unread).await
            }
            _ => {
                let a = tokio::net::UnixStream::from_std(sa).map_err(inc)?;
                read_side(kind, Connection::new(zlink_tokio::unix::Stream::from(a)), &frames, unread).await
            }
        };
        if let Some(w) = writer {
            // the reader is done (or gave up): the writer cannot be blocked any more once the reading end is dropped
            keep = w.join().ok().and_then(|r| r.ok()).flatten();
        }
        drop(keep);
        r
    });
    match res {
        Ok(n) => {
            rep.evaluations += n;
            rep.add("real_socket_receive_results_compared", n);
        }
        Err((sig, d)) if sig == "inconclusive" => rep.inconclusive.push(format!("{d}; {desc}")),
        Err((sig, d)) => rep.violation(&sig, format!("{d}; {desc}"), replay),
    }
}

pub fn run(cfg: &Cfg) -> Report {
    let mut rep = Report::new("C01", "c01-real");
    let kinds = [Kind::TokioCurrent, Kind::Smol, Kind::TokioMulti];
    let n = cfg.n(2400, 60_000);
    for k in 0..n {
        let idx = k * cfg.shards as u64 + cfg.shard as u64;
        one_case(kinds[(idx % 3) as usize], cfg.seed.wrapping_mul(1_299_709).wrapping_add(idx), &mut rep);
        if rep.enough() {
            break;
        }
    }
    rep
}

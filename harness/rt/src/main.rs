//! `rt <monitor> [options]` — monitors that need the runtime crates (zlink-tokio, zlink-smol):
//! C20 (notified state, deterministic poll schedules) and C19 (real Unix sockets).
//! Same command line and report format as `zv`.

#[path = "../../zv/src/cfg.rs"]
mod cfg;
mod c20;
mod c20t;
mod c19;
mod c18;
mod c01r;
mod rsrv;
#[path = "../../zv/src/vals.rs"]
mod vals;
mod wire;
mod cli;

use cfg::Cfg;

fn main() {
    let args: Vec<String> = std::env::args().collect();
    if args.len() < 2 {
        eprintln!("usage: rt <monitor> [options]");
        std::process::exit(2);
    }
    let cfg = Cfg::parse(&args[2..]);
    // panics are caught and reported by the monitors; keep stderr small
    vnet::install_quiet_panic_hook();
    let name = args[1].as_str();
    if name == "noop" {
        return;
    }
    let report = match vnet::catch(|| match name {
        "c20" => c20::run(&cfg),
        "c20t" => c20t::run(&cfg),
        "c19" => c19::run(&cfg),
        "c18" => c18::run(&cfg),
        "c01" => c01r::run(&cfg),
        "c02" => wire::run("C02", &cfg),
        "c03" => wire::run("C03", &cfg),
        "c06" => cli::run("C06", &cfg),
        "c07" => c19::run_c07(&cfg),
        "c08" => rsrv::run_c08(&cfg),
        "c09" => rsrv::run_c09(&cfg),
        "c10" => rsrv::run_c10(&cfg),
        _ => {
            eprintln!("unknown monitor {name}");
            std::process::exit(2);
        }
    }) {
        Ok(r) => r,
        Err(msg) => {
            let prop = name.to_uppercase();
            let mut r = vnet::Report::new(&prop, name);
            if msg.contains("[at /repo/") {
                r.evaluations = 1;
                r.distinct.insert(1);
                r.violation(&format!("{prop}/panic-in-zlink-escaped-the-monitor"), msg, serde_json::json!({"monitor": name}));
            } else {
                r.inconclusive.push(format!("the monitor itself panicked: {msg}"));
            }
            r
        }
    };
    let js = serde_json::to_string(&report.to_json()).unwrap();
    match &cfg.out {
        Some(p) => std::fs::write(p, js).expect("write report"),
        None => println!("{js}"),
    }
}

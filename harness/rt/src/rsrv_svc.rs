// Included twice (see rsrv.rs): once with `nt` = zlink_tokio::notified, once with `nt` = zlink_smol::notified.
// The test service of the real-socket server world.

use super::{Logged, Rep, SharedLog, Val, E, M};
use std::collections::HashMap;
use zlink_core::{service::MethodReply, Call, Service};

pub struct Svc {
    pub log: SharedLog,
    pub state: nt::State<Val, Val>,
    pub jobs: HashMap<(u32, u32), nt::Once<Val>>,
    pub scratch: String,
}

impl Svc {
    pub fn new(log: SharedLog) -> Self {
        Svc { log, state: nt::State::new(Val { v: 0, pad: String::new() }), jobs: HashMap::new(), scratch: String::new() }
    }
}

impl Service for Svc {
    type MethodCall<'de> = M;
    type ReplyParams<'ser> = Rep<'ser>;
    type ReplyStreamParams = Val;
    type ReplyStream = nt::Stream<Val>;
    type ReplyError<'ser> = E;

    async fn handle<'ser>(&'ser mut self, call: Call<Self::MethodCall<'_>>) -> MethodReply<Self::ReplyParams<'ser>, Self::ReplyStream, Self::ReplyError<'ser>> {
        let m = call.method().clone();
        self.log.lock().unwrap().push(Logged { m: m.clone(), oneway: call.oneway() });
        match m {
            M::Echo { client, seq, size } => {
                self.scratch = super::reply_body(client, seq, size);
                MethodReply::Single(Some(Rep { client, seq, body: &self.scratch }))
            }
            M::Fail { client, seq } => MethodReply::Error(E::Failed { client, seq }),
            M::Set { client, seq, v, size } => {
                self.state.set(Val { v, pad: super::reply_body(7, v as u32, size) }).await;
                MethodReply::Single(Some(Rep { client, seq, body: "" }))
            }
            M::Watch { .. } => MethodReply::Multi(self.state.stream()),
            M::Job { client, seq } => {
                let (once, stream) = nt::Once::new();
                self.jobs.insert((client, seq), once);
                MethodReply::Multi(stream)
            }
            M::Finish { client, seq, job_client, job_seq, v } => {
                if let Some(once) = self.jobs.remove(&(job_client, job_seq)) {
                    once.notify(Val { v, pad: String::new() });
                }
                MethodReply::Single(Some(Rep { client, seq, body: "" }))
            }
        }
    }
}

//! The client side on real sockets and runtimes (C06; the item-holding mode written for C11 is not registered as a
//! check, see DESIGN.md 6.1 "consequences for the oracles": read boundaries cannot be controlled on a real socket): a chain of calls sent through a zlink connection
//! over the tokio / smol transport to a peer that is a plain blocking `UnixStream` on its own thread and
//! plays a scripted service — it reads the calls off the socket, then writes the scripted replies in pieces.
//!
//! C06: the calls reach the peer byte for byte in chain order; the reply stream yields exactly the owed
//! replies, then ends; frames of a later exchange are still there afterwards.
//! C11: the peer writes the whole burst *before* the client asks for the first item (the client waits for the
//! writer thread, so this is ordered, not timed); every item handed out is kept and re-read after each further
//! item. (Replies that arrive in later reads while items are held are the known finding of C11 and are left to
//! the virtual transport, where the read boundaries are under control.)

use crate::c19::{run_on, with_deadline, Kind};
use crate::cfg::Cfg;
use futures_util::StreamExt;
use serde::{Deserialize, Serialize};
use serde_json::json;
use std::{
    io::{Read, Write},
    os::unix::net::UnixStream,
    time::Duration,
};
use vnet::{Report, Rng};
use zlink_core::{connection::socket::Socket, Call, Connection, ReplyError};

#[derive(Debug, Serialize, Deserialize, PartialEq, Clone)]
#[serde(tag = "method", content = "parameters")]
enum MC {
    #[serde(rename = "c.Do")]
    Do {
        tag: u32,
        #[serde(default, skip_serializing_if = "String::is_empty")]
        pad: String,
    },
}

#[derive(Debug, Deserialize, PartialEq)]
struct BTag<'a> {
    tag: u32,
    #[serde(borrow)]
    text: std::borrow::Cow<'a, str>,
}

#[derive(Debug, ReplyError, PartialEq)]
#[zlink(interface = "c", crate = "zlink_core")]
enum EBC<'a> {
    Fail { tag: u32, why: &'a str },
}

#[derive(Debug, Clone, Copy, PartialEq)]
enum K {
    Plain,
    Oneway,
    More,
}

#[derive(Debug, Clone)]
struct Rep {
    tag: u32,
    is_error: bool,
    continues: Option<bool>,
    len: usize,
}

fn text_of(tag: u32, len: usize) -> String {
    let mut r = Rng::derive(0xC06, tag as u64);
    let mut s = format!("t{tag}-");
    while s.len() < len {
        s.push((b'a' + r.below(26) as u8) as char);
    }
    s
}

impl Rep {
    fn bytes(&self) -> Vec<u8> {
        let t = text_of(self.tag, self.len);
        let mut v = if self.is_error {
            format!("{{\"error\":\"c.Fail\",\"parameters\":{{\"tag\":{},\"why\":\"{t}\"}}}}", self.tag)
        } else {
            let c = match self.continues {
                None => String::new(),
                Some(b) => format!(",\"continues\":{b}"),
            };
            format!("{{\"parameters\":{{\"tag\":{},\"text\":\"{t}\"}}{c}}}", self.tag)
        }
        .into_bytes();
        v.push(0);
        v
    }
    fn canon(&self) -> String {
        if self.is_error {
            format!("error:{}:{}", self.tag, text_of(self.tag, self.len))
        } else {
            format!("reply:{}:{}:{:?}", self.tag, text_of(self.tag, self.len), self.continues)
        }
    }
}

fn canon_item(r: &zlink_core::Result<zlink_core::reply::Result<BTag<'_>, EBC<'_>>>) -> String {
    match r {
        Ok(Ok(rep)) => match rep.parameters() {
            Some(p) => format!("reply:{}:{}:{:?}", p.tag, p.text, rep.continues()),
            None => format!("reply:none:{:?}", rep.continues()),
        },
        Ok(Err(EBC::Fail { tag, why })) => format!("error:{tag}:{why}"),
        Err(e) => format!("failure:{e:?}"),
    }
}

fn call_for(k: K, tag: u32, pad: usize) -> Call<MC> {
    let c = Call::new(MC::Do { tag, pad: if pad == 0 { String::new() } else { text_of(tag ^ 0xABCDE, pad) } });
    match k {
        K::Plain => c,
        K::Oneway => c.set_oneway(true),
        K::More => c.set_more(true),
    }
}

struct Case {
    kinds: Vec<K>,
    replies: Vec<Rep>,
    trailing: Vec<Rep>,
    cuts: Vec<usize>,
    preload: bool,
    hold: bool,
    seed: u64,
    /// bytes of padding in every call of the chain (0 = small calls); big chains exceed what the kernel takes in
    /// one write
    pad: usize,
    /// oneway calls sent one by one before the chain (a connection that has been written to before)
    warm: usize,
}

struct Out {
    items: Vec<String>,
    ended: bool,
    leftovers: Vec<String>,
    damaged: Option<String>,
}

async fn client<S: Socket>(kind: Kind, mut conn: Connection<S>, case: &Case, go: std::sync::mpsc::Receiver<()>) -> Result<Out, (String, String)> {
    let inc = |e: String| ("inconclusive".to_string(), e);
    let mut out = Out { items: Vec::new(), ended: false, leftovers: Vec::new(), damaged: None };
    for w in 0..case.warm {
        match with_deadline(kind, Duration::from_secs(60), conn.send_call(&call_for(K::Oneway, 7000 + w as u32, 0))).await {
            Some(Ok(())) => {}
            Some(Err(e)) => return Err(inc(format!("warm-up send: {e:?}"))),
            None => return Err(inc("warm-up send did not finish within 60 s".into())),
        }
        if w == 0 {
            crate::c19::sleep(kind, Duration::from_micros(300)).await;
        }
    }
    {
        let mut chain = conn.chain_call::<MC, BTag<'_>, EBC<'_>>(&call_for(case.kinds[0], 0, case.pad)).map_err(|e| inc(format!("enqueue: {e:?}")))?;
        for (i, k) in case.kinds.iter().enumerate().skip(1) {
            chain = chain.append(&call_for(*k, i as u32, case.pad)).map_err(|e| inc(format!("enqueue: {e:?}")))?;
        }
        let stream = match with_deadline(kind, Duration::from_secs(60), chain.send()).await {
            Some(Ok(s)) => s,
            Some(Err(e)) => return Err(inc(format!("send: {e:?}"))),
            None => return Err(inc("send did not finish within 60 s".into())),
        };
        if case.preload {
            // the peer has written the whole burst by the time this returns
            let t0 = std::time::Instant::now();
            while go.try_recv().is_err() {
                if t0.elapsed() > Duration::from_secs(60) {
                    return Err(inc("the peer did not finish writing within 60 s".into()));
                }
                crate::c19::sleep(kind, Duration::from_micros(200)).await;
            }
        }
        let mut stream = core::pin::pin!(stream);
        // every item handed out stays alive here; the texts are re-read after every further item
        let mut held: Vec<(zlink_core::reply::Result<BTag<'_>, EBC<'_>>, String)> = Vec::new();
        loop {
            let item = match with_deadline(kind, Duration::from_secs(60), stream.next()).await {
                Some(x) => x,
                None => return Err(inc(format!("the reply stream did not answer within 60 s after {} items", out.items.len()))),
            };
            match item {
                None => {
                    out.ended = true;
                }
                Some(r) => {
                    out.items.push(canon_item(&r));
                    if let (true, Ok(it)) = (case.hold, r) {
                        let text = match &it {
                            Ok(rep) => rep.parameters().map(|p| p.text.to_string()).unwrap_or_default(),
                            Err(EBC::Fail { why, .. }) => why.to_string(),
                        };
                        held.push((it, text));
                    }
                }
            }
            for (i, (it, copy)) in held.iter().enumerate() {
                let now: &str = match it {
                    Ok(rep) => rep.parameters().map(|p| &*p.text).unwrap_or(""),
                    Err(EBC::Fail { why, .. }) => why,
                };
                if now.as_bytes() != copy.as_bytes() && out.damaged.is_none() {
                    let mut tmp = [0u8; 48];
                    let k = now.len().min(48);
                    tmp[..k].copy_from_slice(&now.as_bytes()[..k]);
                    out.damaged = Some(format!("item {i} reads {:?} now, was {:?} when handed out; {} items obtained since", vnet::json::show(&tmp[..k]), &copy[..copy.len().min(48)], out.items.len() - 1 - i));
                }
            }
            if out.ended || out.items.len() > case.replies.len() + 2 || out.damaged.is_some() {
                break;
            }
        }
    }
    if out.damaged.is_none() {
        for _ in 0..case.trailing.len() {
            match with_deadline(kind, Duration::from_secs(60), conn.receive_reply::<BTag<'_>, EBC<'_>>()).await {
                Some(r) => out.leftovers.push(canon_item(&r)),
                None => return Err(inc("a frame of the later exchange did not arrive within 60 s".into())),
            }
        }
    }
    Ok(out)
}

fn one_case(prop: &str, kind: Kind, case: Case, rep: &mut Report) {
    let desc = format!(
        "client world {} seed={} chain={:?} owed={} trailing={} pieces={} burst_written_before_first_item={} items_held={} call_padding={} sends_before_the_chain={}",
        kind.name(), case.seed, case.kinds, case.replies.len(), case.trailing.len(), case.cuts.len() + 1, case.preload, case.hold, case.pad, case.warm
    );
    if case.pad > 0 {
        rep.count("real_socket_big_chains");
        rep.max("real_socket_max_bytes_of_one_chain", (case.pad * case.kinds.len()) as u64);
    }
    if case.warm > 0 {
        rep.count("real_socket_chains_on_a_connection_written_to_before");
    }
    rep.eval(vnet::fnv(desc.as_bytes()));
    rep.count(&format!("real_socket_cases.{}", kind.name()));
    let replay = json!({"monitor": prop.to_lowercase(), "case": desc});
    let mut expect_calls: Vec<u8> = Vec::new();
    for w in 0..case.warm {
        expect_calls.extend(serde_json::to_vec(&call_for(K::Oneway, 7000 + w as u32, 0)).unwrap());
        expect_calls.push(0);
    }
    for (i, k) in case.kinds.iter().enumerate() {
        expect_calls.extend(serde_json::to_vec(&call_for(*k, i as u32, case.pad)).unwrap());
        expect_calls.push(0);
    }
    let ncalls = case.kinds.len() + case.warm;
    let burst: Vec<u8> = case.replies.iter().chain(case.trailing.iter()).flat_map(|r| r.bytes()).collect();
    let chunks = vnet::chunks_at(&burst, &case.cuts);
    let preload = case.preload;
    let seed = case.seed;
    let res: Result<(Out, Vec<u8>), (String, String)> = run_on(kind, async {
        let inc = |e: std::io::Error| ("inconclusive".to_string(), e.to_string());
        let (sa, sb) = UnixStream::pair().map_err(inc)?;
        sa.set_nonblocking(true).map_err(inc)?;
        let (tx, rx) = std::sync::mpsc::channel();
        let peer = std::thread::spawn(move || -> Result<(Vec<u8>, UnixStream), String> {
            let mut sb = sb;
            let mut r = Rng::derive(seed, 66);
            let write_all = |sb: &mut UnixStream, r: &mut Rng| -> Result<(), String> {
                for ch in &chunks {
                    sb.write_all(ch).map_err(|e| format!("peer write: {e}"))?;
                    if !preload && r.chance(2, 3) {
                        std::thread::sleep(Duration::from_micros(*r.pick(&[10u64, 50, 200, 1000])));
                    }
                }
                Ok(())
            };
            if preload {
                write_all(&mut sb, &mut r)?;
                let _ = tx.send(());
            }
            // the calls
            let mut calls = Vec::new();
            sb.set_read_timeout(Some(Duration::from_secs(60))).ok();
            let mut buf = [0u8; 4096];
            let mut seen = 0usize;
            while seen < ncalls {
                match sb.read(&mut buf) {
                    Ok(0) => break,
                    Ok(n) => {
                        seen += buf[..n].iter().filter(|b| **b == 0).count();
                        calls.extend_from_slice(&buf[..n]);
                        // a peer that is slow to take a big chain: the client meets a full socket
                        if calls.len() > 60_000 && r.chance(1, 40) {
                            std::thread::sleep(Duration::from_micros(300));
                        }
                    }
                    Err(e) => return Err(format!("peer read: {e}")),
                }
            }
            if !preload {
                write_all(&mut sb, &mut r)?;
            }
            Ok((calls, sb))
        });
        let out = match kind {
            Kind::Smol => client(kind, Connection::new(zlink_smol::unix::Stream::from(smol::Async::new(sa).map_err(inc)?)), &case, rx).await,
            _ => client(kind, Connection::new(zlink_tokio::unix::Stream::from(tokio::net::UnixStream::from_std(sa).map_err(inc)?)), &case, rx).await,
        };
        let (calls, _keep) = peer.join().map_err(|_| ("inconclusive".to_string(), "peer thread panicked".to_string()))?.map_err(|e| ("inconclusive".to_string(), e))?;
        Ok((out?, calls))
    });
    let (out, calls) = match res {
        Err((sig, d)) if sig == "inconclusive" => {
            rep.inconclusive.push(format!("{d}; {desc}"));
            return;
        }
        Err((sig, d)) => {
            rep.violation(&sig, format!("{d}; {desc}"), replay);
            return;
        }
        Ok(x) => x,
    };
    if let Some(d) = &out.damaged {
        rep.violation(&format!("{prop}/real-sockets:item-changed-although-the-whole-burst-was-in-the-socket-before-the-first-item"), format!("{d}; {desc}"), replay);
        return;
    }
    if calls != expect_calls {
        rep.violation(&format!("{prop}/real-sockets:calls-at-the-peer-differ-from-the-chain"), format!("peer read {}, expected {}; {desc}", vnet::json::show(&calls[..calls.len().min(300)]), vnet::json::show(&expect_calls[..expect_calls.len().min(300)])), replay);
        return;
    }
    let want: Vec<String> = case.replies.iter().map(|r| r.canon()).collect();
    if out.items != want || !out.ended {
        rep.violation(&format!("{prop}/real-sockets:stream-items-differ-from-owed-replies"), format!("yielded {:?} ended={}, owed {:?}; {desc}", out.items.iter().map(|s| &s[..s.len().min(40)]).collect::<Vec<_>>(), out.ended, want.iter().map(|s| &s[..s.len().min(40)]).collect::<Vec<_>>()), replay);
        return;
    }
    let want_left: Vec<String> = case.trailing.iter().map(|r| r.canon()).collect();
    if out.leftovers != want_left {
        rep.violation(&format!("{prop}/real-sockets:frames-of-a-later-exchange-not-intact-after-the-stream"), format!("later receives {:?}, expected {:?}; {desc}", out.leftovers.iter().map(|s| &s[..s.len().min(40)]).collect::<Vec<_>>(), want_left.iter().map(|s| &s[..s.len().min(40)]).collect::<Vec<_>>()), replay);
        return;
    }
    rep.evaluations += out.items.len() as u64 + out.leftovers.len() as u64;
    rep.add("real_socket_items_compared", out.items.len() as u64);
    rep.count("real_socket_cases_ok");
}

fn gen_case(rng: &mut Rng, hold: bool, seed: u64) -> Case {
    let n = rng.range(1, 5);
    let mut kinds: Vec<K> = (0..n).map(|_| *rng.pick(&[K::Plain, K::Plain, K::Oneway, K::More])).collect();
    if hold && kinds.iter().all(|k| *k == K::Oneway) {
        kinds[0] = K::More;
    }
    let len = |rng: &mut Rng| if rng.chance(1, 4) { *rng.pick(&[100usize, 200, 300, 700, 2000, 9000]) } else { rng.range(4, 40) };
    let mut replies = Vec::new();
    for (i, k) in kinds.iter().enumerate() {
        let tag = 1000 * (i as u32 + 1);
        match k {
            K::Oneway => {}
            K::Plain => replies.push(Rep { tag, is_error: rng.chance(1, 5), continues: *rng.pick(&[None, None, Some(false)]), len: len(rng) }),
            K::More => {
                let m = if rng.chance(1, 6) { rng.range(20, 140) } else { rng.below(5) };
                for j in 0..m {
                    replies.push(Rep { tag: tag + 1 + j as u32, is_error: false, continues: Some(true), len: len(rng) });
                }
                let e = rng.below(3);
                replies.push(Rep { tag: tag + 999, is_error: e == 0, continues: if e == 1 { Some(false) } else { None }, len: len(rng) });
            }
        }
    }
    // the burst of a holding case must not hand out items before it has been read completely: no reply may end
    // where the growing receive buffer (256-byte steps) is exactly full
    if hold {
        for _ in 0..60 {
            let mut end = 0usize;
            let mut aligned = false;
            for (k, r) in replies.iter().enumerate() {
                end += r.bytes().len();
                if end % 256 == 0 && k + 1 < replies.len() {
                    aligned = true;
                }
            }
            if !aligned {
                break;
            }
            let k = rng.below(replies.len());
            replies[k].len += rng.range(1, 90);
        }
    }
    let trailing: Vec<Rep> = if hold { Vec::new() } else { (0..rng.below(3)).map(|j| Rep { tag: 9000 + j as u32, is_error: rng.chance(1, 3), continues: *rng.pick(&[None, Some(false), Some(true)]), len: rng.range(4, 30) }).collect() };
    let total: usize = replies.iter().chain(trailing.iter()).map(|r| r.bytes().len()).sum();
    let preload = (hold || rng.chance(1, 3)) && total <= 150_000;
    let cuts: Vec<usize> = if preload || total < 3 {
        Vec::new()
    } else {
        let mut c: Vec<usize> = (0..rng.below(8)).map(|_| rng.range(1, total - 1)).collect();
        c.sort_unstable();
        c.dedup();
        c
    };
    let pad = if !hold && rng.chance(1, 6) { *rng.pick(&[30_000usize, 70_000, 120_000, 260_000]) + rng.below(500) } else { 0 };
    let warm = if !hold && rng.chance(1, 2) { rng.range(1, 3) } else { 0 };
    Case { kinds, replies, trailing, cuts, preload, hold, seed, pad, warm }
}

pub fn run(prop: &str, cfg: &Cfg) -> Report {
    let hold = prop == "C11";
    let mut rep = Report::new(prop, &format!("{}-real", prop.to_lowercase()));
    let kinds = [Kind::TokioCurrent, Kind::Smol, Kind::TokioMulti];
    let heavy = cfg.layer == "asan";
    let n = cfg.n(if heavy { 1600 } else { 8000 }, if heavy { 16_000 } else { 200_000 });
    for k in 0..n {
        let idx = k * cfg.shards as u64 + cfg.shard as u64;
        let seed = cfg.seed.wrapping_mul(86_028_121).wrapping_add(idx) ^ if hold { 0x11 << 48 } else { 0 };
        let mut rng = Rng::derive(seed, 6);
        let case = gen_case(&mut rng, hold, seed);
        // a holding case only makes sense if the socket can take the whole burst at once
        if hold && case.replies.iter().map(|r| r.bytes().len()).sum::<usize>() > 150_000 {
            continue;
        }
        one_case(prop, kinds[(idx % 3) as usize], case, &mut rep);
        if rep.enough() {
            break;
        }
    }
    rep
}

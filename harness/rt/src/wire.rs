//! C02 / C03 on real sockets and runtimes: what a raw peer reads from the kernel must be exactly the
//! concatenation of `serde_json::to_vec(message) + NUL` of the accepted messages, in submission order —
//! through the tokio and smol transports, for messages and pipelines larger than the kernel socket buffer
//! and with a peer that starts reading late (partial kernel writes, writability waits).
//!
//! The peer is a plain blocking `UnixStream` on its own thread; it reads until end-of-stream. The verdict is
//! the byte comparison; time only decides when the peer starts to read.

use crate::c19::{run_on, with_deadline, Kind};
use crate::cfg::Cfg;
use crate::vals::*;
use serde_json::json;
use std::{io::Read, os::unix::net::UnixStream, time::Duration};
use vnet::{Report, Rng};
use zlink_core::{connection::socket::Socket, Call, Connection, Reply};

#[derive(Debug, Clone)]
enum Op {
    Enqueue(V),
    SendCall(V),
    SendReply(V, Option<bool>),
    SendError(V),
    Flush,
}

fn method_value(rng: &mut Rng, poison: bool, big: bool) -> V {
    let opts = GenOpts { bad_key_one_in: 0, fail_one_in: 0 };
    let n = rng.range(1, 4);
    let mut fields: Vec<(&'static str, V)> = (0..n).map(|_| (name(rng), rand_tree(rng, 3, &opts))).collect();
    if big || rng.chance(1, 3) {
        let len = if big { *rng.pick(&[70_000usize, 140_000, 230_000, 300_000, 520_000]) + rng.below(5000) } else { rng.below(3000) };
        fields.push(("pad", V::Str("p".repeat(len))));
    }
    if poison {
        let bad = if rng.chance(1, 2) { V::Fail } else { V::Map(vec![(V::Str("good".into()), V::I8(1)), (V::Seq(vec![], true), V::Unit)], true, true) };
        let at = rng.below(fields.len() + 1);
        fields.insert(at, ("poison", bad));
    }
    if rng.chance(1, 2) {
        V::Struct("M", fields)
    } else {
        V::Map(fields.into_iter().map(|(k, v)| (V::Str(k.into()), v)).collect(), true, true)
    }
}

async fn sender<S: Socket>(kind: Kind, mut conn: Connection<S>, ops: &[Op]) -> Result<(Vec<u8>, u64, u64), (String, String)> {
    let mut reference = Vec::new();
    let mut pending: Vec<u8> = Vec::new();
    let (mut accepted, mut refused) = (0u64, 0u64);
    for (k, op) in ops.iter().enumerate() {
        let (res, enc, flushes): (Option<zlink_core::Result<()>>, Option<Vec<u8>>, bool) = match op {
            Op::Enqueue(v) => {
                let c = Call::new(v);
                (Some(conn.enqueue_call(&c)), serde_json::to_vec(&c).ok(), false)
            }
            Op::SendCall(v) => {
                let c = Call::new(v);
                (with_deadline(kind, Duration::from_secs(120), conn.send_call(&c)).await, serde_json::to_vec(&c).ok(), true)
            }
            Op::SendReply(v, cont) => {
                let r = Reply::new(Some(v)).set_continues(*cont);
                (with_deadline(kind, Duration::from_secs(120), conn.send_reply(&r)).await, serde_json::to_vec(&r).ok(), true)
            }
            Op::SendError(v) => (with_deadline(kind, Duration::from_secs(120), conn.send_error(v)).await, serde_json::to_vec(v).ok(), true),
            Op::Flush => (with_deadline(kind, Duration::from_secs(120), conn.flush()).await, None, true),
        };
        let Some(res) = res else { return Err(("inconclusive".into(), format!("operation #{k} did not finish within 120 s"))) };
        let is_msg = !matches!(op, Op::Flush);
        match (&res, &enc) {
            (Ok(()), Some(e)) if is_msg => {
                pending.extend_from_slice(e);
                pending.push(0);
                accepted += 1;
            }
            (Ok(()), None) if is_msg => return Err(("real-sockets:accepted-a-message-serde_json-refuses".into(), format!("operation #{k}"))),
            (Err(e), Some(_)) if is_msg => {
                // a transport failure is not a refusal of the message
                if matches!(e, zlink_core::Error::Io(_)) {
                    return Err(("inconclusive".into(), format!("operation #{k}: transport error {e:?}")));
                }
                return Err(("real-sockets:refused-an-encodable-message".into(), format!("operation #{k}: {e:?}")));
            }
            (Err(_), None) if is_msg => refused += 1,
            (Err(e), _) if !is_msg => return Err(("inconclusive".into(), format!("flush #{k}: {e:?}"))),
            _ => {}
        }
        if flushes && res.is_ok() {
            reference.append(&mut pending);
        }
    }
    match with_deadline(kind, Duration::from_secs(120), conn.flush()).await {
        Some(Ok(())) => reference.append(&mut pending),
        Some(Err(e)) => return Err(("inconclusive".into(), format!("final flush: {e:?}"))),
        None => return Err(("inconclusive".into(), "final flush did not finish within 120 s".into())),
    }
    drop(conn); // the peer sees end-of-stream
    Ok((reference, accepted, refused))
}

fn one_case(prop: &str, kind: Kind, seed: u64, rep: &mut Report) {
    let mut rng = Rng::derive(seed, 2030);
    let style = rng.below(4); // 0 small, 1 one big message, 2 long pipeline, 3 mixed
    let nops = match style {
        2 => rng.range(60, 400),
        _ => rng.range(1, 30),
    };
    let mut ops = Vec::new();
    let opts = GenOpts { bad_key_one_in: 0, fail_one_in: 0 };
    let mut big_left = match style {
        1 => 1,
        3 => 2,
        _ => 0,
    };
    for _ in 0..nops {
        let poison = rng.chance(1, 10);
        let big = big_left > 0 && rng.chance(1, 3);
        if big {
            big_left -= 1;
        }
        ops.push(match if style == 2 { rng.below(12) } else { rng.below(8) } {
            0 | 1 => Op::Enqueue(method_value(&mut rng, poison, big)),
            2 => Op::SendCall(method_value(&mut rng, poison, big)),
            3 => {
                let v = if poison { method_value(&mut rng, true, false) } else if rng.chance(1, 4) { V::Derived(rand_derr(&mut rng)) } else { rand_tree(&mut rng, 4, &opts) };
                Op::SendReply(v, *rng.pick(&[None, Some(true), Some(false)]))
            }
            4 => Op::SendError(if poison { method_value(&mut rng, true, false) } else { rand_tree(&mut rng, 4, &opts) }),
            5 => Op::Flush,
            _ => Op::Enqueue(method_value(&mut rng, poison, big)),
        });
    }
    let delay = *rng.pick(&[0u64, 0, 1, 3, 10, 30]);
    let desc = format!("wire {} seed={} style={} ops={} peer_starts_reading_after={}ms", kind.name(), seed, style, ops.len(), delay);
    rep.eval(vnet::fnv(desc.as_bytes()));
    rep.count(&format!("real_socket_cases.{}", kind.name()));
    let replay = json!({"monitor": prop.to_lowercase(), "case": desc});
    let res: Result<(Vec<u8>, Vec<u8>, u64, u64), (String, String)> = run_on(kind, async {
        let inc = |e: std::io::Error| ("inconclusive".to_string(), e.to_string());
        let (sa, sb) = UnixStream::pair().map_err(inc)?;
        sa.set_nonblocking(true).map_err(inc)?;
        let reader = std::thread::spawn(move || {
            let mut sb = sb;
            if delay > 0 {
                std::thread::sleep(Duration::from_millis(delay));
            }
            sb.set_read_timeout(Some(Duration::from_secs(150))).ok();
            let mut all = Vec::new();
            let mut buf = vec![0u8; 1 << 16];
            loop {
                match sb.read(&mut buf) {
                    Ok(0) => return Ok(all),
                    Ok(n) => all.extend_from_slice(&buf[..n]),
                    Err(e) => return Err(format!("peer read: {e}")),
                }
            }
        });
        let sent = match kind {
            Kind::Smol => sender(kind, Connection::new(zlink_smol::unix::Stream::from(smol::Async::new(sa).map_err(inc)?)), &ops).await,
            _ => sender(kind, Connection::new(zlink_tokio::unix::Stream::from(tokio::net::UnixStream::from_std(sa).map_err(inc)?)), &ops).await,
        };
        // whatever happened, the connection is dropped by now: the reader reaches end-of-stream
        let got = reader.join().map_err(|_| ("inconclusive".to_string(), "reader thread panicked".to_string()))?.map_err(|e| ("inconclusive".to_string(), e))?;
        let (reference, acc, refused) = sent?;
        Ok((reference, got, acc, refused))
    });
    match res {
        Err((sig, d)) if sig == "inconclusive" => rep.inconclusive.push(format!("{d}; {desc}")),
        Err((sig, d)) => rep.violation(&format!("{prop}/{sig}"), format!("{d}; {desc}"), replay),
        Ok((reference, got, acc, refused)) => {
            rep.evaluations += acc;
            rep.add("real_socket_messages_compared", acc);
            rep.add("real_socket_messages_refused", refused);
            rep.add("real_socket_bytes_compared", reference.len() as u64);
            rep.max("real_socket_largest_stream_bytes", reference.len() as u64);
            if got != reference {
                let at = got.iter().zip(reference.iter()).position(|(a, b)| a != b).unwrap_or(got.len().min(reference.len()));
                rep.violation(
                    &format!("{prop}/real-sockets:bytes-at-the-peer-differ-from-the-accepted-messages"),
                    format!("peer read {} bytes, the accepted messages are {} bytes; first difference at offset {at}: got {} expected {}; {desc}", got.len(), reference.len(), vnet::json::show(&got[at.min(got.len())..(at + 40).min(got.len())]), vnet::json::show(&reference[at.min(reference.len())..(at + 40).min(reference.len())])),
                    replay,
                );
            }
        }
    }
}

pub fn run(prop: &str, cfg: &Cfg) -> Report {
    let mut rep = Report::new(prop, &format!("{}-real", prop.to_lowercase()));
    let kinds = [Kind::TokioCurrent, Kind::Smol, Kind::TokioMulti];
    let n = cfg.n(1600, 40_000);
    // C02 and C03 draw different cases
    let salt = if prop == "C03" { 0x03 } else { 0x02 };
    for k in 0..n {
        let idx = k * cfg.shards as u64 + cfg.shard as u64;
        one_case(prop, kinds[(idx % 3) as usize], (cfg.seed ^ salt << 56).wrapping_mul(2_038_074_743).wrapping_add(idx), &mut rep);
        if rep.enough() {
            break;
        }
    }
    rep
}

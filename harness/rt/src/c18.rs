//! C18 on real runtimes and real Unix sockets: a client that pipelines a burst of calls must not be served
//! twice while another client's complete call is waiting in its socket.
//!
//! The order of events is forced with a gate, not with timing: the service holds the first call of the
//! flooder inside `handle()`; while it is held the victims write their calls (a blocking `write` that has
//! returned: the call is complete in the server's socket buffer); then the gate opens. Everything the
//! service logs after the held call happened while the victims' calls were waiting. The verdict is
//! computed from that log only.

use crate::c19::Kind;
use crate::cfg::Cfg;
use futures_util::future::{select, Either};
use serde::{Deserialize, Serialize};
use serde_json::json;
use std::{
    io::{Read, Write},
    os::unix::net::UnixStream,
    sync::{
        atomic::{AtomicBool, Ordering},
        Arc, Mutex,
    },
    time::{Duration, Instant},
};
use vnet::{Report, Rng};
use zlink_core::{service::MethodReply, Call, Reply, Server, Service};

#[derive(Debug, Deserialize)]
#[serde(tag = "method", content = "parameters")]
enum M {
    #[serde(rename = "f.Echo")]
    Echo { client: u32, seq: u32 },
}

#[derive(Debug, Serialize, Deserialize, Clone, PartialEq)]
struct R {
    client: u32,
    seq: u32,
}

struct Svc {
    kind: Kind,
    log: Arc<Mutex<Vec<(u32, u32)>>>,
    gate: Arc<AtomicBool>,
    hold: (u32, u32),
    /// long-burst plans: while the flooder's call with this ordinal is handled, the service itself writes the
    /// victim's call into the victim's socket (a complete call arrives in the middle of the burst, on a socket the
    /// server has seen empty before) and notes how many calls had been handled by then
    inject: Option<(u32, Arc<Mutex<Option<UnixStream>>>, Vec<u8>, Arc<std::sync::atomic::AtomicUsize>)>,
}

async fn nap(kind: Kind, d: Duration) {
    match kind {
        Kind::Smol => {
            smol::Timer::after(d).await;
        }
        _ => tokio::time::sleep(d).await,
    }
}

impl Service for Svc {
    type MethodCall<'de> = M;
    type ReplyParams<'ser> = R;
    type ReplyStreamParams = R;
    type ReplyStream = futures_util::stream::Empty<Reply<R>>;
    type ReplyError<'ser> = ();

    async fn handle<'ser>(&'ser mut self, call: Call<Self::MethodCall<'_>>) -> MethodReply<Self::ReplyParams<'ser>, Self::ReplyStream, Self::ReplyError<'ser>> {
        let M::Echo { client, seq } = call.method();
        let (client, seq) = (*client, *seq);
        self.log.lock().unwrap().push((client, seq));
        if let Some((at, sock, bytes, armed)) = &self.inject {
            if client == 0 && seq == *at {
                if let Some(mut s) = sock.lock().unwrap().take() {
                    let _ = s.write_all(bytes);
                    armed.store(self.log.lock().unwrap().len(), Ordering::SeqCst);
                }
            }
        }
        if (client, seq) == self.hold {
            let t0 = Instant::now();
            while !self.gate.load(Ordering::SeqCst) && t0.elapsed() < Duration::from_secs(60) {
                nap(self.kind, Duration::from_millis(1)).await;
            }
        }
        MethodReply::Single(Some(R { client, seq }))
    }
}

fn call_bytes(client: u32, seq: u32) -> Vec<u8> {
    let mut b = serde_json::to_vec(&json!({"method": "f.Echo", "parameters": {"client": client, "seq": seq}})).unwrap();
    b.push(0);
    b
}

/// Read `n` NUL-terminated frames (blocking, with the stream's read timeout).
fn read_frames(s: &mut UnixStream, n: usize) -> Result<Vec<Vec<u8>>, String> {
    let mut out = Vec::new();
    let mut cur = Vec::new();
    let mut buf = [0u8; 4096];
    while out.len() < n {
        let k = s.read(&mut buf).map_err(|e| format!("read: {e}"))?;
        if k == 0 {
            return Err(format!("connection closed after {} of {n} replies", out.len()));
        }
        for b in &buf[..k] {
            if *b == 0 {
                out.push(std::mem::take(&mut cur));
            } else {
                cur.push(*b);
            }
        }
    }
    Ok(out)
}

struct Plan {
    kind: Kind,
    /// calls in the burst of each flooder (client ids 0..flooders)
    bursts: Vec<u32>,
    victims: u32,
    /// a second flooder's burst is written while the first call is held, too
    seed: u64,
    /// long burst: one flooder with hundreds of calls, the victim's call is written from inside the service while the
    /// call with this ordinal is handled
    inject_at: Option<u32>,
}

/// A would-be violation is only reported when it repeats: that a call is complete in the server's socket does not
/// mean the runtime has told the server task yet (readiness travels through the reactor, which on a loaded machine
/// may run after the gate has opened). The same plan is run again up to four times, giving the reactor 2, 10, 50
/// and 200 ms between the last write and the opening of the gate; unfairness of the server itself shows every time.
fn one_case(p: &Plan, dir: &std::path::Path, rep: &mut Report) {
    let mut scratch = Report::new("C18", "c18-real");
    one_try(p, Duration::ZERO, dir, &mut scratch);
    let timing_kind = |r: &Report| r.violations.iter().any(|v| v.signature.contains("one-connection-served-twice"));
    if timing_kind(&scratch) {
        for grace in [2u64, 10, 50, 200] {
            let mut again = Report::new("C18", "c18-real");
            one_try(p, Duration::from_millis(grace), dir, &mut again);
            if !timing_kind(&again) {
                rep.count("orders_that_did_not_repeat_with_a_grace_period_for_the_reactor");
                rep.merge(again);
                return;
            }
        }
    }
    rep.merge(scratch);
}

fn one_try(p: &Plan, grace: Duration, dir: &std::path::Path, rep: &mut Report) {
    let desc = format!("real-socket fairness {} bursts={:?} victims={} seed={} call_written_by_the_service_during_flooder_call={:?}", p.kind.name(), p.bursts, p.victims, p.seed, p.inject_at);
    let replay = json!({"monitor": "c18", "case": desc});
    rep.eval(vnet::fnv(desc.as_bytes()));
    rep.count("real_socket_cases");
    let path = dir.join(format!("f{}.sock", p.seed % 1_000_000));
    let _ = std::fs::remove_file(&path);
    let log = Arc::new(Mutex::new(Vec::new()));
    let gate = Arc::new(AtomicBool::new(false));
    let stop = Arc::new(AtomicBool::new(false));
    let ready = Arc::new(AtomicBool::new(false));
    let kind = p.kind;
    let victim_sock: Arc<Mutex<Option<UnixStream>>> = Arc::new(Mutex::new(None));
    let armed = Arc::new(std::sync::atomic::AtomicUsize::new(usize::MAX));
    let inject = p.inject_at.map(|at| (at, victim_sock.clone(), call_bytes(1, 1), armed.clone()));
    let hold = if p.inject_at.is_some() { (u32::MAX, 0) } else { (0, 1) };
    let server = {
        let (log, gate, stop, ready, path) = (log.clone(), gate.clone(), stop.clone(), ready.clone(), path.clone());
        std::thread::spawn(move || {
            let body = async move {
                let svc = Svc { kind, log, gate, hold, inject };
                macro_rules! serve {
                    ($listener:expr) => {{
                        let listener = match $listener {
                            Ok(l) => l,
                            Err(e) => return Err(format!("bind: {e:?}")),
                        };
                        ready.store(true, Ordering::SeqCst);
                        let server = Server::new(listener, svc);
                        let run = core::pin::pin!(server.run());
                        let halt = core::pin::pin!(async {
                            while !stop.load(Ordering::SeqCst) {
                                nap(kind, Duration::from_millis(2)).await;
                            }
                        });
                        match select(run, halt).await {
                            Either::Left((r, _)) => Err(format!("Server::run returned {r:?}")),
                            Either::Right(_) => Ok(()),
                        }
                    }};
                }
                match kind {
                    Kind::Smol => serve!(zlink_smol::unix::bind(&path)),
                    _ => serve!(zlink_tokio::unix::bind(&path)),
                }
            };
            match kind {
                Kind::Smol => smol::block_on(body),
                Kind::TokioMulti => tokio::runtime::Builder::new_multi_thread().worker_threads(2).enable_all().build().unwrap().block_on(body),
                Kind::TokioCurrent => tokio::runtime::Builder::new_current_thread().enable_all().build().unwrap().block_on(body),
            }
        })
    };
    let wait = |cond: &dyn Fn() -> bool, secs: u64| {
        let t0 = Instant::now();
        while !cond() {
            if t0.elapsed() > Duration::from_secs(secs) {
                return false;
            }
            std::thread::sleep(Duration::from_micros(200));
        }
        true
    };
    let outcome: Result<(), (String, String)> = (|| {
        let inc = |e: String| ("inconclusive".to_string(), e);
        if !wait(&|| ready.load(Ordering::SeqCst), 20) {
            return Err(inc("server did not start".into()));
        }
        let nclients = p.bursts.len() as u32 + p.victims;
        let mut socks = Vec::new();
        for c in 0..nclients {
            let mut s = UnixStream::connect(&path).map_err(|e| inc(format!("connect: {e}")))?;
            s.set_read_timeout(Some(Duration::from_secs(30))).ok();
            // one warm-up exchange: the connection is accepted and in the server's list
            s.write_all(&call_bytes(c, 0)).map_err(|e| inc(format!("write: {e}")))?;
            read_frames(&mut s, 1).map_err(inc)?;
            socks.push(s);
        }
        let burst = |c: u32, n: u32| -> Vec<u8> { (1..=n).flat_map(|k| call_bytes(c, k)).collect() };
        if p.inject_at.is_some() {
            // long burst: the victim's call is written by the service in the middle of it
            *victim_sock.lock().unwrap() = Some(socks[1].try_clone().map_err(|e| inc(format!("clone: {e}")))?);
            socks[0].write_all(&burst(0, p.bursts[0])).map_err(|e| inc(format!("write: {e}")))?;
            let n0 = p.bursts[0] as usize;
            // (the flooder's answers first: a client that does not take its answers would stall the server on a full
            // socket after a few hundred of them, whatever happens to the victim)
            read_frames(&mut socks[0], n0).map_err(|e| inc(format!("flooder: {e}")))?;
            read_frames(&mut socks[1], 1).map_err(|e| inc(format!("victim: {e}")))?;
            let lg = log.lock().unwrap().clone();
            let at = armed.load(Ordering::SeqCst);
            let Some(served) = lg.iter().position(|e| *e == (1, 1)) else {
                return Err(("C18/real-socket-call-never-served".into(), format!("victim; log {lg:?}")));
            };
            if at == usize::MAX {
                return Err(inc("the victim's call was never written".into()));
            }
            let waited = served.saturating_sub(at);
            rep.evaluations += 1;
            rep.max("max_calls_of_a_long_burst_served_before_a_call_that_arrived_meanwhile", waited as u64);
            // (tokio's sockets make the server task yield after 128 operations; then the reactor sees the victim's call)
            if waited > 200 {
                return Err((
                    "C18/real-sockets:one-connection-served-twice-while-another-had-a-call-waiting:long-burst".into(),
                    format!("the victim's call was complete in its socket when {at} calls had been handled; it was handled after {waited} more calls of the flooder's burst of {n0}"),
                ));
            }
            return Ok(());
        }
        // the first flooder's burst, in one write
        socks[0].write_all(&burst(0, p.bursts[0])).map_err(|e| inc(format!("write: {e}")))?;
        if !wait(&|| log.lock().unwrap().contains(&(0, 1)), 20) {
            return Err(inc("the flooder's first call did not reach the service within 20 s".into()));
        }
        // while that call is held: further flooders and the victims write (complete calls, in the server's socket)
        for (c, n) in p.bursts.iter().enumerate().skip(1) {
            socks[c].write_all(&burst(c as u32, *n)).map_err(|e| inc(format!("write: {e}")))?;
        }
        for v in 0..p.victims {
            let c = p.bursts.len() as u32 + v;
            socks[c as usize].write_all(&call_bytes(c, 1)).map_err(|e| inc(format!("write: {e}")))?;
        }
        let held_at = log.lock().unwrap().len();
        if !grace.is_zero() {
            std::thread::sleep(grace);
        }
        gate.store(true, Ordering::SeqCst);
        // collect every reply
        for (c, s) in socks.iter_mut().enumerate() {
            let n = if c < p.bursts.len() { p.bursts[c] as usize } else { 1 };
            let frames = read_frames(s, n).map_err(|e| inc(format!("client {c}: {e}")))?;
            for (k, f) in frames.iter().enumerate() {
                let v: serde_json::Value = serde_json::from_slice(f).map_err(|e| ("C18/real-socket-reply-is-not-json".to_string(), format!("client {c}: {e}")))?;
                if v["parameters"]["client"] != json!(c) || v["parameters"]["seq"] != json!(k + 1) {
                    return Err(("C18/real-socket-reply-out-of-order-or-misrouted".into(), format!("client {c} reply #{k}: {v}")));
                }
            }
        }
        // judge: everything logged from `held_at` on was served while every victim's call (and every later
        // flooder's first call) was complete in its socket
        let lg = log.lock().unwrap().clone();
        rep.add("real_socket_calls_served", lg.len() as u64);
        for v in 0..p.victims {
            let c = p.bursts.len() as u32 + v;
            let Some(at) = lg.iter().position(|e| *e == (c, 1)) else {
                return Err(("C18/real-socket-call-never-served".into(), format!("victim {c}; log {lg:?}")));
            };
            let window = &lg[held_at.min(at)..at];
            let mut seen = std::collections::HashMap::new();
            for (y, _) in window {
                *seen.entry(*y).or_insert(0u32) += 1;
            }
            rep.evaluations += 1;
            rep.max("max_calls_of_one_connection_served_while_a_victim_waited", seen.values().copied().max().unwrap_or(0) as u64);
            if let Some((y, n)) = seen.iter().find(|(_, n)| **n >= 2) {
                return Err((
                    "C18/real-sockets:one-connection-served-twice-while-another-had-a-call-waiting".into(),
                    format!("connection {y} was served {n} times while the complete call of connection {c} was waiting in its socket (no connection came or went); service order after the held call: {:?}", &lg[held_at.min(lg.len())..]),
                ));
            }
        }
        Ok(())
    })();
    stop.store(true, Ordering::SeqCst);
    gate.store(true, Ordering::SeqCst);
    let _ = server.join();
    let _ = std::fs::remove_file(&path);
    match outcome {
        Ok(()) => rep.count("real_socket_cases_ok"),
        Err((sig, d)) if sig == "inconclusive" => rep.inconclusive.push(format!("{d}; {desc}")),
        Err((sig, d)) => rep.violation(&sig, format!("{d}; {desc}"), replay),
    }
}

pub fn run(cfg: &Cfg) -> Report {
    let mut rep = Report::new("C18", "c18-real");
    let base = std::env::var("ZV_SOCK_DIR").unwrap_or_else(|_| "/verif/harness/run".into());
    let dir = std::path::PathBuf::from(base).join(format!("sock18-{}", std::process::id()));
    std::fs::create_dir_all(&dir).expect("socket dir");
    let kinds = [Kind::TokioCurrent, Kind::Smol, Kind::TokioMulti];
    let mut rng: Rng = cfg.rng(1818);
    let n = cfg.n(1200, 24_000);
    for k in 0..n {
        let idx = k * cfg.shards as u64 + cfg.shard as u64;
        let nfl = if rng.chance(1, 3) { 2 } else { 1 };
        let p = Plan {
            kind: kinds[(idx % 3) as usize],
            bursts: (0..nfl).map(|_| rng.range(3, 9) as u32).collect(),
            victims: rng.range(1, 3) as u32,
            seed: cfg.seed.wrapping_mul(2_750_159).wrapping_add(idx),
            inject_at: None,
        };
        // every eighth plan: a long burst with a call arriving in the middle of it
        // (not on the multi-threaded runtime: there the reactor runs on another thread, and when that thread gets the
        // processor is not the server's doing)
        let p = if k % 8 == 3 && p.kind != Kind::TokioMulti { Plan { bursts: vec![rng.range(300, 500) as u32], victims: 1, inject_at: Some(rng.range(2, 40) as u32), ..p } } else { p };
        if p.inject_at.is_some() {
            rep.count("real_socket_long_burst_cases");
        }
        one_case(&p, &dir, &mut rep);
        if k < 2 {
            rep.sample(4, || json!({"real_sockets": format!("{} bursts {:?} victims {}", p.kind.name(), p.bursts, p.victims)}));
        }
    }
    let _ = std::fs::remove_dir_all(&dir);
    rep
}

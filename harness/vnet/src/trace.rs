//! A minimal `tracing` subscriber that enables every level and records formatted events.
//!
//! Purpose: observe zlink's own `warn!` lines (which connection was dropped and why) and force the
//! arguments of its `trace!` lines to be evaluated so that sanitizers see those paths.

use std::{
    cell::RefCell,
    fmt::Write,
    sync::atomic::{AtomicU64, Ordering},
};
use tracing::{
    field::{Field, Visit},
    span, Event, Level, Metadata, Subscriber,
};

thread_local! {
    static LOG: RefCell<Vec<(Level, String)>> = const { RefCell::new(Vec::new()) };
    static KEEP: RefCell<bool> = const { RefCell::new(false) };
}
static EVENTS: AtomicU64 = AtomicU64::new(0);
static BYTES: AtomicU64 = AtomicU64::new(0);

struct Rec;

struct V<'a>(&'a mut String);
impl Visit for V<'_> {
    fn record_debug(&mut self, field: &Field, value: &dyn std::fmt::Debug) {
        let _ = write!(self.0, "{}={:?} ", field.name(), value);
    }
}

impl Subscriber for Rec {
    fn enabled(&self, _: &Metadata<'_>) -> bool {
        true
    }
    fn new_span(&self, _: &span::Attributes<'_>) -> span::Id {
        span::Id::from_u64(1)
    }
    fn record(&self, _: &span::Id, _: &span::Record<'_>) {}
    fn record_follows_from(&self, _: &span::Id, _: &span::Id) {}
    fn event(&self, event: &Event<'_>) {
        let mut s = String::new();
        event.record(&mut V(&mut s));
        EVENTS.fetch_add(1, Ordering::Relaxed);
        BYTES.fetch_add(s.len() as u64, Ordering::Relaxed);
        let lvl = *event.metadata().level();
        if lvl <= Level::WARN || KEEP.with(|k| *k.borrow()) {
            LOG.with(|l| {
                let mut l = l.borrow_mut();
                if l.len() < 10_000 {
                    l.push((lvl, s));
                }
            });
        }
    }
    fn enter(&self, _: &span::Id) {}
    fn exit(&self, _: &span::Id) {}
}

/// Install the recording subscriber globally (idempotent).
pub fn install() {
    let _ = tracing::subscriber::set_global_default(Rec);
}

/// Keep `trace!`-level lines too (otherwise only WARN and above are stored; all are formatted).
pub fn keep_all(on: bool) {
    KEEP.with(|k| *k.borrow_mut() = on);
}

/// Take the lines recorded on this thread since the last call.
pub fn take() -> Vec<(Level, String)> {
    LOG.with(|l| std::mem::take(&mut *l.borrow_mut()))
}

pub fn events_seen() -> (u64, u64) {
    (EVENTS.load(Ordering::Relaxed), BYTES.load(Ordering::Relaxed))
}

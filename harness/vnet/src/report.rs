//! What a monitor run reports to the driver (`/verif/check`), as JSON.

use serde_json::{json, Map, Value};
use std::collections::{BTreeMap, HashSet};

#[derive(Debug, Clone)]
pub struct Violation {
    /// Stable name of the *specific failing shape*, e.g. `C06/all-oneway-chain-reads`.
    pub signature: String,
    pub detail: String,
    /// Everything needed to re-execute exactly this case.
    pub replay: Value,
}

#[derive(Debug, Default)]
pub struct Report {
    pub property: String,
    pub monitor: String,
    /// Oracle evaluations.
    pub evaluations: u64,
    /// Hashes of distinct non-trivial cases.
    pub distinct: HashSet<u64>,
    pub samples: Vec<Value>,
    pub violations: Vec<Violation>,
    pub violation_counts: BTreeMap<String, u64>,
    pub counters: BTreeMap<String, u64>,
    pub inconclusive: Vec<String>,
    pub exhaustive: bool,
    pub notes: Vec<String>,
}

impl Report {
    pub fn new(property: &str, monitor: &str) -> Self {
        Report {
            property: property.into(),
            monitor: monitor.into(),
            ..Default::default()
        }
    }

    pub fn count(&mut self, key: &str) {
        *self.counters.entry(key.into()).or_insert(0) += 1;
    }
    pub fn add(&mut self, key: &str, n: u64) {
        *self.counters.entry(key.into()).or_insert(0) += n;
    }
    pub fn max(&mut self, key: &str, n: u64) {
        let e = self.counters.entry(key.into()).or_insert(0);
        if n > *e {
            *e = n;
        }
    }

    /// Record one oracle evaluation on a case with the given identity hash.
    pub fn eval(&mut self, case_hash: u64) {
        self.evaluations += 1;
        self.distinct.insert(case_hash);
    }

    pub fn sample(&mut self, max: usize, f: impl FnOnce() -> Value) {
        if self.samples.len() < max {
            self.samples.push(f());
        }
    }

    /// Record a violation; at most 3 witnesses are kept per signature.
    pub fn violation(&mut self, signature: &str, detail: String, replay: Value) {
        let c = self.violation_counts.entry(signature.into()).or_insert(0);
        *c += 1;
        if *c <= 3 {
            self.violations.push(Violation {
                signature: signature.into(),
                detail,
                replay,
            });
        }
    }

    /// Real-time workloads stop early once a violation has been seen a few times or many cases were
    /// inconclusive (every further case would wait for its watchdog again).
    pub fn enough(&self) -> bool {
        self.violation_counts.values().any(|c| *c >= 3) || self.inconclusive.len() >= 12
    }

    pub fn merge(&mut self, other: Report) {
        self.evaluations += other.evaluations;
        self.distinct.extend(other.distinct);
        for s in other.samples {
            if self.samples.len() < 12 {
                self.samples.push(s);
            }
        }
        for v in other.violations {
            let kept = self
                .violations
                .iter()
                .filter(|x| x.signature == v.signature)
                .count();
            if kept < 3 {
                self.violations.push(v);
            }
        }
        for (k, v) in other.violation_counts {
            *self.violation_counts.entry(k).or_insert(0) += v;
        }
        for (k, v) in other.counters {
            if k.starts_with("max_") {
                let e = self.counters.entry(k).or_insert(0);
                *e = (*e).max(v);
            } else {
                *self.counters.entry(k).or_insert(0) += v;
            }
        }
        self.inconclusive.extend(other.inconclusive);
        self.notes.extend(other.notes);
        self.exhaustive = self.exhaustive && other.exhaustive;
    }

    pub fn to_json(&self) -> Value {
        let mut counters = Map::new();
        for (k, v) in &self.counters {
            counters.insert(k.clone(), json!(v));
        }
        let mut vc = Map::new();
        for (k, v) in &self.violation_counts {
            vc.insert(k.clone(), json!(v));
        }
        // `distinct_hashes` lets the driver union distinct cases across shards exactly when the
        // set is small; otherwise only the count is reported (shards use disjoint seeds, so the
        // sum is then an upper bound and the driver reports max-per-shard as a lower bound).
        let hashes: Value = if self.distinct.len() <= 400_000 {
            let mut v: Vec<u64> = self.distinct.iter().copied().collect();
            v.sort_unstable();
            json!(v.iter().map(|h| format!("{h:016x}")).collect::<Vec<_>>())
        } else {
            Value::Null
        };
        json!({
            "property": self.property,
            "monitor": self.monitor,
            "evaluations": self.evaluations,
            "distinct": self.distinct.len(),
            "distinct_hashes": hashes,
            "samples": self.samples,
            "violations": self.violations.iter().map(|v| json!({
                "signature": v.signature, "detail": v.detail, "replay": v.replay
            })).collect::<Vec<_>>(),
            "violation_counts": vc,
            "counters": counters,
            "inconclusive": self.inconclusive,
            "exhaustive": self.exhaustive,
            "notes": self.notes,
        })
    }
}

thread_local! {
    static LAST_PANIC_AT: std::cell::RefCell<Option<String>> = const { std::cell::RefCell::new(None) };
}

/// Replace the default panic hook (which prints a backtrace per panic) by one that only remembers
/// where the panic happened; `catch` appends that to the message.
pub fn install_quiet_panic_hook() {
    std::panic::set_hook(Box::new(|info| {
        let at = info.location().map(|l| format!("{}:{}", l.file(), l.line()));
        LAST_PANIC_AT.with(|c| *c.borrow_mut() = at);
    }));
}

/// Run `f`, turning a panic into `Err(message)`.
pub fn catch<R>(f: impl FnOnce() -> R) -> Result<R, String> {
    match std::panic::catch_unwind(std::panic::AssertUnwindSafe(f)) {
        Ok(r) => Ok(r),
        Err(e) => {
            let msg = if let Some(s) = e.downcast_ref::<&str>() {
                s.to_string()
            } else if let Some(s) = e.downcast_ref::<String>() {
                s.clone()
            } else {
                "panic (non-string payload)".into()
            };
            let at = LAST_PANIC_AT.with(|c| c.borrow_mut().take());
            Err(match at {
                Some(a) => format!("{msg} [at {a}]"),
                None => msg,
            })
        }
    }
}

//! JSON helpers for the oracles: duplicate-key detection (a `Value` would hide duplicates),
//! value comparison helpers.

use serde::de::{DeserializeSeed, Deserializer, MapAccess, SeqAccess, Visitor};
use std::{cell::Cell, collections::HashSet, fmt};

struct Walk<'a> {
    dup: &'a Cell<bool>,
}

impl<'de, 'a> DeserializeSeed<'de> for Walk<'a> {
    type Value = ();
    fn deserialize<D: Deserializer<'de>>(self, d: D) -> Result<(), D::Error> {
        d.deserialize_any(self)
    }
}

impl<'de, 'a> Visitor<'de> for Walk<'a> {
    type Value = ();
    fn expecting(&self, f: &mut fmt::Formatter<'_>) -> fmt::Result {
        f.write_str("any JSON")
    }
    fn visit_bool<E>(self, _: bool) -> Result<(), E> {
        Ok(())
    }
    fn visit_i64<E>(self, _: i64) -> Result<(), E> {
        Ok(())
    }
    fn visit_u64<E>(self, _: u64) -> Result<(), E> {
        Ok(())
    }
    fn visit_i128<E>(self, _: i128) -> Result<(), E> {
        Ok(())
    }
    fn visit_u128<E>(self, _: u128) -> Result<(), E> {
        Ok(())
    }
    fn visit_f64<E>(self, _: f64) -> Result<(), E> {
        Ok(())
    }
    fn visit_str<E>(self, _: &str) -> Result<(), E> {
        Ok(())
    }
    fn visit_unit<E>(self) -> Result<(), E> {
        Ok(())
    }
    fn visit_none<E>(self) -> Result<(), E> {
        Ok(())
    }
    fn visit_seq<A: SeqAccess<'de>>(self, mut seq: A) -> Result<(), A::Error> {
        while seq.next_element_seed(Walk { dup: self.dup })?.is_some() {}
        Ok(())
    }
    fn visit_map<A: MapAccess<'de>>(self, mut map: A) -> Result<(), A::Error> {
        let mut seen = HashSet::new();
        while let Some(k) = map.next_key::<String>()? {
            if !seen.insert(k) {
                self.dup.set(true);
            }
            map.next_value_seed(Walk { dup: self.dup })?;
        }
        Ok(())
    }
}

/// `Ok(true)` if the document is valid JSON (one document, nothing after it) with a duplicated
/// object key at any depth, `Ok(false)` if valid without duplicates, `Err` if not valid JSON.
pub fn has_duplicate_keys(doc: &[u8]) -> Result<bool, String> {
    let dup = Cell::new(false);
    let mut de = serde_json::Deserializer::from_slice(doc);
    Walk { dup: &dup }
        .deserialize(&mut de)
        .map_err(|e| e.to_string())?;
    de.end().map_err(|e| e.to_string())?;
    Ok(dup.get())
}

/// Lossy printable rendering of wire bytes for reports (NUL shown as `\0`).
pub fn show(bytes: &[u8]) -> String {
    let mut s = String::new();
    for &b in bytes.iter().take(400) {
        match b {
            0 => s.push_str("\\0"),
            b'\\' => s.push_str("\\\\"),
            0x20..=0x7e => s.push(b as char),
            _ => s.push_str(&format!("\\x{:02x}", b)),
        }
    }
    if bytes.len() > 400 {
        s.push_str(&format!("...(+{} bytes)", bytes.len() - 400));
    }
    s
}

#[cfg(test)]
mod tests {
    use super::*;
    #[test]
    fn dups() {
        assert_eq!(has_duplicate_keys(br#"{"a":1,"b":{"a":2}}"#), Ok(false));
        assert_eq!(has_duplicate_keys(br#"{"a":1,"a":2}"#), Ok(true));
        assert_eq!(has_duplicate_keys(br#"{"a":[{"x":1,"x":1}]}"#), Ok(true));
        assert!(has_duplicate_keys(br#"{"a":1} x"#).is_err());
    }
}

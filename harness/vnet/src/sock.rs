//! Scripted socket, capturing writer and scripted listener.
//!
//! A `Wire` is shared (`Rc<RefCell<_>>`) between the harness and the socket halves that zlink
//! owns, so the harness can deliver bytes / faults and inspect what was written while the
//! connection is held by a server future.

use std::{
    cell::RefCell,
    collections::VecDeque,
    future::poll_fn,
    rc::Rc,
    task::Poll,
};

use zlink_core::connection::socket::{ReadHalf, Socket, WriteHalf};

/// What the read half does on its next `read` calls.
#[derive(Debug, Clone, PartialEq, Eq)]
pub enum Rx {
    /// Bytes available; handed out `min(len, buf.len())` at a time, the rest stays queued.
    Bytes(Vec<u8>),
    /// One poll of the read future returns `Pending` (nothing is consumed from the data).
    Pending,
    /// Orderly end of stream: `Ok(0)`, forever.
    Eof,
    /// Transport fault: `Err(Io(ConnectionReset))`, forever.
    Err,
}

#[derive(Debug, Default)]
pub struct Wire {
    /// Label used in reports.
    pub label: u32,
    pub rx: VecDeque<Rx>,
    /// Bytes of the front `Rx::Bytes` chunk already handed out.
    pub rx_off: usize,
    /// Which error an `Rx::Err` event produces: 0 = `Io(ConnectionReset)`, 1 = `SocketRead`, 2 = `Io(TimedOut)`,
    /// 3 = `Io(Interrupted)` (and it stays: every further read fails the same way).
    pub err_kind: u8,
    /// Which error a failing write produces: 0 = `Io(ConnectionReset)`, 1 = `Io(TimedOut)` (a send timeout),
    /// 2 = `Io(WouldBlock)`, 3 = `Io(Interrupted)`, 4 = `Io(BrokenPipe)`.
    pub write_err_kind: u8,
    /// What to do when `rx` is empty: `true` = `Ok(0)`, `false` = `Pending` (idle live peer).
    pub eof_when_empty: bool,
    /// Number of `read` polls (including those that returned `Pending`).
    pub read_polls: usize,
    /// Number of `read` polls made while no event at all was queued.
    pub read_polls_when_empty: usize,
    /// Number of bytes handed to zlink.
    pub bytes_delivered: usize,
    /// Largest / smallest buffer zlink offered to `read`.
    pub min_read_buf: usize,
    /// Every `write` call, separately.
    pub writes: Vec<Vec<u8>>,
    /// Fail the write whose index (0-based, counting all write calls) is this.
    pub fail_write_at: Option<usize>,
    /// Once a write failed, fail all later ones as well (a broken pipe stays broken).
    pub write_broken: bool,
    /// Number of `Pending` polls to return before each write completes.
    pub write_pending_polls: usize,
    write_pending_left: Option<usize>,
    /// Number of write calls started (including failed ones).
    pub write_calls: usize,
    /// Number of polls of write futures (including `Pending` ones).
    pub write_polls: usize,
    /// Set when the halves are dropped by zlink.
    pub read_half_dropped: bool,
    pub write_half_dropped: bool,
    /// Who to wake when something is queued for reading (registered when `read` returned `Pending`).
    pub read_waker: crate::WakeSlot,
    /// Cooperative budget shared by all wires of a world, the way tokio's I/O resources share the budget of the task
    /// that polls them: every read / write poll takes one unit; when none is left the poll answers `Pending` (and
    /// asks to be polled again) whatever is queued. The executor refills it before every top-level poll.
    pub coop: Option<Rc<std::cell::Cell<u32>>>,
    /// polls answered `Pending` because the budget was used up
    pub coop_pendings: usize,
}

pub type WireRef = Rc<RefCell<Wire>>;

pub fn new_wire(label: u32) -> WireRef {
    Rc::new(RefCell::new(Wire {
        label,
        min_read_buf: usize::MAX,
        ..Default::default()
    }))
}

impl Wire {
    pub fn push_bytes(&mut self, b: &[u8]) {
        if !b.is_empty() {
            self.rx.push_back(Rx::Bytes(b.to_vec()));
            self.read_waker.fire();
        }
    }
    pub fn push(&mut self, ev: Rx) {
        self.rx.push_back(ev);
        self.read_waker.fire();
    }
    /// All written bytes concatenated.
    pub fn written(&self) -> Vec<u8> {
        self.writes.concat()
    }
    /// True when no data event is queued (bytes all consumed).
    pub fn drained(&self) -> bool {
        !self.rx.iter().any(|e| matches!(e, Rx::Bytes(_)))
    }
}

#[derive(Debug)]
pub struct VSocket(pub WireRef);
#[derive(Debug)]
pub struct VRead(pub WireRef);
#[derive(Debug)]
pub struct VWrite(pub WireRef);

impl Socket for VSocket {
    type ReadHalf = VRead;
    type WriteHalf = VWrite;
    fn split(self) -> (VRead, VWrite) {
        (VRead(self.0.clone()), VWrite(self.0.clone()))
    }
}

impl Drop for VRead {
    fn drop(&mut self) {
        self.0.borrow_mut().read_half_dropped = true;
    }
}
impl Drop for VWrite {
    fn drop(&mut self) {
        self.0.borrow_mut().write_half_dropped = true;
    }
}

fn io_err() -> zlink_core::Error {
    zlink_core::Error::Io(std::io::Error::new(
        std::io::ErrorKind::ConnectionReset,
        "injected fault",
    ))
}

impl ReadHalf for VRead {
    async fn read(&mut self, buf: &mut [u8]) -> zlink_core::Result<usize> {
        let wire = self.0.clone();
        poll_fn(move |cx| {
            let mut w = wire.borrow_mut();
            w.read_polls += 1;
            w.min_read_buf = w.min_read_buf.min(buf.len());
            // (like tokio's budget: an operation that turns out not to be ready gives its unit back)
            let coop = w.coop.clone();
            if let Some(b) = &coop {
                if b.get() == 0 {
                    w.coop_pendings += 1;
                    cx.waker().wake_by_ref();
                    return Poll::Pending;
                }
            }
            let spend = |r: Poll<zlink_core::Result<usize>>| {
                if let (Some(b), Poll::Ready(_)) = (&coop, &r) {
                    b.set(b.get().saturating_sub(1));
                }
                r
            };
            loop {
                match w.rx.front() {
                    None => {
                        w.read_polls_when_empty += 1;
                        return if w.eof_when_empty {
                            spend(Poll::Ready(Ok(0)))
                        } else {
                            w.read_waker.register(cx);
                            Poll::Pending
                        };
                    }
                    Some(Rx::Pending) => {
                        // "not ready yet, try again": a yield, so the task asks to be polled again
                        w.rx.pop_front();
                        cx.waker().wake_by_ref();
                        return Poll::Pending;
                    }
                    Some(Rx::Eof) => return spend(Poll::Ready(Ok(0))),
                    Some(Rx::Err) => {
                        return spend(Poll::Ready(Err(match w.err_kind {
                            1 => zlink_core::Error::SocketRead,
                            2 => zlink_core::Error::Io(std::io::Error::new(std::io::ErrorKind::TimedOut, "injected fault")),
                            3 => zlink_core::Error::Io(std::io::Error::new(std::io::ErrorKind::Interrupted, "injected fault")),
                            _ => io_err(),
                        })))
                    }
                    Some(Rx::Bytes(_)) => {
                        let off = w.rx_off;
                        let Some(Rx::Bytes(chunk)) = w.rx.front() else { unreachable!() };
                        let left = chunk.len() - off;
                        if left == 0 {
                            w.rx.pop_front();
                            w.rx_off = 0;
                            continue;
                        }
                        if buf.is_empty() {
                            // A zero-length read on a stream socket returns 0.
                            return spend(Poll::Ready(Ok(0)));
                        }
                        let n = left.min(buf.len());
                        buf[..n].copy_from_slice(&chunk[off..off + n]);
                        if n == left {
                            w.rx.pop_front();
                            w.rx_off = 0;
                        } else {
                            w.rx_off = off + n;
                        }
                        w.bytes_delivered += n;
                        return spend(Poll::Ready(Ok(n)));
                    }
                }
            }
        })
        .await
    }
}

impl WriteHalf for VWrite {
    async fn write(&mut self, buf: &[u8]) -> zlink_core::Result<()> {
        let wire = self.0.clone();
        {
            let mut w = wire.borrow_mut();
            w.write_pending_left = Some(w.write_pending_polls);
        }
        poll_fn(move |cx| {
            let mut w = wire.borrow_mut();
            w.write_polls += 1;
            let coop = w.coop.clone();
            if let Some(b) = &coop {
                if b.get() == 0 {
                    w.coop_pendings += 1;
                    cx.waker().wake_by_ref();
                    return Poll::Pending;
                }
            }
            match w.write_pending_left {
                Some(n) if n > 0 => {
                    w.write_pending_left = Some(n - 1);
                    cx.waker().wake_by_ref();
                    return Poll::Pending;
                }
                _ => {}
            }
            w.write_pending_left = None;
            if let Some(b) = &coop {
                b.set(b.get().saturating_sub(1));
            }
            let idx = w.write_calls;
            w.write_calls += 1;
            if w.write_broken || w.fail_write_at == Some(idx) {
                w.write_broken = true;
                use std::io::ErrorKind as K;
                let kind = match w.write_err_kind {
                    1 => K::TimedOut,
                    2 => K::WouldBlock,
                    3 => K::Interrupted,
                    4 => K::BrokenPipe,
                    _ => K::ConnectionReset,
                };
                return Poll::Ready(Err(zlink_core::Error::Io(std::io::Error::new(kind, "injected fault"))));
            }
            w.writes.push(buf.to_vec());
            Poll::Ready(Ok(()))
        })
        .await
    }
}

/// Listener whose connections are released by the harness.
#[derive(Debug, Default)]
pub struct ListenQueue {
    pub pending: VecDeque<WireRef>,
    pub accepted: usize,
    pub accept_polls: usize,
    pub accept_waker: crate::WakeSlot,
}

impl ListenQueue {
    /// A client connects.
    pub fn release(&mut self, w: WireRef) {
        self.pending.push_back(w);
        self.accept_waker.fire();
    }
}
pub type ListenRef = Rc<RefCell<ListenQueue>>;

#[derive(Debug)]
pub struct VListener(pub ListenRef);

pub fn new_listener() -> (VListener, ListenRef) {
    let q: ListenRef = Rc::new(RefCell::new(ListenQueue::default()));
    (VListener(q.clone()), q)
}

impl zlink_core::Listener for VListener {
    type Socket = VSocket;
    async fn accept(&mut self) -> zlink_core::Result<zlink_core::Connection<VSocket>> {
        let q = self.0.clone();
        poll_fn(move |cx| {
            let mut q = q.borrow_mut();
            q.accept_polls += 1;
            match q.pending.pop_front() {
                Some(w) => {
                    q.accepted += 1;
                    Poll::Ready(Ok(zlink_core::Connection::new(VSocket(w))))
                }
                None => {
                    q.accept_waker.register(cx);
                    Poll::Pending
                }
            }
        })
        .await
    }
}

/// Split a byte stream at NUL into frames. Returns (frames, trailing unterminated fragment).
pub fn split_frames(bytes: &[u8]) -> (Vec<&[u8]>, &[u8]) {
    let mut out = Vec::new();
    let mut start = 0;
    for (i, b) in bytes.iter().enumerate() {
        if *b == 0 {
            out.push(&bytes[start..i]);
            start = i + 1;
        }
    }
    (out, &bytes[start..])
}

/// Cut `bytes` into chunks at the given sorted cut positions (0 < c < len).
pub fn chunks_at(bytes: &[u8], cuts: &[usize]) -> Vec<Vec<u8>> {
    let mut out = Vec::new();
    let mut prev = 0;
    for &c in cuts {
        if c > prev && c < bytes.len() {
            out.push(bytes[prev..c].to_vec());
            prev = c;
        }
    }
    if prev < bytes.len() {
        out.push(bytes[prev..].to_vec());
    }
    out
}

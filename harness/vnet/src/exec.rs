//! Poll-by-poll executor with a no-op waker.

use core::{
    future::Future,
    pin::Pin,
    task::{Context, Poll, Waker},
};

/// Poll a pinned future once.
pub fn poll_once<F: Future + ?Sized>(fut: Pin<&mut F>) -> Poll<F::Output> {
    let mut cx = Context::from_waker(Waker::noop());
    fut.poll(&mut cx)
}

/// Poll until the future completes or `max_polls` consecutive polls returned `Pending`.
///
/// With the virtual transport a future that is `Pending` twice in a row without the harness
/// having changed anything will be pending forever, but scripted `Pending` events are consumed one
/// per poll, so the caller says how many it is prepared to sit through.
pub fn run_until_stalled<F: Future + ?Sized>(
    mut fut: Pin<&mut F>,
    max_polls: usize,
) -> Poll<F::Output> {
    for _ in 0..max_polls {
        if let Poll::Ready(v) = poll_once(fut.as_mut()) {
            return Poll::Ready(v);
        }
    }
    Poll::Pending
}

/// Drive a future to completion; panics (harness error) if it stalls for `max_polls` polls.
pub fn block_on<F: Future>(fut: F, max_polls: usize) -> Option<F::Output> {
    let mut fut = core::pin::pin!(fut);
    match run_until_stalled(fut.as_mut(), max_polls) {
        Poll::Ready(v) => Some(v),
        Poll::Pending => None,
    }
}

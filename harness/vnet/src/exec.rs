//! Poll-by-poll executor with a no-op waker, plus a wake-driven variant: a waker that records
//! whether it was woken, so that the harness can behave like a real runtime (poll a task again
//! only after its waker fired) and observe lost wake-ups.

use core::{
    future::Future,
    pin::Pin,
    task::{Context, Poll, Waker},
};
use std::{
    cell::{Cell, RefCell},
    collections::HashMap,
    sync::{
        atomic::{AtomicBool, AtomicU64, Ordering},
        Arc,
    },
    task::Wake,
};

thread_local! {
    /// (task id, number of the top-level poll in progress) while a task is being polled through
    /// `WakeFlag::poll`, (0, 0) otherwise.
    static CURRENT: Cell<(u64, u64)> = const { Cell::new((0, 0)) };
    /// Number of top-level polls made so far, per task id.
    static GENS: RefCell<HashMap<u64, u64>> = RefCell::new(HashMap::new());
}
static NEXT_TASK: AtomicU64 = AtomicU64::new(1);

/// A task handle as a runtime keeps it: "has the waker fired since the last poll".
#[derive(Debug)]
pub struct WakeFlag {
    id: u64,
    woken: AtomicBool,
    pub wakes: AtomicU64,
}

impl Wake for WakeFlag {
    fn wake(self: Arc<Self>) {
        self.wake_by_ref()
    }
    fn wake_by_ref(self: &Arc<Self>) {
        self.woken.store(true, Ordering::SeqCst);
        self.wakes.fetch_add(1, Ordering::SeqCst);
    }
}

impl WakeFlag {
    pub fn new() -> Arc<Self> {
        Arc::new(WakeFlag { id: NEXT_TASK.fetch_add(1, Ordering::SeqCst), woken: AtomicBool::new(false), wakes: AtomicU64::new(0) })
    }
    /// Was the waker fired since the last `poll` (clears the flag).
    pub fn take(&self) -> bool {
        self.woken.swap(false, Ordering::SeqCst)
    }
    pub fn is_set(&self) -> bool {
        self.woken.load(Ordering::SeqCst)
    }
    /// Poll `fut` once with this flag as the waker (the flag is cleared first, as a runtime does
    /// when it takes a task off its run queue).
    pub fn poll<F: Future + ?Sized>(self: &Arc<Self>, fut: Pin<&mut F>) -> Poll<F::Output> {
        self.woken.store(false, Ordering::SeqCst);
        let gen = GENS.with(|g| {
            let mut g = g.borrow_mut();
            let e = g.entry(self.id).or_insert(0);
            *e += 1;
            *e
        });
        let prev = CURRENT.with(|c| c.replace((self.id, gen)));
        let waker = Waker::from(self.clone());
        let mut cx = Context::from_waker(&waker);
        let r = fut.poll(&mut cx);
        CURRENT.with(|c| c.set(prev));
        r
    }
}

impl Drop for WakeFlag {
    fn drop(&mut self) {
        let _ = GENS.try_with(|g| g.borrow_mut().remove(&self.id));
    }
}

/// A waker registration kept by a virtual source of readiness. A registration is honoured only if it
/// was made during the most recent top-level poll of its task: a future that returned `Pending` must
/// have registered, during that very poll, with everything it is waiting for (registrations made by
/// futures of earlier polls are void, as they are with a real reactor once those futures are dropped).
#[derive(Debug, Default)]
pub struct WakeSlot(Option<(u64, u64, Waker)>);

impl WakeSlot {
    /// The source returned `Pending`: remember who to wake.
    pub fn register(&mut self, cx: &Context<'_>) {
        let (id, gen) = CURRENT.with(|c| c.get());
        self.0 = Some((id, gen, cx.waker().clone()));
    }
    /// The source became ready: wake the registered task, if the registration is current.
    pub fn fire(&mut self) {
        if let Some((id, gen, w)) = self.0.take() {
            let current = id == 0 || GENS.with(|g| g.borrow().get(&id).copied()) == Some(gen);
            if current {
                w.wake();
            }
        }
    }
    pub fn clear(&mut self) {
        self.0 = None;
    }
}

/// Poll a pinned future once.
pub fn poll_once<F: Future + ?Sized>(fut: Pin<&mut F>) -> Poll<F::Output> {
    let mut cx = Context::from_waker(Waker::noop());
    fut.poll(&mut cx)
}

/// Poll until the future completes or `max_polls` consecutive polls returned `Pending`.
///
/// With the virtual transport a future that is `Pending` twice in a row without the harness
/// having changed anything will be pending forever, but scripted `Pending` events are consumed one
/// per poll, so the caller says how many it is prepared to sit through.
pub fn run_until_stalled<F: Future + ?Sized>(
    mut fut: Pin<&mut F>,
    max_polls: usize,
) -> Poll<F::Output> {
    for _ in 0..max_polls {
        if let Poll::Ready(v) = poll_once(fut.as_mut()) {
            return Poll::Ready(v);
        }
    }
    Poll::Pending
}

/// Drive a future to completion; panics (harness error) if it stalls for `max_polls` polls.
pub fn block_on<F: Future>(fut: F, max_polls: usize) -> Option<F::Output> {
    let mut fut = core::pin::pin!(fut);
    match run_until_stalled(fut.as_mut(), max_polls) {
        Poll::Ready(v) => Some(v),
        Poll::Pending => None,
    }
}

//! Poll-by-poll executor with a no-op waker, plus a wake-driven variant: a waker that records
//! whether it was woken, so that the harness can behave like a real runtime (poll a task again
//! only after its waker fired) and observe lost wake-ups.

use core::{
    future::Future,
    pin::Pin,
    task::{Context, Poll, Waker},
};
use std::{
    cell::{Cell, RefCell},
    collections::HashMap,
    sync::{
        atomic::{AtomicBool, AtomicU64, Ordering},
        Arc,
    },
    task::Wake,
};

thread_local! {
    /// (task id, number of the top-level poll in progress) while a task is being polled through
    /// `WakeFlag::poll`, (0, 0) otherwise.
    static CURRENT: Cell<(u64, u64)> = const { Cell::new((0, 0)) };
    /// Number of top-level polls made so far, per task id.
    static GENS: RefCell<HashMap<u64, u64>> = RefCell::new(HashMap::new());
}
static NEXT_TASK: AtomicU64 = AtomicU64::new(1);

thread_local! {
    /// The waker of the task being polled through `WakeFlag::poll` (to recognise registrations made
    /// with that very waker).
    static CUR_WAKER: RefCell<Option<Waker>> = const { RefCell::new(None) };
    /// Registrations made with the current task's waker during the current top-level poll.
    static REGS: Cell<u64> = const { Cell::new(0) };
    /// Top-level polls that returned `Pending` although the task's waker neither fired during the poll
    /// nor was registered with any source of readiness: whoever is polled like that is never polled again
    /// by a runtime (the contract of `Future::poll`). Counted, with the first few described.
    static BREACHES: RefCell<(u64, Vec<String>)> = const { RefCell::new((0, Vec::new())) };
    /// Whether `poll_once` (and everything built on it) polls through a per-thread task handle and
    /// checks that contract, instead of using a no-op waker.
    static CONTRACT_CHECK: Cell<bool> = const { Cell::new(false) };
    static HARNESS_TASK: Arc<WakeFlag> = WakeFlag::new();
}

/// Switch the wake-up contract check of `poll_once` on (only sound when every leaf source of readiness
/// that the polled futures can wait on is one of the virtual ones in this crate).
pub fn enable_wake_contract_check(on: bool) {
    CONTRACT_CHECK.with(|c| c.set(on));
}

/// (number of breaches of the wake-up contract observed on this thread, descriptions of the first few)
pub fn take_wake_contract_breaches() -> (u64, Vec<String>) {
    BREACHES.with(|b| std::mem::take(&mut *b.borrow_mut()))
}

/// A task handle as a runtime keeps it: "has the waker fired since the last poll".
#[derive(Debug)]
pub struct WakeFlag {
    id: u64,
    woken: AtomicBool,
    pub wakes: AtomicU64,
}

impl Wake for WakeFlag {
    fn wake(self: Arc<Self>) {
        self.wake_by_ref()
    }
    fn wake_by_ref(self: &Arc<Self>) {
        self.woken.store(true, Ordering::SeqCst);
        self.wakes.fetch_add(1, Ordering::SeqCst);
    }
}

impl WakeFlag {
    pub fn new() -> Arc<Self> {
        Arc::new(WakeFlag { id: NEXT_TASK.fetch_add(1, Ordering::SeqCst), woken: AtomicBool::new(false), wakes: AtomicU64::new(0) })
    }
    /// Was the waker fired since the last `poll` (clears the flag).
    pub fn take(&self) -> bool {
        self.woken.swap(false, Ordering::SeqCst)
    }
    pub fn is_set(&self) -> bool {
        self.woken.load(Ordering::SeqCst)
    }
    /// Poll `fut` once with this flag as the waker (the flag is cleared first, as a runtime does
    /// when it takes a task off its run queue).
    pub fn poll<F: Future + ?Sized>(self: &Arc<Self>, fut: Pin<&mut F>) -> Poll<F::Output> {
        self.woken.store(false, Ordering::SeqCst);
        let gen = GENS.with(|g| {
            let mut g = g.borrow_mut();
            let e = g.entry(self.id).or_insert(0);
            *e += 1;
            *e
        });
        let prev = CURRENT.with(|c| c.replace((self.id, gen)));
        let waker = Waker::from(self.clone());
        let prev_waker = CUR_WAKER.with(|w| w.replace(Some(waker.clone())));
        let prev_regs = REGS.with(|r| r.replace(0));
        let mut cx = Context::from_waker(&waker);
        let r = fut.poll(&mut cx);
        let regs = REGS.with(|r| r.replace(prev_regs));
        CUR_WAKER.with(|w| *w.borrow_mut() = prev_waker);
        CURRENT.with(|c| c.set(prev));
        if r.is_pending() && regs == 0 && !self.is_set() {
            if std::env::var_os("VNET_BREACH_PANIC").is_some() {
                panic!("wake-up contract breach in {}", core::any::type_name::<F>());
            }
            BREACHES.with(|b| {
                let mut b = b.borrow_mut();
                b.0 += 1;
                if b.1.len() < 3 {
                    b.1.push(format!("{} returned Pending without waking its task or registering its waker with any source", core::any::type_name::<F>()));
                }
            });
        }
        r
    }
}

impl Drop for WakeFlag {
    fn drop(&mut self) {
        let _ = GENS.try_with(|g| g.borrow_mut().remove(&self.id));
    }
}

/// A waker registration kept by a virtual source of readiness. A registration is honoured only if it
/// was made during the most recent top-level poll of its task: a future that returned `Pending` must
/// have registered, during that very poll, with everything it is waiting for (registrations made by
/// futures of earlier polls are void, as they are with a real reactor once those futures are dropped).
#[derive(Debug, Default)]
pub struct WakeSlot(Option<(u64, u64, Waker)>);

impl WakeSlot {
    /// The source returned `Pending`: remember who to wake.
    pub fn register(&mut self, cx: &Context<'_>) {
        let (id, gen) = CURRENT.with(|c| c.get());
        // same task = same `Arc<WakeFlag>` behind the waker (vtable addresses are not compared: they are not
        // unique, and deliberately unstable under Miri)
        if CUR_WAKER.with(|w| w.borrow().as_ref().is_some_and(|w| w.data() == cx.waker().data())) {
            REGS.with(|r| r.set(r.get() + 1));
            self.0 = Some((id, gen, cx.waker().clone()));
        } else {
            // registered with somebody else's waker (e.g. a no-op one inside `now_or_never`): waking it
            // does not reach the task
            self.0 = Some((0, 0, cx.waker().clone()));
        }
    }
    /// The source became ready: wake the registered task, if the registration is current.
    pub fn fire(&mut self) {
        if let Some((id, gen, w)) = self.0.take() {
            let current = id == 0 || GENS.with(|g| g.borrow().get(&id).copied()) == Some(gen);
            if current {
                w.wake();
            }
        }
    }
    pub fn clear(&mut self) {
        self.0 = None;
    }
}

/// Poll a pinned future once.
pub fn poll_once<F: Future + ?Sized>(fut: Pin<&mut F>) -> Poll<F::Output> {
    if CONTRACT_CHECK.with(|c| c.get()) {
        let task = HARNESS_TASK.with(|t| t.clone());
        return task.poll(fut);
    }
    let mut cx = Context::from_waker(Waker::noop());
    fut.poll(&mut cx)
}

/// Poll until the future completes or `max_polls` consecutive polls returned `Pending`.
///
/// With the virtual transport a future that is `Pending` twice in a row without the harness
/// having changed anything will be pending forever, but scripted `Pending` events are consumed one
/// per poll, so the caller says how many it is prepared to sit through.
pub fn run_until_stalled<F: Future + ?Sized>(
    mut fut: Pin<&mut F>,
    max_polls: usize,
) -> Poll<F::Output> {
    for _ in 0..max_polls {
        if let Poll::Ready(v) = poll_once(fut.as_mut()) {
            return Poll::Ready(v);
        }
    }
    Poll::Pending
}

/// Drive a future to completion; panics (harness error) if it stalls for `max_polls` polls.
pub fn block_on<F: Future>(fut: F, max_polls: usize) -> Option<F::Output> {
    let mut fut = core::pin::pin!(fut);
    match run_until_stalled(fut.as_mut(), max_polls) {
        Poll::Ready(v) => Some(v),
        Poll::Pending => None,
    }
}

//! Virtual transport, deterministic executor, PRNG and report plumbing shared by all monitors.
//!
//! Everything here is single-threaded on purpose: `Server::run` is not `Send` and the point of the
//! virtual transport is that *the harness* is the only source of readiness, so that a schedule is
//! plain data.

pub mod exec;
pub mod json;
pub mod report;
pub mod rng;
pub mod sock;
pub mod trace;
pub mod warm;

pub use exec::*;
pub use report::*;
pub use rng::{fnv, fnv_mix, Rng};
pub use sock::*;
pub use warm::{warm_up, warm_up_kind, with_history};

//! xoshiro256** seeded through SplitMix64. No external crates.

#[derive(Clone, Debug)]
pub struct Rng {
    s: [u64; 4],
}

fn splitmix(x: &mut u64) -> u64 {
    *x = x.wrapping_add(0x9E37_79B9_7F4A_7C15);
    let mut z = *x;
    z = (z ^ (z >> 30)).wrapping_mul(0xBF58_476D_1CE4_E5B9);
    z = (z ^ (z >> 27)).wrapping_mul(0x94D0_49BB_1331_11EB);
    z ^ (z >> 31)
}

impl Rng {
    pub fn new(seed: u64) -> Self {
        let mut x = seed;
        let s = [
            splitmix(&mut x),
            splitmix(&mut x),
            splitmix(&mut x),
            splitmix(&mut x),
        ];
        Rng { s }
    }

    /// Derive an independent generator for (seed, stream).
    pub fn derive(seed: u64, stream: u64) -> Self {
        Rng::new(seed ^ stream.wrapping_mul(0xD6E8_FEB8_6659_FD93).rotate_left(17))
    }

    pub fn next_u64(&mut self) -> u64 {
        let r = self.s[1].wrapping_mul(5).rotate_left(7).wrapping_mul(9);
        let t = self.s[1] << 17;
        self.s[2] ^= self.s[0];
        self.s[3] ^= self.s[1];
        self.s[1] ^= self.s[2];
        self.s[0] ^= self.s[3];
        self.s[2] ^= t;
        self.s[3] = self.s[3].rotate_left(45);
        r
    }

    /// Uniform in `0..n` (n > 0).
    pub fn below(&mut self, n: usize) -> usize {
        debug_assert!(n > 0);
        ((self.next_u64() as u128 * n as u128) >> 64) as usize
    }

    /// Uniform in `lo..=hi`.
    pub fn range(&mut self, lo: usize, hi: usize) -> usize {
        lo + self.below(hi - lo + 1)
    }

    pub fn chance(&mut self, num: usize, den: usize) -> bool {
        self.below(den) < num
    }

    pub fn pick<'a, T>(&mut self, xs: &'a [T]) -> &'a T {
        &xs[self.below(xs.len())]
    }

    pub fn shuffle<T>(&mut self, xs: &mut [T]) {
        for i in (1..xs.len()).rev() {
            let j = self.below(i + 1);
            xs.swap(i, j);
        }
    }
}

/// FNV-1a, used to count distinct schedules / inputs without storing them.
pub fn fnv(bytes: &[u8]) -> u64 {
    let mut h = 0xcbf2_9ce4_8422_2325u64;
    for b in bytes {
        h ^= *b as u64;
        h = h.wrapping_mul(0x0100_0000_01b3);
    }
    h
}

pub fn fnv_mix(h: u64, v: u64) -> u64 {
    let mut h = h;
    for b in v.to_le_bytes() {
        h ^= b as u64;
        h = h.wrapping_mul(0x0100_0000_01b3);
    }
    h
}

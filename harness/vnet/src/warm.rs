//! Connection histories for drivers of generated methods: what an earlier exchange leaves behind in a
//! connection must not change what a generated method puts on the wire or how it classifies a reply.

use crate::{Rng, Rx, VSocket, WireRef};
use serde_json::{json, Value};
use zlink_core::Connection;

/// What happened on the connection before the call that is judged (the generated methods must behave the
/// same whatever an earlier exchange left behind in the connection): returns the kind of history made.
///   0 nothing; 1 a plain exchange; 2 a `more` exchange (two continuing replies and a final one);
///   3 a `more` exchange that ended with an error; 4 an exchange answered with an error; 5 a 3 KB call and a
///   3 KB reply (both buffers grown); 6 a oneway call; 7 two pipelined exchanges; 8 messages that were refused
///   (a call whose parameters cannot be encoded, offered to enqueue_call, send_call and as the first call of a chain);
///   9 an exchange made through a chain (two calls, replies taken from its stream); 10 a receive that was abandoned
///   while it waited, then the exchange completed by a later receive
pub const HISTORIES: u8 = 11;
pub fn warm_up(conn: &mut Connection<VSocket>, wire: &WireRef, rng: &mut Rng) -> u8 {
    let kind = rng.below(HISTORIES as usize) as u8;
    warm_up_kind(conn, wire, kind);
    kind
}

/// The same with a given kind of history (0..=7).
pub fn warm_up_kind(conn: &mut Connection<VSocket>, wire: &WireRef, kind: u8) {
    use zlink_core::Call;
    let call = |m: &str, more: bool, oneway: bool, pad: usize| Call::new(json!({"method": m, "parameters": {"pad": "p".repeat(pad)}})).set_more(more).set_oneway(oneway);
    let push = |frames: &[String]| {
        let mut w = wire.borrow_mut();
        for f in frames {
            let mut b = f.clone().into_bytes();
            b.push(0);
            w.push(Rx::Bytes(b));
        }
    };
    let recv = |conn: &mut Connection<VSocket>, n: usize| {
        for _ in 0..n {
            let _ = crate::block_on(conn.receive_reply::<Value, Value>(), 8);
        }
    };
    match kind {
        0 => {}
        1 => {
            push(&[r#"{"parameters":{"x":1}}"#.to_string()]);
            let _ = crate::block_on(conn.send_call(&call("h.One", false, false, 3)), 8);
            recv(conn, 1);
        }
        2 => {
            push(&[r#"{"parameters":{"x":1},"continues":true}"#.to_string(), r#"{"continues":true,"parameters":{"x":2}}"#.to_string(), r#"{"parameters":{"x":3}}"#.to_string()]);
            let _ = crate::block_on(conn.send_call(&call("h.Watch", true, false, 3)), 8);
            recv(conn, 3);
        }
        3 => {
            push(&[r#"{"parameters":{"x":1},"continues":true}"#.to_string(), r#"{"error":"h.Gone","parameters":{"why":"x"}}"#.to_string()]);
            let _ = crate::block_on(conn.send_call(&call("h.Watch", true, false, 3)), 8);
            recv(conn, 2);
        }
        4 => {
            push(&[r#"{"error":"h.Nope"}"#.to_string()]);
            let _ = crate::block_on(conn.send_call(&call("h.One", false, false, 3)), 8);
            recv(conn, 1);
        }
        5 => {
            push(&[format!(r#"{{"parameters":{{"x":"{}"}}}}"#, "r".repeat(3000))]);
            let _ = crate::block_on(conn.send_call(&call("h.Big", false, false, 3000)), 8);
            recv(conn, 1);
        }
        6 => {
            let _ = crate::block_on(conn.send_call(&call("h.Fire", false, true, 3)), 8);
        }
        8 => {
            #[derive(serde::Serialize, Debug)]
            struct Bad {
                method: &'static str,
                parameters: std::collections::BTreeMap<(u8, u8), u8>,
            }
            let bad = || Call::new(Bad { method: "h.Bad", parameters: [((1, 2), 3)].into_iter().collect() });
            let a = conn.enqueue_call(&bad()).is_err();
            let b = conn.chain_call::<Bad, Value, Value>(&bad()).is_err();
            let c = matches!(crate::block_on(conn.send_call(&bad()), 8), Some(Err(_)));
            let d = conn.chain_call::<Bad, Value, Value>(&bad().set_more(true)).is_err();
            assert!(a && b && c && d, "a call with tuple-keyed parameters must be refused");
        }
        9 => {
            use futures_util::StreamExt;
            push(&[r#"{"parameters":{"x":1}}"#.to_string(), r#"{"parameters":{"x":2},"continues":false}"#.to_string()]);
            if let Ok(chain) = conn.chain_call::<Value, Value, Value>(&call("h.One", false, false, 3)) {
                if let Ok(chain) = chain.append(&call("h.Fire", false, true, 1)).and_then(|c| c.append(&call("h.Two", false, false, 2))) {
                    if let Some(Ok(st)) = crate::block_on(chain.send(), 8) {
                        let mut st = core::pin::pin!(st);
                        for _ in 0..3 {
                            if !matches!(crate::block_on(st.next(), 8), Some(Some(_))) {
                                break;
                            }
                        }
                    }
                }
            }
        }
        10 => {
            let _ = crate::block_on(conn.send_call(&call("h.Slow", false, false, 3)), 8);
            // half of the reply is there; the receive is given up while it waits for the rest
            let reply = br#"{"parameters":{"x":"a reply that arrives in two pieces"}}"#;
            wire.borrow_mut().push(Rx::Bytes(reply[..20].to_vec()));
            {
                let fut = conn.receive_reply::<Value, Value>();
                let mut fut = core::pin::pin!(fut);
                let _ = crate::poll_once(fut.as_mut());
                let _ = crate::poll_once(fut.as_mut());
            }
            let mut rest = reply[20..].to_vec();
            rest.push(0);
            wire.borrow_mut().push(Rx::Bytes(rest));
            recv(conn, 1);
        }
        _ => {
            push(&[r#"{"parameters":{"x":1}}"#.to_string(), r#"{"parameters":{"x":2}}"#.to_string()]);
            let _ = conn.enqueue_call(&call("h.One", false, false, 3));
            let _ = crate::block_on(conn.send_call(&call("h.Two", false, false, 300)), 8);
            recv(conn, 2);
        }
    }
    // what the judged call writes and reads is counted from here
    let mut w = wire.borrow_mut();
    w.writes.clear();
    w.write_calls = 0;
    w.read_polls = 0;
    w.read_polls_when_empty = 0;
}

pub fn with_history(ctx: &str, kind: u8) -> String {
    if kind == 0 {
        ctx.to_string()
    } else {
        format!("{ctx} [after connection history {kind}]")
    }
}


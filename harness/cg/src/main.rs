//! `cg <seed> <quick|thorough> <outdir>` — builds the C15 corpus: generates interface
//! descriptions (names with acronyms, digits, camelCase / snake_case, Rust keywords), runs
//! `zlink_codegen` on each as a library, and writes the generated modules next to drivers and
//! expectations computed from the IDL tree.

#[allow(dead_code)]
#[path = "../../zv/src/idl.rs"]
mod idl;

use heck::{ToPascalCase, ToSnakeCase};
use idl::*;
use std::collections::HashSet;
use std::fmt::Write;
use vnet::Rng;

const KEYWORDS: &[&str] = &[
    "as", "async", "await", "break", "const", "continue", "crate", "dyn", "else", "enum", "extern", "false", "fn", "for", "if", "impl", "in", "let", "loop", "match", "mod", "move", "mut", "pub", "ref",
    "return", "self", "Self", "static", "struct", "super", "trait", "true", "type", "unsafe", "use", "where", "while",
];
/// keywords that cannot even be raw identifiers
const NOT_RAW: &[&str] = &["self", "Self", "crate", "super"];

fn member_name(rng: &mut Rng) -> String {
    const POOL: &[&str] = &[
        "Get", "GetURL", "NotOK", "IPv6", "Get2FA", "ListAll", "HTTPStatus", "SetX", "A", "Ab", "ABC", "Type", "Match", "Loop", "Info", "GetInfo2", "V2", "X509Cert", "IOError", "DoIt", "OK", "Ping", "URLOf", "ToJSON",
        "Add", "Remove", "Move", "Ref", "Use", "Mod", "Fn", "In", "As", "Box2D",
    ];
    let mut s = rng.pick(POOL).to_string();
    if rng.chance(1, 3) {
        s.push_str(*rng.pick(POOL));
    }
    if rng.chance(1, 5) {
        s.push_str(&rng.below(100).to_string());
    }
    s
}

fn field_name_c15(rng: &mut Rng) -> String {
    const POOL: &[&str] = &[
        "name", "id", "fooBar", "foo_bar", "type", "match", "loop", "move", "ref", "fn", "in", "as", "use", "mod", "URL", "userID", "x1", "a", "ipV6", "is_ok", "Count", "httpStatusCode", "v2_api", "self_", "value", "async",
        "await", "dyn", "struct", "enum", "trait", "where", "while", "for", "if", "else", "let", "mut", "pub", "static", "const", "true", "false", "box", "try",
        // spellings that only become a Rust keyword once they are converted to snake_case
        "Type", "Match", "Loop", "Ref", "Box", "In", "Final", "Move", "Fn", "Yield", "Try", "Async", "Abstract", "Override", "Where", "Use", "Mod", "Impl", "Dyn",
        // names that generated code (codegen output and the proxy / derive macros it relies on) may use for its own locals
        "method", "parameters", "call", "params", "reply", "result", "connection", "conn", "args", "out", "error", "more", "oneway", "upgrade", "socket", "stream",
        "chain", "send", "res", "err", "item", "ok", "e", "s", "f", "this", "continues", "interface", "fds", "buf", "serializer", "deserializer", "map", "seq", "key",
    ];
    let mut s = rng.pick(POOL).to_string();
    if s == "self_" {
        s = "selfRef".into();
    }
    if rng.chance(1, 4) {
        s.push_str(&["X", "2", "_y", "Z9"][rng.below(4)]);
    }
    s
}

fn variant_name(rng: &mut Rng) -> String {
    const POOL: &[&str] = &["active", "inactive", "fooBar", "foo_bar", "IPv6", "x1", "OK", "notOK", "a", "B", "http2", "type", "match", "snake_case_name", "camelCaseName", "PascalCase", "v4", "x86_64", "utf_8", "utf_16_le", "v1_2", "riscv_64", "a_1b", "Abc_9"];
    let mut s = rng.pick(POOL).to_string();
    if rng.chance(1, 5) {
        s.push_str(&rng.below(10).to_string());
    }
    s
}

/// IDL comments (codegen turns them into doc comments that sit next to generated attributes).
fn cm(rng: &mut Rng) -> Vec<String> {
    if rng.chance(1, 3) {
        (0..rng.range(1, 2)).map(|_| rng.pick(&["Returns the thing.", "", "Note: x > 0", "deprecated", "See `Other`"]).to_string()).collect()
    } else {
        vec![]
    }
}

fn unique(rng: &mut Rng, used: &mut HashSet<String>, conv: fn(&str) -> String, f: fn(&mut Rng) -> String) -> String {
    for _ in 0..200 {
        let n = f(rng);
        let key = conv(&n);
        if NOT_RAW.contains(&key.as_str()) || NOT_RAW.contains(&n.as_str()) {
            continue;
        }
        if used.insert(key) {
            return n;
        }
    }
    panic!("name pool exhausted");
}

fn snake(s: &str) -> String {
    s.to_snake_case()
}
fn pascal(s: &str) -> String {
    s.to_pascal_case()
}

fn gen_ty15(rng: &mut Rng, depth: usize, customs: &[String], optional_ok: bool, inline_ok: bool) -> GTy {
    if depth == 0 || rng.chance(2, 5) {
        // the empty inline struct `()`: the value set of `[string]()`, a marker field, a method that takes "nothing"
        if inline_ok && rng.chance(1, 14) {
            return GTy::Struct(Vec::new());
        }
        return match rng.below(if customs.is_empty() { 5 } else { 7 }) {
            0 => GTy::Bool,
            1 => GTy::Int,
            2 => GTy::Float,
            3 => GTy::Str,
            4 => GTy::Object,
            _ => GTy::Custom(rng.pick(customs).clone()),
        };
    }
    match rng.below(if optional_ok { 5 } else { 4 }) {
        0 => GTy::Array(Box::new(gen_ty15(rng, depth - 1, customs, true, inline_ok))),
        1 => GTy::Map(Box::new(gen_ty15(rng, depth - 1, customs, true, inline_ok))),
        2 if inline_ok => {
            let mut used = HashSet::new();
            let n = rng.range(1, 3);
            GTy::Enum((0..n).map(|_| GVariant { name: unique(rng, &mut used, |s| s.to_string(), variant_name), comments: vec![] }).collect())
        }
        3 if inline_ok => {
            let mut used = HashSet::new();
            let n = rng.range(1, 2);
            GTy::Struct((0..n).map(|_| GField { name: unique(rng, &mut used, snake, field_name_c15), comments: vec![], ty: gen_ty15(rng, depth - 1, customs, true, inline_ok) }).collect())
        }
        2 | 3 => GTy::Str,
        _ => GTy::Optional(Box::new(gen_ty15(rng, depth - 1, customs, false, inline_ok))),
    }
}

fn fields15(rng: &mut Rng, n: usize, customs: &[String]) -> Vec<GField> {
    let mut used = HashSet::new();
    (0..n)
        .map(|_| {
            let depth = rng.below(3);
            GField { name: unique(rng, &mut used, snake, field_name_c15), comments: cm(rng), ty: gen_ty15(rng, depth, customs, true, true) }
        })
        .collect()
}

fn gen_iface15(rng: &mut Rng, k: usize) -> GIface {
    let last = ["Svc", "manager", "API", "test1", "Net"][k % 5];
    let name = format!("{}.{}{}", ["org.example", "io.x", "com.acme.v2"][rng.below(3)], last, k);
    let trait_name = pascal(name.rsplit('.').next().unwrap());
    let mut type_names: HashSet<String> = HashSet::new();
    type_names.insert(trait_name.clone());
    type_names.insert(format!("{trait_name}Error"));
    let mut members = Vec::new();
    // custom types first (non-recursive: a type only refers to earlier ones)
    let ntypes = rng.below(4);
    let mut customs: Vec<String> = Vec::new();
    for _ in 0..ntypes {
        let n = unique(rng, &mut type_names, pascal, member_name);
        if rng.chance(1, 3) {
            let mut used = HashSet::new();
            let nv = rng.range(1, 5);
            // (no comments on variants: an enum with a commented variant renders without commas - the C14 known finding)
            members.push(GMember::Type { name: n.clone(), comments: cm(rng), body: GBody::Enum((0..nv).map(|_| GVariant { name: unique(rng, &mut used, pascal, variant_name), comments: vec![] }).collect()) });
        } else {
            let nf = rng.range(1, 4);
            members.push(GMember::Type { name: n.clone(), comments: cm(rng), body: GBody::Struct(fields15(rng, nf, &customs)) });
        }
        customs.push(n);
    }
    let nmeth = rng.range(1, 4);
    let mut meth_names: HashSet<String> = HashSet::new();
    for _ in 0..nmeth {
        // method names must stay distinct as Rust method names AND their `<Name>Output` structs as type names
        let n = loop {
            let n = member_name(rng);
            let out = format!("{}Output", pascal(&n));
            if !NOT_RAW.contains(&snake(&n).as_str()) && !meth_names.contains(&snake(&n)) && !type_names.contains(&out) && !type_names.contains(&pascal(&n)) {
                meth_names.insert(snake(&n));
                type_names.insert(out);
                break n;
            }
        };
        let (ni, no) = (rng.below(4), rng.below(3));
        members.push(GMember::Method { name: n, comments: cm(rng), inputs: fields15(rng, ni, &customs), outputs: fields15(rng, no, &customs) });
    }
    let nerr = rng.below(3);
    let mut err_names: HashSet<String> = HashSet::new();
    for _ in 0..nerr {
        let n = unique(rng, &mut err_names, pascal, member_name);
        let nf = rng.below(3);
        members.push(GMember::Error { name: n, comments: cm(rng), fields: fields15(rng, nf, &customs) });
    }
    GIface { name, comments: cm(rng), members }
}

// ---- emitting descriptors -----------------------------------------------------------------------

fn ty_expr(t: &GTy) -> String {
    match t {
        GTy::Bool => "Ty::Bool".into(),
        GTy::Int => "Ty::Int".into(),
        GTy::Float => "Ty::Float".into(),
        GTy::Str => "Ty::Str".into(),
        GTy::Object => "Ty::Object".into(),
        GTy::Optional(i) => format!("Ty::Optional(Box::new({}))", ty_expr(i)),
        GTy::Array(i) => format!("Ty::Array(Box::new({}))", ty_expr(i)),
        GTy::Map(i) => format!("Ty::Map(Box::new({}))", ty_expr(i)),
        GTy::Custom(n) => format!("Ty::Custom({n:?})"),
        GTy::Enum(vs) => format!("Ty::Enum(vec![{}])", vs.iter().map(|v| format!("{:?}", v.name)).collect::<Vec<_>>().join(", ")),
        GTy::Struct(fs) => format!("Ty::Struct({})", fields_expr(fs)),
    }
}

fn fields_expr(fs: &[GField]) -> String {
    format!("vec![{}]", fs.iter().map(|f| format!("({:?}, {})", f.name, ty_expr(&f.ty))).collect::<Vec<_>>().join(", "))
}

/// The Rust name codegen gives a method (keywords get a trailing underscore).
fn rust_ident(snake_name: &str) -> String {
    const RESERVED: &[&str] = &["abstract", "become", "box", "do", "final", "gen", "macro", "override", "priv", "try", "typeof", "unsized", "virtual", "yield"];
    if KEYWORDS.contains(&snake_name) || RESERVED.contains(&snake_name) {
        format!("{snake_name}_")
    } else {
        snake_name.to_string()
    }
}

/// A copy of the interface whose custom type and method names carry a suffix, so that several interfaces can
/// be generated into ONE module (`generate_interfaces`) without their types / output structs colliding.
fn group_copy(i: &GIface, j: usize) -> GIface {
    fn ty(t: &mut GTy, sfx: &str) {
        match t {
            GTy::Optional(i) | GTy::Array(i) | GTy::Map(i) => ty(i, sfx),
            GTy::Custom(n) => n.push_str(sfx),
            GTy::Struct(fs) => fs.iter_mut().for_each(|f| ty(&mut f.ty, sfx)),
            _ => {}
        }
    }
    let sfx = format!("X{j}");
    let mut c = i.clone();
    for m in &mut c.members {
        match m {
            GMember::Type { name, body, .. } => {
                name.push_str(&sfx);
                if let GBody::Struct(fs) = body {
                    fs.iter_mut().for_each(|f| ty(&mut f.ty, &sfx));
                }
            }
            GMember::Method { name, inputs, outputs, .. } => {
                name.push_str(&sfx);
                inputs.iter_mut().chain(outputs.iter_mut()).for_each(|f| ty(&mut f.ty, &sfx));
            }
            GMember::Error { fields, .. } => fields.iter_mut().for_each(|f| ty(&mut f.ty, &sfx)),
        }
    }
    c
}

fn driver(i: &GIface, k: usize) -> String {
    driver_in(i, k, &format!("m{k}"))
}

fn driver_in(i: &GIface, k: usize, module: &str) -> String {
    let mut s = String::new();
    let w = &mut s;
    writeln!(w, "//! generated: driver for interface {} (module {module})", i.name).unwrap();
    writeln!(w, "#![allow(unused, non_snake_case, clippy::all)]\nuse crate::prelude::*;\nuse super::{module}::*;\n").unwrap();
    writeln!(w, "pub const IDL: &str = {:?};\n", render(i, &mut Layout { rng: &mut Rng::new(1), wild: false })).unwrap();
    writeln!(w, "fn types() -> Types {{\n    let mut t = Types::new();").unwrap();
    for m in &i.members {
        if let GMember::Type { name, body, .. } = m {
            let e = match body {
                GBody::Struct(fs) => format!("Ty::Struct({})", fields_expr(fs)),
                GBody::Enum(vs) => format!("Ty::Enum(vec![{}])", vs.iter().map(|v| format!("{:?}", v.name)).collect::<Vec<_>>().join(", ")),
            };
            writeln!(w, "    t.insert({name:?}, {e});").unwrap();
        }
    }
    writeln!(w, "    t\n}}\n").unwrap();
    let errors: Vec<String> = i
        .members
        .iter()
        .filter_map(|m| if let GMember::Error { name, fields, .. } = m { Some(format!("({name:?}, {})", fields_expr(fields))) } else { None })
        .collect();
    writeln!(w, "fn errors() -> Vec<(&'static str, Vec<(&'static str, Ty)>)> {{\n    vec![{}]\n}}\n", errors.join(", ")).unwrap();
    let mut fns = Vec::new();
    for (mi, m) in i.members.iter().enumerate() {
        let GMember::Method { name, inputs, outputs, .. } = m else { continue };
        let f = format!("method_{mi}");
        fns.push(f.clone());
        writeln!(w, "pub fn {f}(rep: &mut Report, rng: &mut Rng) {{").unwrap();
        writeln!(w, "    let ctx = {:?};", format!("interface {} method {} (module {module})", i.name, name)).unwrap();
        writeln!(w, "    let types = types();\n    let mut params = Map::new();").unwrap();
        for (ai, a) in inputs.iter().enumerate() {
            writeln!(w, "    let a{ai} = gen_value_arg(&{}, &types, rng);", ty_expr(&a.ty)).unwrap();
            writeln!(w, "    params.insert({:?}.to_string(), a{ai}.clone());", a.name).unwrap();
        }
        writeln!(w, "    let outputs: Vec<(&'static str, Ty)> = {};", fields_expr(outputs)).unwrap();
        writeln!(w, "    let scripted = script_reply({:?}, &outputs, &errors(), &types, rng);", i.name).unwrap();
        writeln!(w, "    let wire = new_wire(0);\n    let mut conn = Connection::new(VSocket(wire.clone()));\n    let ctx = &with_history(ctx, warm_up(&mut conn, &wire, rng));\n    wire.borrow_mut().push(Rx::Bytes(scripted.frame.clone()));").unwrap();
        let args: Vec<String> = (0..inputs.len()).map(|ai| format!("arb(&a{ai})?")).collect();
        writeln!(w, "    let got = vnet::catch(|| -> Result<String, String> {{").unwrap();
        writeln!(w, "        Ok(match vnet::block_on(conn.{}({}), 8) {{", rust_ident(&snake(name)), args.join(", ")).unwrap();
        writeln!(w, "            None => \"stalled\".to_string(),").unwrap();
        writeln!(w, "            Some(Ok(Ok(o))) => format!(\"ok:{{}}\", serde_json::to_value(&o).map_err(|e| e.to_string())?),").unwrap();
        writeln!(w, "            Some(Ok(Err(e))) => format!(\"err:{{}}\", serde_json::to_value(&e).map_err(|e| e.to_string())?),").unwrap();
        writeln!(w, "            Some(Err(e)) => format!(\"failure:{{e:?}}\"),").unwrap();
        writeln!(w, "        }})\n    }});").unwrap();
        writeln!(w, "    match got {{").unwrap();
        writeln!(w, "        Err(p) => rep.violation(\"C15/generated-code-panics\", format!(\"{{ctx}}: {{p}}\"), json!({{\"monitor\": \"c15\", \"ctx\": ctx}})),").unwrap();
        writeln!(w, "        Ok(Err(e)) => arg_failed(rep, ctx, &e),").unwrap();
        writeln!(w, "        Ok(Ok(g)) => {{\n            if check_call(rep, ctx, &wire, {:?}, &params) {{\n                check_reply(rep, ctx, &scripted, &g);\n            }}\n        }}", format!("{}.{}", i.name, name)).unwrap();
        writeln!(w, "    }}\n}}\n").unwrap();
    }
    writeln!(w, "pub fn all(rep: &mut Report, rng: &mut Rng) {{").unwrap();
    for f in &fns {
        writeln!(w, "    {f}(rep, rng);").unwrap();
    }
    writeln!(w, "}}\npub const METHODS: usize = {};", fns.len()).unwrap();
    s
}

fn shape_interfaces() -> Vec<GIface> {
    let leaves = [GTy::Str, GTy::Int, GTy::Bool, GTy::Object, GTy::Custom("Rec".into()), GTy::Custom("Kind".into())];
    let mut shapes: Vec<GTy> = leaves.to_vec();
    let wrap = |c: usize, t: GTy| match c {
        0 => GTy::Optional(Box::new(t)),
        1 => GTy::Array(Box::new(t)),
        _ => GTy::Map(Box::new(t)),
    };
    for c in 0..3 {
        for l in &leaves {
            shapes.push(wrap(c, l.clone()));
        }
    }
    for c1 in 0..3 {
        for c2 in 0..3 {
            if c1 == 0 && c2 == 0 {
                continue; // no `??`
            }
            for l in &leaves[..3] {
                shapes.push(wrap(c1, wrap(c2, l.clone())));
            }
        }
    }
    let mut out = Vec::new();
    for (ci, chunk) in shapes.chunks(12).enumerate() {
        let mut members = vec![
            GMember::Type { name: "Rec".into(), comments: vec![], body: GBody::Struct(vec![GField { name: "id".into(), comments: vec![], ty: GTy::Int }, GField { name: "label".into(), comments: vec![], ty: GTy::Optional(Box::new(GTy::Str)) }]) },
            GMember::Type { name: "Kind".into(), comments: vec![], body: GBody::Enum(vec![GVariant { name: "small".into(), comments: vec![] }, GVariant { name: "veryLarge".into(), comments: vec![] }]) },
        ];
        for (mi, pair) in chunk.chunks(2).enumerate() {
            let f = |n: &str, t: &GTy| GField { name: n.to_string(), comments: vec![], ty: t.clone() };
            // as inputs and as outputs, alone (so that nothing else decides e.g. lifetimes) and together
            members.push(GMember::Method { name: format!("In{mi}"), comments: vec![], inputs: pair.iter().enumerate().map(|(i, t)| f(&format!("p{i}"), t)).collect(), outputs: vec![] });
            for (i, t) in pair.iter().enumerate() {
                members.push(GMember::Method { name: format!("Out{mi}x{i}"), comments: vec![], inputs: vec![], outputs: vec![f("value", t)] });
            }
            members.push(GMember::Method { name: format!("Both{mi}"), comments: vec![], inputs: vec![], outputs: pair.iter().enumerate().map(|(i, t)| f(&format!("r{i}"), t)).collect() });
        }
        members.push(GMember::Error { name: "Shape".into(), comments: vec![], fields: chunk.iter().take(3).enumerate().map(|(i, t)| GField { name: format!("e{i}"), comments: vec![], ty: t.clone() }).collect() });
        out.push(GIface { name: format!("org.example.shapes{ci}"), comments: vec![], members });
    }
    out
}

fn main() {
    let args: Vec<String> = std::env::args().collect();
    let seed: u64 = args[1].parse().expect("seed");
    let size = args[2].as_str();
    let out = std::path::PathBuf::from(&args[3]);
    // modules to leave out of mod.rs (they did not compile; the caller reports them)
    let exclude: HashSet<usize> = args.get(4).map(|s| s.split(',').filter_map(|x| x.parse().ok()).collect()).unwrap_or_default();
    std::fs::create_dir_all(&out).unwrap();
    let n = if size == "quick" { 24 } else { 200 };
    let mut rng = Rng::derive(seed, 1515);
    let mut modrs = String::from("//! generated module list\n");
    let mut runs = String::new();
    let mut count = 0;
    let mut failed_codegen = Vec::new();
    // systematic part: every type shape up to depth 2 over {string, int, bool, object, a custom struct, a custom
    // enum} appears once as a parameter and once as an output (random generation alone misses rare shapes)
    let shapes = shape_interfaces();
    for k in 0..n + shapes.len() {
        let tree = if k < n { gen_iface15(&mut rng, k) } else { shapes[k - n].clone() };
        let text = render(&tree, &mut Layout { rng: &mut Rng::new(1), wild: false });
        let parsed = match zlink::idl::Interface::try_from(text.as_str()) {
            Ok(p) => p,
            Err(e) => {
                eprintln!("cg: interface {k} does not parse (C13's business, skipped): {e:?}");
                continue;
            }
        };
        let code = match zlink_codegen::generate_interface(&parsed) {
            Ok(c) => c,
            Err(e) => {
                failed_codegen.push(format!("{k}: {e}"));
                continue;
            }
        };
        // inner doc comments (`//!`) are only allowed at the top of a file: keep the generated file verbatim
        std::fs::write(out.join(format!("m{k}.rs")), format!("#![allow(unused, non_camel_case_types, non_snake_case, clippy::all)]\n{code}")).unwrap();
        std::fs::write(out.join(format!("d{k}.rs")), driver(&tree, k)).unwrap();
        if exclude.contains(&k) {
            continue;
        }
        writeln!(modrs, "pub mod m{k};\n#[cfg(feature = \"drivers\")]\npub mod d{k};").unwrap();
        writeln!(runs, "    d{k}::all(rep, rng);").unwrap();
        count += 1;
    }
    // several interfaces generated into one module, as the build-script / multi-file CLI use does
    let ngroups = if size == "quick" { 5 } else { 30 };
    let mut rngg = Rng::derive(seed, 1516);
    for g in 0..ngroups {
        let gk = 100_000 + g; // module number of the group (also the exclusion key)
        let members: Vec<GIface> = (0..rngg.range(2, 4)).map(|j| group_copy(&gen_iface15(&mut rngg, 10_000 + g * 10 + j), j)).collect();
        let texts: Vec<String> = members.iter().map(|t| render(t, &mut Layout { rng: &mut Rng::new(1), wild: false })).collect();
        let parsed: Vec<_> = texts.iter().filter_map(|t| zlink::idl::Interface::try_from(t.as_str()).ok()).collect();
        if parsed.len() != members.len() {
            continue;
        }
        let code = match zlink_codegen::generate_interfaces(&parsed) {
            Ok(c) => c,
            Err(e) => {
                failed_codegen.push(format!("group {g}: {e}"));
                continue;
            }
        };
        std::fs::write(out.join(format!("m{gk}.rs")), format!("#![allow(unused, non_camel_case_types, non_snake_case, clippy::all)]\n{code}")).unwrap();
        for (j, t) in members.iter().enumerate() {
            std::fs::write(out.join(format!("d{gk}_{j}.rs")), driver_in(t, gk, &format!("m{gk}"))).unwrap();
        }
        if exclude.contains(&gk) {
            continue;
        }
        writeln!(modrs, "pub mod m{gk};").unwrap();
        for j in 0..members.len() {
            writeln!(modrs, "#[cfg(feature = \"drivers\")]\npub mod d{gk}_{j};").unwrap();
            writeln!(runs, "    d{gk}_{j}::all(rep, rng);").unwrap();
        }
        count += members.len();
    }
    writeln!(modrs, "#[cfg(feature = \"drivers\")]\npub fn run_all(rep: &mut vnet::Report, rng: &mut vnet::Rng) {{\n{runs}}}").unwrap();
    writeln!(modrs, "pub const N_INTERFACES: usize = {count};\npub const CORPUS_SEED: u64 = {seed};\npub const CORPUS_SIZE: &str = {size:?};").unwrap();
    writeln!(modrs, "pub const CODEGEN_FAILURES: &[&str] = &[{}];", failed_codegen.iter().map(|f| format!("{f:?}")).collect::<Vec<_>>().join(", ")).unwrap();
    std::fs::write(out.join("mod.rs"), modrs).unwrap();
    println!("c15 corpus seed={seed} size={size}: {count} interfaces ({} excluded, {} refused by codegen) -> {}", exclude.len(), failed_codegen.len(), out.display());
}

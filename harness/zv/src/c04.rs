//! C04 — a reply carrying an error is never reported to the caller as success.
//!
//! The whole matrix reply frame x parameter type x error type x member order is enumerated and
//! pushed through `receive_reply`, `call_method` and generated proxy methods.

use crate::cfg::Cfg;
use crate::frames::{PBorrow, PStrict, EA, MA};
use serde::Deserialize;
use serde_json::{json, Value};
use vnet::{fnv, new_wire, Report, Rx, VSocket};
use zlink_core::{proxy, varlink_service, Call, Connection, Reply, ReplyError};

#[derive(Debug, Deserialize, PartialEq)]
pub struct AllOpt {
    a: Option<i32>,
    b: Option<String>,
}

#[derive(Debug, ReplyError, PartialEq)]
#[zlink(interface = "a", crate = "zlink_core")]
pub enum EEmpty {}

/// The error type of an interface that declares a single error without parameters: it has no size, yet a variant.
#[derive(Debug, ReplyError, PartialEq)]
#[zlink(interface = "a", crate = "zlink_core")]
pub enum EOne {
    NotFound,
}

/// ... and of one that declares a single error with parameters.
#[derive(Debug, ReplyError, PartialEq)]
#[zlink(interface = "a", crate = "zlink_core")]
pub enum EOneF {
    Bad { code: i32, why: String },
}

#[proxy(interface = "c04.I", crate = "zlink_core")]
pub trait P04 {
    async fn unit_ea(&mut self) -> zlink_core::Result<Result<(), EA>>;
    async fn allopt_ea(&mut self) -> zlink_core::Result<Result<AllOpt, EA>>;
    async fn value_ea(&mut self) -> zlink_core::Result<Result<Value, EA>>;
    async fn strict_ea(&mut self) -> zlink_core::Result<Result<PStrict, EA>>;
    async fn unit_empty(&mut self) -> zlink_core::Result<Result<(), EEmpty>>;
    async fn unit_svc(&mut self) -> zlink_core::Result<Result<(), varlink_service::Error>>;
    async fn allopt_empty(&mut self) -> zlink_core::Result<Result<AllOpt, EEmpty>>;
    async fn unit_one(&mut self) -> zlink_core::Result<Result<(), EOne>>;
    async fn value_one(&mut self) -> zlink_core::Result<Result<Value, EOne>>;
    async fn allopt_onef(&mut self) -> zlink_core::Result<Result<AllOpt, EOneF>>;
}

/// What the caller observed, canonically.
#[derive(Debug, Clone, PartialEq)]
enum Seen {
    Success(String),
    MethodError(String),
    ServiceError(String),
    Failed(String),
    Stalled,
}

fn seen_of<P: std::fmt::Debug, E: std::fmt::Debug>(r: Option<zlink_core::Result<zlink_core::reply::Result<P, E>>>) -> Seen {
    match r {
        None => Seen::Stalled,
        Some(Ok(Ok(rep))) => Seen::Success(format!("{:?}/c{:?}", rep.parameters(), rep.continues())),
        Some(Ok(Err(e))) => Seen::MethodError(format!("{e:?}")),
        Some(Err(zlink_core::Error::VarlinkService(e))) => Seen::ServiceError(format!("{e:?}")),
        Some(Err(e)) => Seen::Failed(format!("{e:?}")),
    }
}

fn seen_of_proxy<P: std::fmt::Debug, E: std::fmt::Debug>(r: Option<zlink_core::Result<Result<P, E>>>) -> Seen {
    match r {
        None => Seen::Stalled,
        Some(Ok(Ok(p))) => Seen::Success(format!("{p:?}")),
        Some(Ok(Err(e))) => Seen::MethodError(format!("{e:?}")),
        Some(Err(zlink_core::Error::VarlinkService(e))) => Seen::ServiceError(format!("{e:?}")),
        Some(Err(e)) => Seen::Failed(format!("{e:?}")),
    }
}

/// What the property demands, computed from the frame as a `Value` and direct decodes with the
/// caller's types — independent of the untagged wrapper inside `receive_reply`.
#[derive(Debug, Clone, PartialEq)]
enum Want {
    Success(String),
    /// `Ok(Ok(_))` forbidden; `parameters` does not decode as P
    FailedNoError,
    ServiceError(String),
    MethodError(String),
    /// carries an `error` member nobody recognises: anything but success
    NotSuccess,
    /// `"error": null` — the property does not say whether that is "carrying an error member"
    Grey,
}

struct Frame {
    text: String,
    family: &'static str,
}

fn permutations(members: &[&str]) -> Vec<Vec<usize>> {
    fn rec(k: usize, cur: &mut Vec<usize>, used: &mut Vec<bool>, out: &mut Vec<Vec<usize>>) {
        if cur.len() == k {
            out.push(cur.clone());
            return;
        }
        for i in 0..k {
            if !used[i] {
                used[i] = true;
                cur.push(i);
                rec(k, cur, used, out);
                cur.pop();
                used[i] = false;
            }
        }
    }
    let mut out = Vec::new();
    rec(members.len(), &mut Vec::new(), &mut vec![false; members.len()], &mut out);
    out
}

fn frames() -> Vec<Frame> {
    let mut specs: Vec<(&'static str, Vec<String>)> = Vec::new();
    let s = |x: &str| x.to_string();
    // successes
    let params = ["", "\"parameters\":null", "\"parameters\":{}", "\"parameters\":{\"a\":1}", "\"parameters\":{\"a\":1,\"b\":\"x\"}",
        "\"parameters\":{\"id\":1,\"name\":\"n\"}", "\"parameters\":{\"id\":\"wrong\",\"name\":1}", "\"parameters\":[1,2]", "\"parameters\":7"];
    for p in params {
        for c in ["", "\"continues\":true", "\"continues\":false"] {
            let mut m = vec![];
            if !p.is_empty() { m.push(s(p)); }
            if !c.is_empty() { m.push(s(c)); }
            specs.push(("success", m));
        }
    }
    // declared errors of EA
    for p in ["", "\"parameters\":null", "\"parameters\":{}", "\"parameters\":{\"code\":1,\"why\":\"w\"}", "\"parameters\":{\"a\":1}"] {
        let mut m = vec![s("\"error\":\"a.NotFound\"")];
        if !p.is_empty() { m.push(s(p)); }
        specs.push(("declared-unit-error", m));
    }
    for p in ["", "\"parameters\":null", "\"parameters\":{}", "\"parameters\":{\"code\":1,\"why\":\"w\"}", "\"parameters\":{\"code\":\"x\",\"why\":2}",
        "\"parameters\":{\"code\":1}", "\"parameters\":{\"code\":7,\"why\":\"tab\\there \\\"quoted\\\" back\\\\slash \\u00e9\"}", "\"parameters\":{\"code\":1,\"why\":\"w\",\"extra\":true}", "\"parameters\":{\"a\":1,\"b\":\"x\"}",
        "\"parameters\":{\"code\":340282366920938463463374607431768211455,\"why\":\"w\"}", "\"parameters\":{\"code\":1,\"why\":\"12345678901234567890123456789012345678901234567890\"}"] {
        let mut m = vec![s("\"error\":\"a.Bad\"")];
        if !p.is_empty() { m.push(s(p)); }
        specs.push(("declared-struct-error", m.clone()));
        let mut m2 = m;
        m2.push(s("\"continues\":false"));
        specs.push(("declared-struct-error", m2));
    }
    // undeclared names
    // (the last ones are written with JSON escapes: the name can then not be borrowed from the message)
    for name in ["io.systemd.System", "a.NotFoun", "A.NotFound", "a.NotFound2", "a.bad", "", "NotFound", "org.varlink.service", "org.varlink.service.Nope", "b.Gone",
        "io.systemd\\u002eSystem", "org.example.Caf\\u00e9.Closed", "a.\\u004eotFound", "a.Not\\nFound", "org.varlink.service.\\u004dethodNotFound"] {
        // (the last ones carry the widest integers, a float with dozens of digits and long runs of digits in a string)
        for p in ["", "\"parameters\":null", "\"parameters\":{}", "\"parameters\":{\"a\":1}", "\"parameters\":{\"id\":1,\"name\":\"n\"}", "\"parameters\":{\"errno\":5,\"origin\":\"x\"}",
            "\"parameters\":{\"a\":340282366920938463463374607431768211455}", "\"parameters\":{\"b\":\"serial 00000000000000000000000012345678901234567890\",\"a\":-170141183460469231731687303715884105728}",
            "\"parameters\":{\"a\":0.1234567890123456789012345678901234567890e-5}"] {
            let mut m = vec![format!("\"error\":\"{name}\"")];
            if !p.is_empty() { m.push(s(p)); }
            specs.push(("undeclared-error", m));
        }
    }
    // standard service errors
    let svc: [(&str, &str); 6] = [("InterfaceNotFound", "interface"), ("MethodNotFound", "method"), ("MethodNotImplemented", "method"), ("InvalidParameter", "parameter"), ("PermissionDenied", ""), ("ExpectedMore", "")];
    for (n, field) in svc {
        let right = if field.is_empty() { String::new() } else { format!("\"parameters\":{{\"{field}\":\"x.Y\"}}") };
        // (the parameter text also with characters that JSON must or may escape: such a string cannot be borrowed from the message)
        let escaped = if field.is_empty() { String::new() } else { format!("\"parameters\":{{\"{field}\":\"C:\\\\dir\\\\x.Y \\\"q\\\" line\\nbreak \\u00e9 \\/\"}}") };
        let variants = [right.clone(), escaped, s("\"parameters\":null"), s("\"parameters\":{}"), s("\"parameters\":{\"zzz\":1}"), format!("\"parameters\":{{\"{}\":5}}", if field.is_empty() { "q" } else { field }), s("\"parameters\":{\"a\":1,\"b\":\"x\"}")];
        for p in variants {
            let mut m = vec![format!("\"error\":\"org.varlink.service.{n}\"")];
            if !p.is_empty() { m.push(p); }
            specs.push(("service-error", m));
        }
        // the same names in other JSON spellings (escapes inside the prefix, inside the name, everywhere)
        let full = format!("org.varlink.service.{n}");
        let spellings = [
            full.replacen("varlink.", "varlink\\u002e", 1),
            full.replacen("org", "\\u006frg", 1),
            full.replacen("service", "serv\\u0069ce", 1),
            full.chars().map(|c| format!("\\u{:04x}", c as u32)).collect::<String>(),
            full.replace('/', "/"),
        ];
        for sp in spellings.iter().take(4) {
            let mut m = vec![format!("\"error\":\"{sp}\"")];
            if !right.is_empty() { m.push(right.clone()); }
            specs.push(("service-error", m));
        }
    }
    // `error` member that is not a string
    for e in ["5", "true", "{\"x\":1}", "[\"a.NotFound\"]", "null", "1.5"] {
        for p in ["", "\"parameters\":{}", "\"parameters\":{\"a\":1}", "\"parameters\":{\"id\":1,\"name\":\"n\"}"] {
            let mut m = vec![format!("\"error\":{e}")];
            if !p.is_empty() { m.push(s(p)); }
            specs.push((if e == "null" { "error-null" } else { "error-not-a-string" }, m));
        }
    }
    // every frame that carries an `error` member also with a `continues` member (an error that ends a
    // `more` stream, or a service that marks errors as continuing): classification must not depend on it
    let with_continues: Vec<(&'static str, Vec<String>)> = specs
        .iter()
        .filter(|(_, m)| !m.is_empty() && m[0].starts_with("\"error\"") && !m.iter().any(|x| x.starts_with("\"continues\"")))
        .flat_map(|(f, m)| {
            ["\"continues\":true", "\"continues\":false"].into_iter().map(move |c| {
                let mut m2 = m.clone();
                m2.push(c.to_string());
                (*f, m2)
            })
        })
        .collect();
    specs.extend(with_continues);
    // every frame once more with its member names spelled with JSON escapes (the same documents)
    let esc_first = |m: &String| -> String {
        // "name":value -> "\uXXXXame":value
        let inner = &m[1..];
        let c = inner.chars().next().unwrap();
        format!("\"\\u{:04x}{}", c as u32, &inner[c.len_utf8()..])
    };
    let escaped: Vec<(&'static str, Vec<String>)> = specs.iter().filter(|(_, m)| !m.is_empty()).map(|(f, m)| (*f, m.iter().map(esc_first).collect())).collect();
    specs.extend(escaped);
    let mut out = Vec::new();
    for (family, members) in specs {
        let refs: Vec<&str> = members.iter().map(|x| x.as_str()).collect();
        for perm in permutations(&refs) {
            let body: Vec<&str> = perm.iter().map(|i| refs[*i]).collect();
            out.push(Frame { text: format!("{{{}}}", body.join(",")), family });
        }
        // unknown extra member
        out.push(Frame { text: format!("{{{}}}", [refs.clone(), vec!["\"x-extra\":[1]"]].concat().join(",")), family });
    }
    out
}

/// Replies received on the same connection before the judged one.
const CONTEXTS: &[&[&str]] = &[
    &[],
    &["{\"parameters\":{\"a\":1},\"continues\":true}"],
    &["{\"parameters\":{\"a\":1},\"continues\":true}", "{\"continues\":true,\"parameters\":{\"id\":2,\"name\":\"m\"}}"],
    &["{\"error\":\"a.NotFound\"}"],
    &["{\"parameters\":{\"a\":1}}"],
    &["{\"parameters\":{\"a\":1},\"continues\":false}"],
];
/// Total frame sizes the judged frame is padded to with insignificant white space (0 = as is).
const PADS: &[usize] = &[0, 257, 1024, 4095, 4096, 4097, 16_384, 70_000];

fn pad_frame(text: &str, to: usize) -> String {
    if to <= text.len() {
        return text.to_string();
    }
    // white space between the opening brace and the first member is insignificant
    let mut s = String::with_capacity(to);
    s.push('{');
    for k in 0..to - text.len() {
        s.push(if k % 61 == 60 { '\n' } else { ' ' });
    }
    s.push_str(&text[1..]);
    s
}

macro_rules! combo {
    ($rep:expr, $cfg:expr, $frames:expr, $variants:expr, $P:ty, $E:ty, $pn:expr, $en:expr, $proxy:ident, $unit:expr) => {{
        for (fi, fr) in $frames.iter().enumerate() {
            if !$cfg.mine(fi as u64) {
                continue;
            }
            let bytes = fr.text.as_bytes();
            let v: Value = serde_json::from_slice(bytes).expect("generator emits valid JSON");
            let errm = v.get("error");
            let want = match errm {
                None => match serde_json::from_slice::<Reply<$P>>(bytes) {
                    Ok(r) => Want::Success(format!("{:?}/c{:?}", r.parameters(), r.continues())),
                    Err(_) => Want::FailedNoError,
                },
                Some(Value::Null) => Want::Grey,
                Some(_) => {
                    if let Ok(e) = serde_json::from_slice::<varlink_service::Error>(bytes) {
                        Want::ServiceError(format!("{e:?}"))
                    } else if let Ok(e) = serde_json::from_slice::<$E>(bytes) {
                        Want::MethodError(format!("{e:?}"))
                    } else {
                        Want::NotSuccess
                    }
                }
            };
            for &(ctx, pad) in $variants.iter() {
            for path in ["receive_reply", "call_method", "proxy", "chain"] {
                let wire = new_wire(0);
                let padded = pad_frame(&fr.text, pad);
                {
                    let mut w = wire.borrow_mut();
                    let mut b = Vec::new();
                    for pre in CONTEXTS[ctx] {
                        b.extend_from_slice(pre.as_bytes());
                        b.push(0);
                    }
                    b.extend_from_slice(padded.as_bytes());
                    b.push(0);
                    w.push(Rx::Bytes(b));
                }
                let mut conn = Connection::new(VSocket(wire.clone()));
                // the history of the connection before the judged reply arrives: earlier replies of a
                // stream, an earlier error, an earlier plain reply (received with lenient types)
                let mut history_ok = true;
                for _ in CONTEXTS[ctx] {
                    match vnet::block_on(conn.receive_reply::<Value, EA>(), 3) {
                        Some(Ok(_)) => {}
                        _ => history_ok = false,
                    }
                }
                if !history_ok {
                    $rep.violation("C04/context-reply-not-received", format!("context {ctx} before {}", fr.text), json!({"monitor": "c04", "frame": fr.text, "ctx": ctx}));
                    continue;
                }
                let call = Call::new(MA::U);
                let seen = match path {
                    "receive_reply" => seen_of(vnet::block_on(conn.receive_reply::<$P, $E>(), 3)),
                    "call_method" => seen_of(vnet::block_on(conn.call_method::<_, $P, $E>(&call), 3)),
                    "chain" => {
                        // the reply as the first item of a chain's reply stream
                        use futures_util::StreamExt;
                        match conn.chain_call::<MA, $P, $E>(&call) {
                            Err(e) => Seen::Failed(format!("chain_call: {e:?}")),
                            Ok(chain) => match vnet::block_on(chain.send(), 3) {
                                Some(Ok(st)) => {
                                    let mut st = core::pin::pin!(st);
                                    match vnet::block_on(st.next(), 3) {
                                        None => Seen::Stalled,
                                        Some(None) => Seen::Failed("the stream ended without an item".into()),
                                        Some(Some(r)) => seen_of(Some(r)),
                                    }
                                }
                                Some(Err(e)) => Seen::Failed(format!("send: {e:?}")),
                                None => Seen::Stalled,
                            },
                        }
                    }
                    _ => seen_of_proxy(vnet::block_on(conn.$proxy(), 3)),
                };
                if ctx > 0 { $rep.count("cases_with_connection_history"); }
                if pad > 0 { $rep.count("cases_with_padded_frame"); }
                $rep.eval(fnv(fr.text.as_bytes()) ^ fnv($pn.as_bytes()).rotate_left(7) ^ fnv($en.as_bytes()).rotate_left(13) ^ fnv(path.as_bytes()).rotate_left(23) ^ ((ctx as u64) << 40) ^ ((pad as u64) << 44));
                $rep.count(&format!("family.{}", fr.family));
                let ok = match (&want, &seen) {
                    (Want::Grey, _) => true,
                    (Want::Success(w), Seen::Success(s)) => path == "proxy" || w == s,
                    // a proxy method with a non-unit output reports a parameter-less success as
                    // MissingParameters; that is still "not an error reply" and not C04's subject
                    (Want::Success(_), Seen::Failed(e)) => path == "proxy" && !$unit && e.contains("MissingParameters"),
                    (Want::FailedNoError, Seen::Failed(_)) => true,
                    // no `error` member at all: a proxy method without outputs ignores the parameters of
                    // such a reply (so that absent / null / {} all mean "no parameters", C05); reporting
                    // it as success is not C04's subject
                    (Want::FailedNoError, Seen::Success(_)) => path == "proxy" && $unit,
                    (Want::ServiceError(w), Seen::ServiceError(s)) => w == s,
                    (Want::MethodError(w), Seen::MethodError(s)) => w == s,
                    (Want::NotSuccess, Seen::Success(_)) => false,
                    (Want::NotSuccess, _) => true,
                    _ => false,
                };
                if !ok {
                    let class = |s: &Seen| match s { Seen::Success(_) => "success", Seen::MethodError(_) => "method-error", Seen::ServiceError(_) => "service-error", Seen::Failed(_) => "failure", Seen::Stalled => "stalled" };
                    let wclass = match &want { Want::Success(_) => "success", Want::FailedNoError => "failure", Want::ServiceError(_) => "service-error", Want::MethodError(_) => "method-error", Want::NotSuccess => "not-success", Want::Grey => "grey" };
                    $rep.violation(
                        &format!("C04/{}-frame-reported-as-{}-instead-of-{}", fr.family, class(&seen), wclass),
                        format!("{path}::<{}, {}> on {} (after {:?}, frame padded with white space to {} bytes): wanted {:?}, saw {:?}", $pn, $en, fr.text, CONTEXTS[ctx], padded.len(), want, seen),
                        json!({"monitor": "c04", "frame": fr.text, "params": $pn, "error": $en, "path": path, "ctx": ctx, "pad": pad}),
                    );
                }
                if fi % 97 == 0 && path == "receive_reply" {
                    $rep.sample(10, || json!({"frame": fr.text, "after": CONTEXTS[ctx], "padded_to": padded.len(), "params_type": $pn, "error_type": $en, "wanted": format!("{want:?}"), "saw": format!("{seen:?}")}));
                }
            }
            }
        }
    }};
}

pub fn run(cfg: &Cfg) -> Report {
    let mut rep = Report::new("C04", "c04");
    let mut frames = frames();
    if let Some(r) = &cfg.replay {
        frames = vec![Frame { text: r["frame"].as_str().unwrap().to_string(), family: "replayed" }];
    }
    if cfg.layer == "miri" {
        frames = frames.into_iter().step_by(23).collect();
    }
    rep.add("frames_in_matrix", frames.len() as u64);
    rep.exhaustive = true;
    // (connection history, frame size): the whole product
    let mut variants: Vec<(usize, usize)> = Vec::new();
    if let Some(r) = &cfg.replay {
        variants.push((r["ctx"].as_u64().unwrap_or(0) as usize, r["pad"].as_u64().unwrap_or(0) as usize));
    } else if cfg.layer == "miri" {
        variants = vec![(0, 0), (1, 0), (0, 300)];
    } else {
        for ctx in 0..CONTEXTS.len() {
            for &pad in PADS {
                variants.push((ctx, pad));
            }
        }
    }
    rep.add("history_x_size_variants", variants.len() as u64);
    combo!(rep, cfg, frames, variants, (), EA, "()", "EA", unit_ea, true);
    combo!(rep, cfg, frames, variants, AllOpt, EA, "AllOpt", "EA", allopt_ea, false);
    combo!(rep, cfg, frames, variants, Value, EA, "Value", "EA", value_ea, false);
    combo!(rep, cfg, frames, variants, PStrict, EA, "PStrict", "EA", strict_ea, false);
    combo!(rep, cfg, frames, variants, (), EEmpty, "()", "EEmpty", unit_empty, true);
    combo!(rep, cfg, frames, variants, (), varlink_service::Error, "()", "varlink_service::Error", unit_svc, true);
    combo!(rep, cfg, frames, variants, AllOpt, EEmpty, "AllOpt", "EEmpty", allopt_empty, false);
    combo!(rep, cfg, frames, variants, (), EOne, "()", "EOne", unit_one, true);
    combo!(rep, cfg, frames, variants, Value, EOne, "Value", "EOne", value_one, false);
    combo!(rep, cfg, frames, variants, AllOpt, EOneF, "AllOpt", "EOneF", allopt_onef, false);
    // borrowed parameter type: receive_reply / call_method only (exercised through a helper fn so
    // that the lifetime is tied to the connection borrow)
    borrowed(&mut rep, cfg, &frames);
    rep
}

fn borrowed(rep: &mut Report, cfg: &Cfg, frames: &[Frame]) {
    for (fi, fr) in frames.iter().enumerate() {
        if !cfg.mine(fi as u64) {
            continue;
        }
        let bytes = fr.text.as_bytes();
        let v: Value = serde_json::from_slice(bytes).unwrap();
        let carries_error = matches!(v.get("error"), Some(x) if !x.is_null());
        let wire = new_wire(0);
        {
            let mut b = bytes.to_vec();
            b.push(0);
            wire.borrow_mut().push(Rx::Bytes(b));
        }
        let mut conn = Connection::new(VSocket(wire.clone()));
        let r = vnet::block_on(conn.receive_reply::<PBorrow<'_>, crate::frames::EB<'_>>(), 3);
        rep.eval(fnv(bytes) ^ 0xB0);
        if carries_error {
            if let Some(Ok(Ok(r))) = &r {
                rep.violation(
                    &format!("C04/{}-frame-reported-as-success-instead-of-not-success", fr.family),
                    format!("receive_reply::<PBorrow, EB> on {}: saw success {:?}", fr.text, r),
                    json!({"monitor": "c04", "frame": fr.text, "params": "PBorrow", "error": "EB", "path": "receive_reply"}),
                );
            }
        }
    }
}

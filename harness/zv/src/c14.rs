//! C14 — rendering an interface description and parsing it back is the identity.

use crate::cfg::Cfg;
use crate::idl::*;
use serde_json::json;
use vnet::{new_wire, Report, Rx, VSocket};
use zlink_core::{
    idl::Interface,
    varlink_service::{self, InterfaceDescription, Proxy},
    Connection, Reply,
};

fn replay(tree: &GIface, how: &str) -> serde_json::Value {
    let mut rng = vnet::Rng::new(1);
    json!({"monitor": "c14", "how": how, "text": render(tree, &mut Layout { rng: &mut rng, wild: false }), "tree": format!("{tree:?}")})
}

fn sorted(tree: &GIface) -> GIface {
    let mut s = tree.clone();
    s.members.sort_by_key(|m| match m {
        GMember::Type { .. } => 0,
        GMember::Method { .. } => 1,
        GMember::Error { .. } => 2,
    });
    s
}

fn classify(got: &GIface, want: &GIface) -> (&'static str, String) {
    let mut a = got.clone();
    let mut b = want.clone();
    strip_comments(&mut a);
    strip_comments(&mut b);
    let at = got
        .members
        .iter()
        .zip(&want.members)
        .find(|(x, y)| x != y)
        .map(|(x, y)| format!("got {x:?} expected {y:?}"))
        .unwrap_or_else(|| format!("interface-level: got {:?} {:?} {} members, expected {:?} {:?} {}", got.name, got.comments, got.members.len(), want.name, want.comments, want.members.len()));
    if a == b {
        // which level lost / changed a comment?
        let lvl = if got.comments != want.comments {
            "interface"
        } else {
            let mut l = "member-or-field";
            for (x, y) in got.members.iter().zip(&want.members) {
                if x != y {
                    l = match (x, y) {
                        (GMember::Type { body: GBody::Enum(_), comments: c1, .. }, GMember::Type { comments: c2, .. }) => if c1 != c2 { "type" } else { "variant" },
                        (GMember::Type { comments: c1, .. }, GMember::Type { comments: c2, .. }) => if c1 != c2 { "type" } else { "field" },
                        (GMember::Method { comments: c1, .. }, GMember::Method { comments: c2, .. }) => if c1 != c2 { "method" } else { "parameter" },
                        (GMember::Error { comments: c1, .. }, GMember::Error { comments: c2, .. }) => if c1 != c2 { "error" } else { "field" },
                        _ => "member-or-field",
                    };
                    break;
                }
            }
            l
        };
        (match lvl {
            "interface" => "comments-differ:interface",
            "type" => "comments-differ:type",
            "variant" => "comments-differ:variant",
            "field" => "comments-differ:field",
            "method" => "comments-differ:method",
            "parameter" => "comments-differ:parameter",
            "error" => "comments-differ:error",
            _ => "comments-differ",
        }, at)
    } else {
        ("structure-differs", at)
    }
}

/// render -> parse -> compare -> render again, for a description `x` built through the public API.
fn roundtrip(x: &Interface<'_>, tree: &GIface, how: &str, rep: &mut Report) {
    rep.eval(vnet::fnv(format!("{how}{tree:?}").as_bytes()));
    let text = match vnet::catch(|| x.to_string()) {
        Ok(t) => t,
        Err(p) => {
            rep.violation("C14/rendering-panics", format!("panic: {p}"), replay(tree, how));
            return;
        }
    };
    let want = sorted(tree);
    match vnet::catch(|| Interface::try_from(text.as_str()).map(|y| (from_iface(&y), y.to_string(), x == &y)).map_err(|e| format!("{e:?}"))) {
        Err(p) => rep.violation("C14/parsing-rendered-text-panics", format!("panic: {p}; text {text:?}"), replay(tree, how)),
        Ok(Err(e)) => {
            let has_variant_comments = text_has_commented_enum(tree);
            let sig = if has_variant_comments { "C14/rendered-text-does-not-parse:enum-with-commented-variant" } else { "C14/rendered-text-does-not-parse" };
            rep.violation(sig, format!("{e}; rendered text {text:?}"), replay(tree, how))
        }
        Ok(Ok((got, text2, lib_eq))) => {
            if got != want {
                let (class, at) = classify(&got, &want);
                rep.violation(&format!("C14/parse-of-rendered-text-differs:{class}"), format!("{at}; rendered text {text:?}"), replay(tree, how));
                return;
            }
            if text2 != text {
                rep.violation("C14/rendering-the-parsed-result-does-not-reproduce-the-text", format!("first {text:?} second {text2:?}"), replay(tree, how));
                return;
            }
            if !lib_eq {
                rep.violation("C14/library-equality-disagrees-after-roundtrip", format!("x != parse(render(x)) by the library's PartialEq although every name, type and comment agrees; text {text:?}"), replay(tree, how));
                return;
            }
            rep.count("roundtrips_ok");
        }
    }
}

fn text_has_commented_enum(tree: &GIface) -> bool {
    fn ty(t: &GTy) -> bool {
        match t {
            GTy::Optional(i) | GTy::Array(i) | GTy::Map(i) => ty(i),
            GTy::Enum(vs) => vs.iter().any(|v| !v.comments.is_empty()),
            GTy::Struct(fs) => fs.iter().any(|f| ty(&f.ty)),
            _ => false,
        }
    }
    tree.members.iter().any(|m| match m {
        GMember::Type { body: GBody::Enum(vs), .. } => vs.iter().any(|v| !v.comments.is_empty()),
        GMember::Type { body: GBody::Struct(fs), .. } => fs.iter().any(|f| ty(&f.ty)),
        GMember::Method { inputs, outputs, .. } => inputs.iter().chain(outputs).any(|f| ty(&f.ty)),
        GMember::Error { fields, .. } => fields.iter().any(|f| ty(&f.ty)),
    })
}

// ---- borrowed form: `&'static` slices, as `const` descriptions and the derives produce them ----------

fn leak<T>(v: T) -> &'static T {
    Box::leak(Box::new(v))
}
fn leak_slice<T>(v: Vec<&'static T>) -> &'static [&'static T] {
    Box::leak(v.into_boxed_slice())
}

fn b_comments(cs: &[String]) -> &'static [&'static zlink_core::idl::Comment<'static>] {
    leak_slice(cs.iter().map(|c| leak(zlink_core::idl::Comment::new(Box::leak(c.clone().into_boxed_str())))).collect())
}

fn b_ty(t: &GTy) -> &'static zlink_core::idl::Type<'static> {
    use zlink_core::idl::{List, Type as T, TypeRef};
    leak(match t {
        GTy::Bool => T::Bool,
        GTy::Int => T::Int,
        GTy::Float => T::Float,
        GTy::Str => T::String,
        GTy::Object => T::ForeignObject,
        GTy::Optional(i) => T::Optional(TypeRef::new(b_ty(i))),
        GTy::Array(i) => T::Array(TypeRef::new(b_ty(i))),
        GTy::Map(i) => T::Map(TypeRef::new(b_ty(i))),
        GTy::Custom(n) => T::Custom(Box::leak(n.clone().into_boxed_str())),
        GTy::Enum(vs) => T::Enum(List::Borrowed(leak_slice(vs.iter().map(b_variant).collect()))),
        GTy::Struct(fs) => T::Object(List::Borrowed(b_fields(fs))),
    })
}

fn b_variant(v: &GVariant) -> &'static zlink_core::idl::EnumVariant<'static> {
    leak(zlink_core::idl::EnumVariant::new(Box::leak(v.name.clone().into_boxed_str()), b_comments(&v.comments)))
}

fn b_fields(fs: &[GField]) -> &'static [&'static zlink_core::idl::Field<'static>] {
    leak_slice(fs.iter().map(|f| leak(zlink_core::idl::Field::new(Box::leak(f.name.clone().into_boxed_str()), b_ty(&f.ty), b_comments(&f.comments)))).collect())
}

fn build_borrowed(i: &GIface) -> Interface<'static> {
    use zlink_core::idl::*;
    let mut methods: Vec<&'static Method<'static>> = Vec::new();
    let mut types: Vec<&'static CustomType<'static>> = Vec::new();
    let mut errors: Vec<&'static Error<'static>> = Vec::new();
    for m in &i.members {
        match m {
            GMember::Type { name, comments, body } => {
                let name: &'static str = Box::leak(name.clone().into_boxed_str());
                types.push(leak(match body {
                    GBody::Struct(fs) => CustomType::from(CustomObject::new(name, b_fields(fs), b_comments(comments))),
                    GBody::Enum(vs) => CustomType::from(CustomEnum::new(name, leak_slice(vs.iter().map(b_variant).collect()), b_comments(comments))),
                }));
            }
            GMember::Method { name, comments, inputs, outputs } => methods.push(leak(Method::new(Box::leak(name.clone().into_boxed_str()), b_fields(inputs), b_fields(outputs), b_comments(comments)))),
            GMember::Error { name, comments, fields } => errors.push(leak(Error::new(Box::leak(name.clone().into_boxed_str()), b_fields(fields), b_comments(comments)))),
        }
    }
    Interface::new(Box::leak(i.name.clone().into_boxed_str()), leak_slice(methods), leak_slice(types), leak_slice(errors), b_comments(&i.comments))
}

// ---- end to end: GetInterfaceDescription over the virtual transport ------------------------------

fn e2e(x: &Interface<'_>, tree: &GIface, rep: &mut Report) {
    rep.eval(vnet::fnv(format!("e2e{tree:?}").as_bytes()));
    let cw = new_wire(0);
    let sw = new_wire(1);
    let mut client = Connection::new(VSocket(cw.clone()));
    let mut server = Connection::new(VSocket(sw.clone()));
    let want = sorted(tree);
    let res = vnet::catch(|| {
        let fut = client.get_interface_description(&tree.name);
        let mut fut = core::pin::pin!(fut);
        // first poll: the call goes out, the reply is awaited
        if let core::task::Poll::Ready(r) = vnet::poll_once(fut.as_mut()) {
            return Err(format!("client finished before any reply was delivered: {r:?}"));
        }
        let call_bytes = cw.borrow().written();
        sw.borrow_mut().push(Rx::Bytes(call_bytes));
        let call = vnet::block_on(server.receive_call::<varlink_service::Method<'_>>(), 4).ok_or("server stalled")?.map_err(|e| format!("server could not decode the call: {e:?}"))?;
        match call.method() {
            varlink_service::Method::GetInterfaceDescription { interface } if *interface == tree.name => {}
            other => return Err(format!("server received {other:?}")),
        }
        let desc = InterfaceDescription::from(x);
        vnet::block_on(server.send_reply(&Reply::new(Some(desc)).set_continues(None)), 4).ok_or("server write stalled")?.map_err(|e| format!("server could not send: {e:?}"))?;
        cw.borrow_mut().push(Rx::Bytes(sw.borrow().written()));
        match vnet::run_until_stalled(fut.as_mut(), 4) {
            core::task::Poll::Pending => Err("client stalled although the reply was delivered".to_string()),
            core::task::Poll::Ready(Err(e)) => Err(format!("client: {e:?}")),
            core::task::Poll::Ready(Ok(Err(e))) => Err(format!("client: method error {e:?}")),
            core::task::Poll::Ready(Ok(Ok(d))) => match d.parse() {
                Err(e) => Err(format!("client could not parse the description: {e:?}; raw {:?}", d.as_raw())),
                Ok(y) => Ok(from_iface(&y)),
            },
        }
    });
    match res {
        Err(p) => rep.violation("C14/e2e-panics", format!("panic: {p}"), replay(tree, "e2e")),
        Ok(Err(e)) => {
            let sig = if text_has_commented_enum(tree) { "C14/e2e-description-does-not-parse:enum-with-commented-variant" } else { "C14/e2e-exchange-failed" };
            rep.violation(sig, e, replay(tree, "e2e"))
        }
        Ok(Ok(got)) => {
            if got != want {
                let (class, at) = classify(&got, &want);
                rep.violation(&format!("C14/e2e-client-parsed-something-else-than-the-service-described:{class}"), at, replay(tree, "e2e"));
            } else {
                rep.count("e2e_ok");
                e2e_chain(x, tree, &want, rep);
            }
        }
    }
}

/// The same exchange through the chain API of the standard interface (`chain_get_interface_description`, replies typed
/// `varlink_service::Reply`): what the client parses must again be what the service described.
fn e2e_chain(x: &Interface<'_>, tree: &GIface, want: &GIface, rep: &mut Report) {
    use futures_util::StreamExt;
    rep.eval(vnet::fnv(format!("e2e-chain{tree:?}").as_bytes()));
    let cw = new_wire(0);
    let sw = new_wire(1);
    let mut client = Connection::new(VSocket(cw.clone()));
    let mut server = Connection::new(VSocket(sw.clone()));
    let res = vnet::catch(|| {
        let chain = client.chain_get_interface_description::<varlink_service::Reply<'_>, varlink_service::Error>(&tree.name).map_err(|e| format!("client could not start the chain: {e:?}"))?;
        let stream = vnet::block_on(chain.send(), 4).ok_or("client write stalled")?.map_err(|e| format!("client could not send: {e:?}"))?;
        let mut stream = core::pin::pin!(stream);
        sw.borrow_mut().push(Rx::Bytes(cw.borrow().written()));
        let call = vnet::block_on(server.receive_call::<varlink_service::Method<'_>>(), 4).ok_or("server stalled")?.map_err(|e| format!("server could not decode the call: {e:?}"))?;
        match call.method() {
            varlink_service::Method::GetInterfaceDescription { interface } if *interface == tree.name => {}
            other => return Err(format!("server received {other:?}")),
        }
        let desc = InterfaceDescription::from(x);
        vnet::block_on(server.send_reply(&Reply::new(Some(desc)).set_continues(None)), 4).ok_or("server write stalled")?.map_err(|e| format!("server could not send: {e:?}"))?;
        cw.borrow_mut().push(Rx::Bytes(sw.borrow().written()));
        match vnet::block_on(stream.next(), 4) {
            None => Err("client stalled although the reply was delivered".to_string()),
            Some(None) => Err("the chain's stream ended without the reply".to_string()),
            Some(Some(Err(e))) => Err(format!("client: {e:?}")),
            Some(Some(Ok(Err(e)))) => Err(format!("client: method error {e:?}")),
            Some(Some(Ok(Ok(r)))) => match r.parameters() {
                Some(varlink_service::Reply::InterfaceDescription(d)) => match d.parse() {
                    Err(e) => Err(format!("client could not parse the description: {e:?}; raw {:?}", d.as_raw())),
                    Ok(y) => Ok(from_iface(&y)),
                },
                other => Err(format!("client received {other:?} instead of a description")),
            },
        }
    });
    match res {
        Err(p) => rep.violation("C14/e2e-panics", format!("panic (chain): {p}"), replay(tree, "e2e-chain")),
        Ok(Err(e)) => rep.violation("C14/e2e-exchange-through-a-chain-failed", e, replay(tree, "e2e-chain")),
        Ok(Ok(got)) => {
            if &got != want {
                let (class, at) = classify(&got, want);
                rep.violation(&format!("C14/e2e-client-parsed-something-else-than-the-service-described:{class}"), format!("(chain) {at}"), replay(tree, "e2e-chain"));
            } else {
                rep.count("e2e_through_a_chain_ok");
            }
        }
    }
}

// ---- descriptions produced by the derive macros, with doc comments of every awkward shape -------------
#[allow(dead_code)]
mod derived {
    use zlink_core::introspect::{CustomType, ReplyError, Type};

    /// A plain sentence.
    ///
    /// * bullet
    /// *  aligned bullet
    /// *   deeper   bullet with   inner   blanks
    ///   indented continuation
    /// - dash item
    ///	tab-indented
    /// trailing blanks   
    /// # looks like a heading
    /// ## and another #
    #[derive(CustomType)]
    #[zlink(crate = "zlink_core")]
    pub struct Documented {
        /// * starts with a star
        pub a: i64,
        ///   leading blanks
        ///
        /// after an empty line
        pub b: Option<String>,
        /// `code` and "quotes" and (parens: int) -> (x)
        pub c: Vec<Inner>,
        pub undocumented: bool,
    }

    /** block comment, one line */
    #[derive(CustomType)]
    #[zlink(crate = "zlink_core")]
    pub struct Inner {
        /// *
        pub x: f64,
    }

    /// State of things
    #[derive(CustomType)]
    #[zlink(crate = "zlink_core")]
    pub enum Plain {
        On,
        Off,
    }

    /// Inline use
    #[derive(Type)]
    #[zlink(crate = "zlink_core")]
    pub struct InlineObj {
        // (no doc comments here: comments inside inline types are outside what C14 speaks of)
        pub f: i64,
        pub g: std::collections::HashMap<String, Option<Vec<i64>>>,
    }

    /// *  the errors
    #[derive(ReplyError)]
    #[zlink(crate = "zlink_core")]
    pub enum Errs {
        /// * first
        /// *  second, aligned
        NotFound,
        ///  - why
        Denied {
            /// *  the path
            path: String,
            reason: Option<String>,
        },
        /// wrapped
        Wrapped(InlineObj),
    }

    pub type Label = Option<String>;

    /// A type that is also a serde type, with the usual field attributes
    #[derive(serde::Serialize, serde::Deserialize, CustomType)]
    #[zlink(crate = "zlink_core")]
    pub struct WithDefaults {
        #[serde(default)]
        pub count: i64,
        /// may be left out
        #[serde(default)]
        pub label: Option<String>,
        #[serde(default)]
        pub aliased: Label,
        #[serde(default)]
        pub boxed: Box<Option<String>>,
        #[serde(default, skip_serializing_if = "Vec::is_empty")]
        pub list: Vec<f64>,
    }

    pub fn interface() -> zlink_core::idl::Interface<'static> {
        use zlink_core::idl::{Field, Interface, Method};
        let f = |n: &'static str, t| Field::new_owned(n, t, vec![]);
        let methods = vec![Method::new_owned(
            "Use",
            vec![f("d", <Documented as Type>::TYPE.clone()), f("o", <InlineObj as Type>::TYPE.clone()), f("p", <Plain as Type>::TYPE.clone()), f("w", <Option<WithDefaults> as Type>::TYPE.clone())],
            vec![f("r", <Option<Vec<InlineObj>> as Type>::TYPE.clone())],
            vec![],
        )];
        let types = vec![<Documented as CustomType>::CUSTOM_TYPE.clone(), <Inner as CustomType>::CUSTOM_TYPE.clone(), <Plain as CustomType>::CUSTOM_TYPE.clone(), <WithDefaults as CustomType>::CUSTOM_TYPE.clone()];
        let errors = <Errs as ReplyError>::VARIANTS.iter().map(|e| (*e).clone()).collect();
        Interface::new_owned("org.example.derived-docs", methods, types, errors, vec![])
    }
}

pub fn run(cfg: &Cfg) -> Report {
    let mut rep = Report::new("C14", "c14");
    let miri = cfg.layer == "miri";
    let mut rng = cfg.rng(141);
    let n = cfg.n(if miri { 30 } else { 20_000 }, 1_000_000);
    let gc = GenCfg { max_members: 6, max_depth: 4, comments: true, deep_comments: false, custom_refs: true, trailing_blanks: true };
    let gc_plain = GenCfg { max_members: 6, max_depth: 4, comments: false, deep_comments: false, custom_refs: true, trailing_blanks: true };
    for k in 0..n {
        let tree = gen_iface(&mut rng, if k % 3 == 0 { &gc_plain } else { &gc });
        // owned form
        let x = build_iface(&tree);
        roundtrip(&x, &tree, "owned", &mut rep);
        // borrowed form (leaks a little memory per case: bounded by the budget; skipped under Miri's leak check)
        if !miri && k % 4 == 0 {
            let xb = build_borrowed(&tree);
            roundtrip(&xb, &tree, "borrowed", &mut rep);
            if x != xb {
                rep.violation("C14/owned-and-borrowed-forms-of-the-same-description-are-not-equal", format!("{tree:?}"), replay(&tree, "borrowed"));
            }
        }
        // a description produced by the parser itself from a text with random legal layout
        if k % 2 == 0 {
            let wild = render(&tree, &mut Layout { rng: &mut rng, wild: true });
            if let Ok(Ok(p)) = vnet::catch(|| Interface::try_from(wild.as_str())) {
                let ptree = from_iface(&p);
                roundtrip(&p, &ptree, "parsed", &mut rep);
            } else {
                rep.count("wild_text_not_parsed_(C13's business)");
            }
        }
        if k % 5 == 0 {
            e2e(&x, &tree, &mut rep);
        }
        if k % 4000 == 1 {
            rep.sample(4, || json!({"rendered": x.to_string()}));
        }
    }
    // the library's own description of org.varlink.service
    #[allow(unused)]
    {
        let d = varlink_service::DESCRIPTION;
        let t = from_iface(d);
        roundtrip(d, &t, "org.varlink.service", &mut rep);
        e2e(d, &t, &mut rep);
    }
    // an interface assembled from derive-built pieces whose doc comments have every awkward shape
    {
        let d = derived::interface();
        let mut t = from_iface(&d);
        // the doc comments of a derived inline type sit inside an inline type: outside what C14 speaks of
        crate::idl::strip_comments_inside_inline_types(&mut t);
        roundtrip(&d, &t, "derived-with-awkward-docs", &mut rep);
        e2e(&d, &t, &mut rep);
        rep.sample(6, || json!({"derived": d.to_string()}));
    }
    rep
}

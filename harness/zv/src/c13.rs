//! C13 — the IDL parser accepts exactly the Varlink grammar and builds the denoted tree.

use crate::cfg::Cfg;
use crate::idl::*;
use serde_json::json;
use std::sync::mpsc;
use std::time::Duration;
use vnet::{Report, Rng};
use zlink_core::idl::Interface;

#[derive(Debug)]
enum Parsed {
    /// accepted; the tree converted to the harness' own representation
    Ok(GIface),
    Rejected(String),
    Panic(String),
    Hang,
}

fn parse_inline(text: &str) -> Parsed {
    match vnet::catch(|| Interface::try_from(text).map(|i| from_iface(&i)).map_err(|e| format!("{e:?}"))) {
        Err(p) => Parsed::Panic(p),
        Ok(Ok(g)) => Parsed::Ok(g),
        Ok(Err(e)) => Parsed::Rejected(e),
    }
}

/// Runs the parser on a worker thread so that a non-terminating parse is observed as such.
struct Worker {
    tx: mpsc::Sender<String>,
    rx: mpsc::Receiver<Parsed>,
    inline: bool,
}

impl Worker {
    fn new(inline: bool) -> Worker {
        let (tx, wrx) = mpsc::channel::<String>();
        let (wtx, rx) = mpsc::channel::<Parsed>();
        if !inline {
            std::thread::Builder::new()
                .stack_size(64 << 20)
                .spawn(move || {
                    while let Ok(t) = wrx.recv() {
                        if wtx.send(parse_inline(&t)).is_err() {
                            break;
                        }
                    }
                })
                .expect("spawn parser worker");
        }
        Worker { tx, rx, inline }
    }
    fn parse(&mut self, text: &str) -> Parsed {
        if self.inline {
            return parse_inline(text);
        }
        if self.tx.send(text.to_string()).is_err() {
            *self = Worker::new(false);
            let _ = self.tx.send(text.to_string());
        }
        match self.rx.recv_timeout(Duration::from_secs(20)) {
            Ok(p) => p,
            Err(mpsc::RecvTimeoutError::Timeout) => {
                // re-run once on a fresh worker with a longer limit before calling it a hang
                *self = Worker::new(false);
                let _ = self.tx.send(text.to_string());
                match self.rx.recv_timeout(Duration::from_secs(60)) {
                    Ok(p) => p,
                    Err(_) => {
                        *self = Worker::new(false);
                        Parsed::Hang
                    }
                }
            }
            Err(mpsc::RecvTimeoutError::Disconnected) => {
                // the worker died (stack overflow would abort the process; a panic is caught) 
                *self = Worker::new(false);
                Parsed::Panic("parser worker thread died".into())
            }
        }
    }
}

fn reason_class(e: &str) -> &'static str {
    if e.contains("is not an interface name") {
        "malformed-interface-name"
    } else if e.contains("is not a field name") {
        "malformed-field-name"
    } else if e.contains("is not a member name") || e.contains("neither a primitive nor a type name") {
        "malformed-type-or-member-name"
    } else if e.contains("illegal") {
        "illegal-character"
    } else if e.contains("`??`") {
        "double-optional"
    } else if e.contains("mixed struct") {
        "mixed-struct-enum-body"
    } else if e.contains("unknown member keyword") {
        "unknown-member-keyword"
    } else if e.contains("has no type") {
        "field-without-type"
    } else {
        "malformed-structure"
    }
}

fn replay(text: &str, kind: &str) -> serde_json::Value {
    json!({"monitor": "c13", "kind": kind, "text": text})
}

/// A text produced by the grammar-driven generator: must parse to exactly the tree.
fn check_positive(w: &mut Worker, tree: &GIface, text: &str, strict_comments: bool, rep: &mut Report) {
    rep.eval(vnet::fnv(text.as_bytes()));
    rep.count("positive_texts");
    match w.parse(text) {
        Parsed::Panic(p) => rep.violation("C13/parser-panics", format!("panic: {p}; text: {text:?}"), replay(text, "positive")),
        Parsed::Hang => rep.violation("C13/parser-does-not-terminate", format!("text: {text:?}"), replay(text, "positive")),
        Parsed::Rejected(e) => {
            let sig = if strict_comments { "C13/legal-text-rejected" } else { "C13/legal-text-with-comments-inside-inline-types-rejected" };
            rep.violation(sig, format!("{e}; text: {text:?}"), replay(text, "positive"))
        }
        Parsed::Ok(got) => {
            // compare against the generating tree, kind by kind (zlink groups members by kind)
            let mut want = tree.clone();
            let mut got = got;
            if !strict_comments {
                strip_comments(&mut want);
                strip_comments(&mut got);
            }
            let mut sorted = want.clone();
            sorted.members.sort_by_key(|m| match m {
                GMember::Type { .. } => 0,
                GMember::Method { .. } => 1,
                GMember::Error { .. } => 2,
            });
            if got != sorted {
                // find the first differing aspect for the signature
                let mut a = got.clone();
                let mut b = sorted.clone();
                strip_comments(&mut a);
                strip_comments(&mut b);
                let sig = if a == b {
                    "C13/parsed-comments-differ-from-the-text"
                } else if a.name != b.name {
                    "C13/parsed-interface-name-differs"
                } else {
                    "C13/parsed-tree-differs-from-the-denoted-one"
                };
                let at = got.members.iter().zip(&sorted.members).find(|(x, y)| x != y).map(|(x, y)| format!("got {x:?} expected {y:?}")).unwrap_or_else(|| format!("interface-level: got {:?}/{:?}/{} members, expected {:?}/{:?}/{}", got.name, got.comments, got.members.len(), sorted.name, sorted.comments, sorted.members.len()));
                rep.violation(sig, format!("{at}; text: {text:?}"), replay(text, "positive"));
            } else {
                rep.count("positive_ok");
            }
        }
    }
}

/// Any other text: never panics, never hangs; if accepted, nothing was ignored and the text is in
/// the grammar according to the independent recogniser.
fn check_any(w: &mut Worker, text: &str, kind: &str, rep: &mut Report) {
    rep.eval(vnet::fnv(text.as_bytes()));
    rep.count(&format!("negative.{kind}"));
    match w.parse(text) {
        Parsed::Panic(p) => rep.violation("C13/parser-panics", format!("panic: {p}; text: {text:?}"), replay(text, kind)),
        Parsed::Hang => rep.violation("C13/parser-does-not-terminate", format!("text: {text:?}"), replay(text, kind)),
        Parsed::Rejected(_) => rep.count("rejected"),
        Parsed::Ok(got) => {
            rep.count("accepted");
            if let Err(e) = recognise(text) {
                rep.violation(&format!("C13/accepts-text-outside-the-grammar:{}", reason_class(&e)), format!("recogniser: {e}; text: {text:?}"), replay(text, kind));
                return;
            }
            // nothing ignored: tokens of the input == tokens of the accepted tree rendered by the harness
            let mut g = got;
            strip_comments(&mut g);
            let mut rng = Rng::new(1);
            let rendered = render(&g, &mut Layout { rng: &mut rng, wild: false });
            match (canonical_tokens(text), tokenize(&rendered)) {
                (Ok(a), Ok(b)) => {
                    if a != b {
                        rep.violation("C13/accepts-text-while-ignoring-part-of-it", format!("input tokens {} vs accepted tree tokens {}; tree renders as {rendered:?}; text: {text:?}", a.len(), b.len()), replay(text, kind));
                    } else {
                        rep.count("accepted_and_complete");
                    }
                }
                (a, b) => rep.inconclusive.push(format!("tokenizer failed on an accepted text: {:?} {:?}", a.err(), b.err())),
            }
        }
    }
}

fn render_tokens(toks: &[Tok]) -> String {
    render_tokens_filler(toks, usize::MAX, "")
}

/// Like `render_tokens`, with `filler` written directly behind token number `at`.
fn render_tokens_filler(toks: &[Tok], at: usize, filler: &str) -> String {
    let mut s = String::new();
    for (i, t) in toks.iter().enumerate() {
        let piece = match t {
            Tok::Word(w) => w.as_str(),
            Tok::LParen => "(",
            Tok::RParen => ")",
            Tok::Colon => ":",
            Tok::Comma => ",",
            Tok::Arrow => "->",
            Tok::Question => "?",
            Tok::ArrayPrefix => "[]",
            Tok::MapPrefix => "[string]",
        };
        // a member keyword starts a new line; words are separated by a space
        if let Tok::Word(w) = t {
            if i > 0 && ["type", "method", "error"].contains(&w.as_str()) && matches!(toks.get(i + 2), Some(Tok::LParen)) {
                s.push('\n');
            } else if i > 0 && matches!(toks[i - 1], Tok::Word(_)) {
                s.push(' ');
            }
        }
        s.push_str(piece);
        if i == at {
            s.push_str(filler);
        }
        if matches!(t, Tok::Comma | Tok::Colon) {
            s.push(' ');
        }
    }
    s
}

pub fn run(cfg: &Cfg) -> Report {
    let mut rep = Report::new("C13", "c13");
    let miri = cfg.layer == "miri";
    let mut w = Worker::new(miri);
    if let Some(r) = &cfg.replay {
        let text = r["text"].as_str().unwrap_or("");
        check_any(&mut w, text, "replayed", &mut rep);
        rep.notes.push(format!("{:?}", parse_inline(text)));
        rep.notes.push(format!("recogniser: {:?}", recognise(text)));
        return rep;
    }
    let mut rng = cfg.rng(131);
    let n = cfg.n(if miri { 40 } else { 6000 }, 400_000);
    let gc = GenCfg { max_members: 6, max_depth: 4, comments: true, deep_comments: false, custom_refs: true, trailing_blanks: false };
    let gc_deep = GenCfg { max_members: 4, max_depth: 3, comments: true, deep_comments: true, custom_refs: true, trailing_blanks: false };
    for k in 0..n {
        // ---- positives
        let tree = gen_iface(&mut rng, &gc);
        let canonical = render(&tree, &mut Layout { rng: &mut rng, wild: false });
        check_positive(&mut w, &tree, &canonical, true, &mut rep);
        let wild = render(&tree, &mut Layout { rng: &mut rng, wild: true });
        check_positive(&mut w, &tree, &wild, true, &mut rep);
        if k % 4 == 0 {
            let t2 = gen_iface(&mut rng, &gc_deep);
            let txt = render(&t2, &mut Layout { rng: &mut rng, wild: true });
            check_positive(&mut w, &t2, &txt, false, &mut rep);
        }
        if k % 1000 == 1 {
            rep.sample(4, || json!({"positive": wild}));
        }
        // ---- negatives derived from the canonical text (small ones exhaustively truncated)
        let base = if k % 2 == 0 { &canonical } else { &wild };
        if base.len() <= if miri { 60 } else { 700 } {
            for cut in 0..base.len() {
                if base.is_char_boundary(cut) {
                    check_any(&mut w, &base[..cut], "truncation", &mut rep);
                }
            }
        }
        if let Ok(toks) = tokenize(&canonical) {
            if toks.len() > 2 {
                for _ in 0..(if miri { 2 } else { 12 }) {
                    let mut t = toks.clone();
                    let i = rng.below(t.len());
                    let kind = match rng.below(5) {
                        0 => {
                            t.remove(i);
                            "token-deleted"
                        }
                        1 => {
                            let x = t[i].clone();
                            t.insert(i, x);
                            "token-duplicated"
                        }
                        2 => {
                            let j = rng.below(t.len());
                            t.swap(i, j);
                            "tokens-swapped"
                        }
                        3 => {
                            t[i] = rng.pick(&[Tok::LParen, Tok::RParen, Tok::Colon, Tok::Comma, Tok::Arrow, Tok::Question, Tok::ArrayPrefix, Tok::MapPrefix, Tok::Word("int".into()), Tok::Word("x_".into()), Tok::Word("a__b".into()), Tok::Word("Q".into()), Tok::Word("9z".into()), Tok::Word("a.b-".into()), Tok::Word("a.".into()), Tok::Word("-a.b".into()), Tok::Word("type".into())]).clone();
                            "token-replaced"
                        }
                        _ => {
                            t.insert(i, rng.pick(&[Tok::Question, Tok::Comma, Tok::LParen, Tok::RParen, Tok::Word("method".into()), Tok::Word("error".into())]).clone());
                            "token-inserted"
                        }
                    };
                    check_any(&mut w, &render_tokens(&t), kind, &mut rep);
                }
            }
        }
        // ---- white space or a comment inside a type: the grammar glues the prefixes `?`, `[]`, `[string]` to the
        // type they apply to (`[] string` is not a type); such a text must be rejected
        if let Ok(toks) = tokenize(&canonical) {
            let prefixes: Vec<usize> = toks.iter().enumerate().filter(|(_, t)| matches!(t, Tok::Question | Tok::ArrayPrefix | Tok::MapPrefix)).map(|(i, _)| i).collect();
            if !prefixes.is_empty() {
                for _ in 0..(if miri { 1 } else { 3 }) {
                    let at = *rng.pick(&prefixes);
                    let filler = *rng.pick(&[" ", "\n", "\t", "  ", " # c\n", "\n\n"]);
                    let text = render_tokens_filler(&toks, at, filler);
                    rep.eval(vnet::fnv(text.as_bytes()));
                    rep.count("negative.filler-behind-a-type-prefix");
                    match w.parse(&text) {
                        Parsed::Panic(p) => rep.violation("C13/parser-panics", format!("panic: {p}; text: {text:?}"), replay(&text, "filler-behind-a-type-prefix")),
                        Parsed::Hang => rep.violation("C13/parser-does-not-terminate", format!("text: {text:?}"), replay(&text, "filler-behind-a-type-prefix")),
                        Parsed::Rejected(_) => rep.count("rejected"),
                        Parsed::Ok(_) => rep.violation("C13/accepts-text-outside-the-grammar:white-space-inside-a-type", format!("{filler:?} behind the type prefix that is token {at}; text: {text:?}"), replay(&text, "filler-behind-a-type-prefix")),
                    }
                }
            }
        }
        // ---- illegal characters / non-ASCII at a random position
        for _ in 0..(if miri { 1 } else { 6 }) {
            let mut pos = rng.below(base.len() + 1);
            while !base.is_char_boundary(pos) {
                pos -= 1;
            }
            let ins = *rng.pick(&["é", "\u{2028}", "\u{0}", "\u{7f}", "$", "{", "}", "\"", "=", ";", "<", "ß", "::", "??", "[ ]", "[int]", "\\", "@", "\u{feff}", "\r", "_", "-", ".", "!"]);
            let mut s = String::with_capacity(base.len() + 4);
            s.push_str(&base[..pos]);
            s.push_str(ins);
            s.push_str(&base[pos..]);
            check_any(&mut w, &s, "char-inserted", &mut rep);
        }
        // ---- byte soup (valid UTF-8 by construction)
        if k % 3 == 0 {
            const PIECES: &[&str] = &["interface", " ", "\n", "a.b", "org.example.x", "type", "method", "error", "T", "Foo", "(", ")", ":", ",", "->", "?", "[]", "[string]", "int", "string", "x", "#", "# c\n", "é", "\t", "a_b", "A-b.c", "()", "bool", "object", "float", "\r\n", "0", "."];
            let len = rng.range(1, 24);
            let s: String = (0..len).map(|_| *rng.pick(PIECES)).collect();
            check_any(&mut w, &s, "soup", &mut rep);
        }
    }
    // ---- a fixed list of texts that are clearly outside the grammar (regression anchors)
    if cfg.shard == 0 {
        for t in [
            "interface org.example.", "interface a.b-", "interface a", "interface .a.b", "interface a..b", "interface a.b\nmethod M(a:) -> ()", "interface a.b\nmethod M(a: ) -> ()",
            "interface a.b\ntype T (a__b: int)", "interface a.b\ntype T (c_: int)", "interface a.b\nerror", "interface a.b\nerror E", "interface a.b\nerror E (a: int", "interface a.b\nmethod M() -> (",
            "interface a.b\nmethod M() ->", "interface a.b\nmethod M()", "interface a.b\ntype T (a: ??int)", "interface a.b\ntype T (a: int, b)", "interface a.b\ntype T (a, b: int)", "interface a.b\ntype t (a: int)",
            "interface a.b\nmethod m() -> ()", "interface a.b\nfoo X ()", "interface a.b\ntype T (a: int,)", "interface a.b\ntype T (,a: int)", "interface a.b\ntype T (a: int))", "interface a.b\ntype T ((a: int)",
            "interface a.b\ntype T (a: [int]string)", "interface a.b\ntype T (a: []?)", "interface a.b\ntype T (a: [string])", "interface a.b junk", "interface a.b\ntype T (a: int) junk", "interfacea.b", "interface a.b\ntypeT (a: int)",
            "interface a.b\nmethod M(a: int) - > ()", "interface a.b\nmethod M(a: int) > ()", "interface a.b\nerror E (a)", "interface a.b\nmethod M(a) -> ()", "interface a.b\ntype T (1a: int)", "interface a.b\ntype T (a: 1nt)",
        ] {
            check_any(&mut w, t, "fixed", &mut rep);
        }
    }
    rep
}

//! C09 — a faulty client ends only its own connection; the server and the others carry on.
//!
//! Fault enumeration with a relational oracle: run A = the full schedule, run B = the same
//! schedule with every event of the faulty connection deleted. Every healthy connection must
//! produce byte-identical output in both, the service must see the same healthy calls, the server
//! future must still be pending, healthy connections must still be open, and nothing may panic.

use crate::cfg::Cfg;
use crate::srv::*;
use serde_json::json;
use vnet::{Report, Rng};

pub const FAULTS: &[&str] = &[
    "garbage-bytes",
    "malformed-frame",
    "wrong-parameter-types",
    "unknown-method",
    "escaped-string-for-borrowed-field",
    "invalid-utf8-in-ignored-member",
    "not-an-object",
    "long-non-ascii-text-frame",
    "empty-frames",
    "huge-frame",
    "truncated-frame-then-eof",
    "eof-mid-burst",
    "read-error",
    "write-error-on-kth-write",
    "fault-while-streaming",
    "write-error-on-stream-item",
    "oversized-frame",
];

fn calls(rng: &mut Rng, n: usize, seq0: u32, streams: bool) -> Vec<CallSpec> {
    (0..n)
        .map(|j| CallSpec {
            kind: match rng.below(8) {
                0 | 1 => Kind::Fail,
                2 if streams => Kind::Sub,
                _ => Kind::Echo,
            },
            seq: seq0 + j as u32,
            oneway: rng.chance(1, 6),
            more: false,
            payload: payload(rng).chars().take(40).collect(),
        })
        .map(|mut c| {
            if c.kind == Kind::Sub {
                // (now and then without the flag: the service answers with a stream all the same)
                c.more = c.seq % 5 != 3;
                c.oneway = false;
            }
            c
        })
        .collect()
}

fn fault_frame(rng: &mut Rng, kind: &str, client: u32) -> Vec<u8> {
    let mut v: Vec<u8> = match kind {
        "garbage-bytes" => {
            let n = rng.range(1, 40);
            (0..n).map(|_| rng.below(256) as u8).collect()
        }
        "malformed-frame" => rng
            .pick(&[
                &b"{\"method\":"[..],
                b"{\"method\":\"t.Echo\",\"parameters\":{\"client\":0,\"seq\":1,\"payload\":\"x\"}",
                b"{\"method\":\"t.Fail\" \"parameters\":{}}",
                b"{]",
                b"{\"method\":\"t.Fail\",\"parameters\":{\"client\":0,\"seq\":1}}{\"method\":\"t.Fail\",\"parameters\":{\"client\":0,\"seq\":2}}",
            ])
            .to_vec(),
        "wrong-parameter-types" => rng
            .pick(&[
                format!("{{\"method\":\"t.Echo\",\"parameters\":{{\"client\":\"{client}\",\"seq\":1,\"payload\":\"x\"}}}}"),
                format!("{{\"method\":\"t.Echo\",\"parameters\":{{\"client\":{client},\"seq\":-1,\"payload\":\"x\"}}}}"),
                format!("{{\"method\":\"t.Echo\",\"parameters\":{{\"client\":{client},\"seq\":1}}}}"),
                format!("{{\"method\":\"t.Fail\",\"parameters\":[{client},1]}}"),
                format!("{{\"method\":\"t.Fail\",\"parameters\":{{\"client\":{client},\"seq\":1}},\"oneway\":\"yes\"}}"),
            ])
            .clone()
            .into_bytes(),
        "unknown-method" => rng
            .pick(&["{\"method\":\"t.Nope\"}", "{\"method\":\"org.varlink.service.GetInfo\"}", "{\"method\":\"t.echo\",\"parameters\":{}}", "{\"parameters\":{}}"])
            .as_bytes()
            .to_vec(),
        "escaped-string-for-borrowed-field" => {
            format!("{{\"method\":\"t.Echo\",\"parameters\":{{\"client\":{client},\"seq\":1,\"payload\":\"a\\nb\"}}}}").into_bytes()
        }
        "invalid-utf8-in-ignored-member" => {
            let mut b = format!("{{\"method\":\"t.Fail\",\"parameters\":{{\"client\":{client},\"seq\":77}},\"junk\":\"").into_bytes();
            b.extend_from_slice(&[0xff, 0xfe, 0xc3]);
            b.extend_from_slice(b"\"}");
            b
        }
        "not-an-object" => rng.pick(&["null", "42", "\"t.Echo\"", "[]", " "]).as_bytes().to_vec(),
        "long-non-ascii-text-frame" => {
            // valid UTF-8, refused by the service's method type, long, with multi-byte characters at every
            // alignment (whatever the server does with the text of a refused frame must cope with it)
            let pad = "x".repeat(rng.below(8));
            let body: String = (0..rng.range(30, 160)).map(|_| *rng.pick(&['é', '日', '😀', 'ß', 'a', '本', '\u{7ff}', '\u{ffff}'])).collect();
            match rng.below(3) {
                0 => format!("{{\"method\":\"t.Nope{pad}{body}\"}}"),
                1 => format!("{{\"method\":\"t.Echo\",\"parameters\":{{\"client\":\"{pad}{body}\",\"seq\":1,\"payload\":\"x\"}}}}"),
                _ => format!("{pad}{body}"),
            }
            .into_bytes()
        }
        // one frame of one to three MiB (far below the limit, far above anything a buffer-management heuristic would
        // consider ordinary) that is no call: plain text, text inside a JSON string, or a huge unknown member
        "huge-frame" => {
            let n = rng.range(1_050_000, 3_200_000);
            let fill = |n: usize| -> String { (0..n).map(|k| (b'a' + (k % 23) as u8) as char).collect() };
            match rng.below(3) {
                0 => fill(n),
                1 => format!("{{\"method\":\"t.Nope\",\"parameters\":{{\"text\":\"{}\"}}}}", fill(n)),
                _ => format!("{{\"method\":\"t.Echo\",\"parameters\":{{\"client\":\"{}\",\"seq\":1,\"payload\":\"x\"}}}}", fill(n)),
            }
            .into_bytes()
        }
        // stray terminators: one to three empty frames (the trailing NUL is added below)
        "empty-frames" => vec![0; rng.below(3)],
        _ => unreachable!("{kind}"),
    };
    // fault frames are NUL-terminated like any other; garbage may contain NULs of its own
    v.push(0);
    v
}

pub struct Built {
    pub scn: Scenario,
    pub faulty: usize,
    pub chains: Vec<Vec<Ev>>,
    pub kind: &'static str,
    pub pos: usize,
}

/// Build a scenario with one faulty connection (fault `kind` at position `pos` of its script).
pub fn build(rng: &mut Rng, kind: &'static str, pos: usize, nhealthy: usize, small_layer: bool) -> Built {
    let nconn = nhealthy + 1;
    let faulty = rng.below(nconn);
    let mut scn = Scenario::default();
    let mut chains: Vec<Vec<Ev>> = Vec::new();
    for i in 0..nconn {
        let client = i as u32;
        if i != faulty {
            let n = rng.range(1, 4);
            let with_streams = rng.chance(1, 3);
            let cs = calls(rng, n, 1, with_streams);
            let mut c = ConnScn { calls: cs, ..Default::default() };
            let stream = c.stream(client);
            c.cuts = match rng.below(3) {
                0 => vec![],
                1 => frame_cuts(&stream),
                _ => random_cuts(rng, stream.len(), 3),
            };
            chains.push(vec![Ev::Accept(i)]);
            let mut d: Vec<Ev> = (0..c.chunks(client).len()).map(|_| Ev::Deliver(i)).collect();
            // healthy streams produce items and (usually) end
            for k in c.calls.iter().filter(|k| k.kind == Kind::Sub) {
                let mut s = Vec::new();
                let ni = rng.below(4);
                let fin = rng.chance(1, 3);
                for n in 0..ni {
                    s.push(Ev::Item { client, seq: k.seq, n: n as u32, continues: if fin && n + 1 == ni { Some(false) } else { Some(true) } });
                }
                if rng.chance(4, 5) {
                    s.push(Ev::Close { client, seq: k.seq });
                }
                if !s.is_empty() {
                    chains.push(s);
                }
            }
            if rng.chance(1, 5) {
                d.push(Ev::Eof(i));
            }
            chains.push(d);
            scn.conns.push(c);
            continue;
        }
        // ---- the faulty one
        let nvalid = pos + rng.below(2);
        let valid = calls(rng, nvalid, 1, false);
        let mut c = ConnScn { calls: valid.clone(), faulty: true, ..Default::default() };
        let enc = |cs: &[CallSpec]| -> Vec<u8> { cs.iter().flat_map(|k| k.bytes(client)).collect() };
        let mut chain: Vec<Ev> = Vec::new();
        let mut extra_chains: Vec<Vec<Ev>> = Vec::new();
        match kind {
            "truncated-frame-then-eof" => {
                let mut raw = enc(&valid[..pos]);
                let next = CallSpec { kind: Kind::Echo, seq: 90, oneway: false, more: false, payload: "truncated".into() }.bytes(client);
                let cut = rng.range(1, next.len() - 2);
                raw.extend_from_slice(&next[..cut]);
                c.cuts = random_cuts(rng, raw.len(), 2);
                c.raw = Some(raw);
                chain.extend((0..c.chunks(client).len()).map(|_| Ev::Deliver(i)));
                chain.push(Ev::Eof(i));
            }
            "eof-mid-burst" | "read-error" => {
                let raw = enc(&valid);
                c.cuts = {
                    let mut cuts = random_cuts(rng, raw.len(), 3);
                    // make sure there is a cut inside or between frames after `pos` calls
                    let at: usize = valid[..pos.min(valid.len())].iter().map(|k| k.bytes(client).len()).sum();
                    let extra = (at + rng.below(8)).min(raw.len().saturating_sub(1));
                    if extra > 0 {
                        cuts.push(extra);
                    }
                    cuts.sort_unstable();
                    cuts.dedup();
                    cuts
                };
                c.raw = Some(raw);
                if kind == "read-error" {
                    c.read_err_kind = rng.below(4) as u8;
                }
                let n = c.chunks(client).len();
                let when = rng.below(n + 1);
                for k in 0..n {
                    if k == when {
                        chain.push(if kind == "read-error" { Ev::RdErr(i) } else { Ev::Eof(i) });
                    }
                    chain.push(Ev::Deliver(i));
                }
                if when == n {
                    chain.push(if kind == "read-error" { Ev::RdErr(i) } else { Ev::Eof(i) });
                }
            }
            "write-error-on-kth-write" => {
                let mut v = valid.clone();
                while v.len() <= pos {
                    v.push(CallSpec { kind: Kind::Echo, seq: 50 + v.len() as u32, oneway: false, more: false, payload: "w".into() });
                }
                c.calls = v.clone();
                c.raw = Some(enc(&v));
                c.fail_write_at = Some(pos);
                c.write_err_kind = rng.below(5) as u8;
                c.cuts = random_cuts(rng, c.raw.as_ref().unwrap().len(), 2);
                chain.extend((0..c.chunks(client).len()).map(|_| Ev::Deliver(i)));
            }
            "fault-while-streaming" | "write-error-on-stream-item" => {
                // valid[..pos], then a streaming call, then (garbage | more calls) behind it
                let mut v: Vec<CallSpec> = valid[..pos.min(valid.len())].to_vec();
                v.push(CallSpec { kind: Kind::Sub, seq: 60, oneway: false, more: true, payload: String::new() });
                let mut raw = enc(&v);
                let nitems = rng.range(1, 3);
                if kind == "fault-while-streaming" {
                    let fk = *rng.pick(&["garbage-bytes", "malformed-frame", "unknown-method"]);
                    raw.extend_from_slice(&fault_frame(rng, fk, client));
                    raw.extend_from_slice(&enc(&[CallSpec { kind: Kind::Echo, seq: 61, oneway: false, more: false, payload: "behind".into() }]));
                } else {
                    let answered = v.iter().filter(|k| !k.oneway && k.kind != Kind::Sub).count();
                    c.fail_write_at = Some(answered + rng.below(nitems));
                    c.write_err_kind = rng.below(5) as u8;
                    raw.extend_from_slice(&enc(&[CallSpec { kind: Kind::Echo, seq: 61, oneway: false, more: false, payload: "behind".into() }]));
                }
                c.cuts = random_cuts(rng, raw.len(), 2);
                c.raw = Some(raw);
                chain.extend((0..c.chunks(client).len()).map(|_| Ev::Deliver(i)));
                // the last item may be marked final by the service (continues: false) - and may be the one whose write fails
                let final_marked = rng.chance(1, 2);
                if kind == "write-error-on-stream-item" && final_marked && rng.chance(2, 3) {
                    let answered = v.iter().filter(|k| !k.oneway && k.kind != Kind::Sub).count();
                    c.fail_write_at = Some(answered + nitems - 1);
                    c.write_err_kind = rng.below(5) as u8;
                }
                let mut s: Vec<Ev> = (0..nitems).map(|n| Ev::Item { client, seq: 60, n: n as u32, continues: if final_marked && n + 1 == nitems { Some(false) } else { Some(true) } }).collect();
                if rng.chance(2, 3) {
                    s.push(Ev::Close { client, seq: 60 });
                }
                if rng.chance(1, 3) {
                    s.push(Ev::Eof(i));
                }
                extra_chains.push(s);
            }
            "oversized-frame" => {
                let (limit, step) = limits();
                let mut raw = enc(&valid[..pos.min(valid.len())]);
                let n = if small_layer { limit + 2 * step + rng.below(300) } else { 2000 };
                raw.extend(std::iter::repeat(b'a').take(n));
                if rng.chance(1, 2) {
                    raw.push(0);
                    raw.extend_from_slice(&enc(&valid[pos.min(valid.len())..]));
                }
                c.cuts = random_cuts(rng, raw.len(), 3);
                c.raw = Some(raw);
                chain.extend((0..c.chunks(client).len()).map(|_| Ev::Deliver(i)));
            }
            _ => {
                let p = pos.min(valid.len());
                let mut raw = enc(&valid[..p]);
                raw.extend_from_slice(&fault_frame(rng, kind, client));
                if rng.chance(1, 3) {
                    let k2 = *rng.pick(&["garbage-bytes", "malformed-frame", "unknown-method"]);
                    raw.extend_from_slice(&fault_frame(rng, k2, client));
                }
                raw.extend_from_slice(&enc(&valid[p..]));
                c.cuts = match rng.below(3) {
                    0 => vec![],
                    1 => frame_cuts(&raw),
                    _ => random_cuts(rng, raw.len(), 3),
                };
                c.raw = Some(raw);
                chain.extend((0..c.chunks(client).len()).map(|_| Ev::Deliver(i)));
                if rng.chance(1, 4) {
                    chain.push(Ev::Eof(i));
                }
            }
        }
        chains.push(vec![Ev::Accept(i)]);
        chains.push(chain);
        chains.extend(extra_chains);
        scn.conns.push(c);
    }
    Built { scn, faulty, chains, kind, pos }
}

fn limits() -> (usize, usize) {
    #[cfg(zlink_verif)]
    {
        zlink_core::verif::buffer_limits()
    }
    #[cfg(not(zlink_verif))]
    {
        (100 * 1024 * 1024, 256)
    }
}

fn touches(e: &Ev, f: usize) -> bool {
    match e {
        Ev::Accept(c) | Ev::Deliver(c) | Ev::Eof(c) | Ev::RdErr(c) => *c == f,
        Ev::Item { client, .. } | Ev::Close { client, .. } => *client as usize == f,
        Ev::Multi(v) => v.iter().any(|e| touches(e, f)),
        Ev::Nop => false,
    }
}

/// The same scenario as if the faulty client had never existed.
pub fn without(scn: &Scenario, f: usize) -> Scenario {
    let mut b = scn.clone();
    b.steps.retain(|s| !touches(&s.ev, f));
    b
}

fn check(b: &Built, rep: &mut Report) {
    let scn = &b.scn;
    let f = b.faulty;
    rep.eval(scn.hash());
    rep.count(&format!("fault.{}", b.kind));
    let replay = || {
        let mut j = scn.to_json("c09");
        j["faulty"] = json!(f);
        j["fault"] = json!(b.kind);
        j
    };
    let desc = || format!("fault {} at position {} on conn{}; {}", b.kind, b.pos, f, scn.describe());
    let a = match run_world_caught(scn.world()) {
        Err(p) => {
            world_failure(rep, "C09", &p, format!("{}", desc()), replay());
            return;
        }
        Ok(o) => o,
    };
    let scn_b = without(scn, f);
    let bb = match run_world_caught(scn_b.world()) {
        Err(p) => {
            rep.inconclusive.push(format!("reference run without the faulty client panicked: {p}"));
            return;
        }
        Ok(o) => o,
    };
    if bb.server_exit.is_some() {
        rep.inconclusive.push("reference run without the faulty client: server exited".into());
        return;
    }
    if let Some(e) = &a.server_exit {
        rep.violation("C09/server-stopped-because-of-one-client", format!("Server::run returned {e}; {}", desc()), replay());
        return;
    }
    if a.no_quiescence {
        rep.violation("C09/server-never-quiescent", desc(), replay());
        return;
    }
    if scn.coop > 0 {
        rep.count("cases_under_a_cooperative_budget");
    }
    if scn.wake {
        rep.count("wake_driven_cases");
        rep.add("wake_driven_waker_firings", a.wakes);
    }
    let last = a.checkpoints.last();
    if let Some(cp) = last {
        if cp.dropped[f] {
            rep.count("faulty_connection_closed_by_server");
        } else {
            rep.count("faulty_connection_still_open_at_end");
        }
    }
    for l in &a.warns {
        if l.contains("Error reading") {
            rep.count("server_warn_read_error");
        } else if l.contains("Error writing") {
            rep.count("server_warn_write_error");
        }
    }
    let mut bad = false;
    for (i, c) in scn.conns.iter().enumerate() {
        if i == f {
            continue;
        }
        if a.written[i] != bb.written[i] {
            bad = true;
            let (fa, fb) = (parse_output(&a.written[i]), parse_output(&bb.written[i]));
            let sig = match (&fa, &fb) {
                (Ok(x), Ok(y)) if x.len() < y.len() && x[..] == y[..x.len()] => "C09/healthy-client-lost-answers-because-of-the-faulty-one",
                (Ok(x), Ok(y)) if x.len() > y.len() && x[..y.len()] == y[..] => "C09/healthy-client-got-extra-frames-because-of-the-faulty-one",
                (Err(_), _) => "C09/healthy-client-output-corrupted",
                _ => "C09/healthy-client-output-differs-from-run-without-the-faulty-one",
            };
            rep.violation(sig, format!("conn{i}: with faulty client: {} ; without: {} ; {}", vnet::json::show(&a.written[i]), vnet::json::show(&bb.written[i]), desc()), replay());
        }
        let sent_eof = scn.steps.iter().any(|s| touches(&s.ev, i) && matches!(s.ev, Ev::Eof(_)));
        if let (Some(ca), Some(cb)) = (a.checkpoints.last(), bb.checkpoints.last()) {
            if ca.dropped[i] && !cb.dropped[i] && !sent_eof && c.fail_write_at.is_none() {
                bad = true;
                rep.violation("C09/healthy-connection-closed-because-of-the-faulty-one", format!("conn{i} was closed by the server; {}", desc()), replay());
            }
        }
        let la: Vec<_> = a.log.iter().filter(|l| l.client as usize == i).map(|l| (l.seq, l.kind, l.oneway)).collect();
        let lb: Vec<_> = bb.log.iter().filter(|l| l.client as usize == i).map(|l| (l.seq, l.kind, l.oneway)).collect();
        if la != lb {
            bad = true;
            rep.violation("C09/service-saw-different-healthy-calls-because-of-the-faulty-one", format!("conn{i}: with {la:?} without {lb:?}; {}", desc()), replay());
        }
        rep.add("healthy_frames_compared", a.written[i].iter().filter(|b| **b == 0).count() as u64);
    }
    // the faulty client's own connection: what it is owed is not constrained - except that answers stay in
    // position. If the server answers a call that follows a frame it could not serve, that frame must have been
    // answered with something too (an error reply); otherwise the client, which matches replies to calls by
    // position, reads every later answer as the answer to the previous call.
    if let (Some(raw), Ok(out_frames)) = (&scn.conns[f].raw, parse_output(&a.written[f])) {
        let (in_frames, _) = vnet::split_frames(raw);
        let mut expecting_before = 0usize; // reply-expecting frames (served or not) in front of the current one
        let mut unserved_before = false;
        let mut streams_before = false;
        for fr in in_frames.iter().filter(|x| !x.is_empty()) {
            match serde_json::from_slice::<zlink_core::Call<M<'_>>>(fr) {
                Ok(c) => {
                    let (seq, is_sub) = match c.method() {
                        M::Echo { seq, .. } | M::Fail { seq, .. } | M::Poison { seq, .. } => (*seq, false),
                        M::Sub { seq, .. } => (*seq, true),
                    };
                    if c.oneway() {
                        continue;
                    }
                    if is_sub {
                        streams_before = true;
                    }
                    if unserved_before && !streams_before {
                        if let Some(at) = out_frames.iter().position(|o| o["parameters"]["client"] == json!(f) && o["parameters"]["seq"] == json!(seq) && o["parameters"].get("n").is_none()) {
                            rep.count("faulty_client_answers_checked_for_position");
                            if at < expecting_before {
                                bad = true;
                                rep.violation(
                                    "C09/answer-out-of-position-behind-an-unanswered-call",
                                    format!("conn{f}: the answer to call #{seq} is frame {at} of its connection, but {expecting_before} frames that expect a reply were sent before that call (one of which the server could not serve and did not answer): a client that matches replies by position reads it as the answer to an earlier call; output {}; {}", vnet::json::show(&a.written[f]), desc()),
                                    replay(),
                                );
                                break;
                            }
                        }
                    }
                    expecting_before += 1;
                }
                Err(_) => {
                    // not a call of the service: expects a reply unless it says oneway itself
                    let oneway = serde_json::from_slice::<serde_json::Value>(fr).ok().map_or(false, |v| v["oneway"] == json!(true));
                    if !oneway {
                        expecting_before += 1;
                        unserved_before = true;
                    }
                }
            }
        }
    }
    // the healthy connections must also match the sequential reference on their own
    let mut stats = std::collections::BTreeMap::new();
    for (sig, detail) in check_reference("C09", scn, &a, &mut stats) {
        bad = true;
        rep.violation(&sig, format!("{detail}; {}", desc()), replay());
    }
    if !bad {
        rep.count("cases_ok");
    }
}

/// A long history: `n` faulty clients come and go one after the other (fault kinds in rotation) while a
/// resident healthy client keeps calling; at the end a newcomer connects. The server must still accept and
/// serve (anything that leaks per lost client - a slot, a list entry, a counter - shows up here).
pub fn churn(rng: &mut Rng, n: usize, wake: bool) -> Scenario {
    let mut scn = Scenario { wake, lean: true, ..Default::default() };
    let resident = 0usize;
    let pings = 8usize;
    scn.conns.push(ConnScn {
        calls: (0..pings).map(|j| CallSpec { kind: Kind::Echo, seq: 1 + j as u32, oneway: false, more: false, payload: format!("ping{j}") }).collect(),
        ..Default::default()
    });
    let rstream = scn.conns[0].stream(0);
    scn.conns[0].cuts = frame_cuts(&rstream);
    let q = |ev: Ev| Step { ev, mode: Mode::Quiesce };
    let b = |ev: Ev| Step { ev, mode: Mode::Batch };
    scn.steps.push(q(Ev::Accept(resident)));
    let every = (n / pings).max(1);
    let mut pinged = 0;
    for k in 0..n {
        let i = scn.conns.len();
        let client = i as u32;
        let sub = CallSpec { kind: Kind::Sub, seq: 1, oneway: false, more: true, payload: String::new() };
        let echo = CallSpec { kind: Kind::Echo, seq: 2, oneway: false, more: false, payload: "x".into() };
        let mut c = ConnScn { faulty: true, ..Default::default() };
        match k % 6 {
            0 => {
                // subscriber whose first stream item is ready at once and can not be written
                c.raw = Some(sub.bytes(client));
                c.fail_write_at = Some(0);
                c.write_err_kind = rng.below(5) as u8;
                scn.steps.push(b(Ev::Accept(i)));
                scn.steps.push(b(Ev::Item { client, seq: 1, n: 0, continues: Some(true) }));
                scn.steps.push(q(Ev::Deliver(i)));
            }
            1 => {
                // subscriber that becomes unwritable at a later item
                c.raw = Some(sub.bytes(client));
                c.fail_write_at = Some(1);
                c.write_err_kind = rng.below(5) as u8;
                scn.steps.push(q(Ev::Accept(i)));
                scn.steps.push(q(Ev::Deliver(i)));
                scn.steps.push(q(Ev::Item { client, seq: 1, n: 0, continues: Some(true) }));
                scn.steps.push(q(Ev::Item { client, seq: 1, n: 1, continues: Some(true) }));
            }
            2 => {
                c.raw = Some(fault_frame(rng, "garbage-bytes", client));
                scn.steps.push(b(Ev::Accept(i)));
                scn.steps.push(q(Ev::Deliver(i)));
            }
            3 => {
                // a call whose reply can not be written
                c.raw = Some(echo.bytes(client));
                c.fail_write_at = Some(0);
                c.write_err_kind = rng.below(5) as u8;
                scn.steps.push(q(Ev::Accept(i)));
                scn.steps.push(q(Ev::Deliver(i)));
            }
            4 => {
                c.raw = Some(echo.bytes(client));
                scn.steps.push(b(Ev::Accept(i)));
                scn.steps.push(b(Ev::Deliver(i)));
                scn.steps.push(q(if k % 12 == 4 { Ev::Eof(i) } else { Ev::RdErr(i) }));
            }
            _ => {
                // subscriber that hangs up while its stream is open, then the stream ends
                c.raw = Some(sub.bytes(client));
                scn.steps.push(q(Ev::Accept(i)));
                scn.steps.push(q(Ev::Deliver(i)));
                scn.steps.push(b(Ev::Eof(i)));
                scn.steps.push(q(Ev::Close { client, seq: 1 }));
            }
        }
        scn.conns.push(c);
        if k % every == every - 1 && pinged + 1 < pings {
            scn.steps.push(q(Ev::Deliver(resident)));
            pinged += 1;
        }
    }
    // the newcomer
    let i = scn.conns.len();
    scn.conns.push(ConnScn { calls: vec![CallSpec { kind: Kind::Echo, seq: 1, oneway: false, more: false, payload: "newcomer".into() }], ..Default::default() });
    scn.steps.push(q(Ev::Accept(i)));
    scn.steps.push(q(Ev::Deliver(i)));
    while pinged < pings {
        scn.steps.push(q(Ev::Deliver(resident)));
        pinged += 1;
    }
    scn
}

fn check_churn(scn: &Scenario, n: usize, rep: &mut Report) {
    rep.eval(scn.hash());
    rep.count("churn_histories");
    rep.add("churn_faulty_clients", n as u64);
    let mut j = scn.to_json("c09");
    // the replay file holds the recipe, not thousands of connections
    j = json!({"monitor": "c09", "churn": n, "wake": scn.wake, "first_conns": j["conns"].as_array().map(|a| a.iter().take(3).cloned().collect::<Vec<_>>())});
    // (no watchdog here: this one world legitimately runs for a long time)
    let out = match vnet::catch(|| run_world(&scn.world())) {
        Err(p) => {
            world_failure(rep, "C09", &p, format!("churn of {n} faulty clients"), j);
            return;
        }
        Ok(o) => o,
    };
    if let Some(e) = &out.server_exit {
        rep.violation("C09/server-stopped-because-of-one-client", format!("Server::run returned {e}; churn of {n} faulty clients"), j);
        return;
    }
    let mut stats = std::collections::BTreeMap::new();
    for (sig, detail) in check_reference("C09", scn, &out, &mut stats) {
        rep.violation(&format!("{sig}:after-many-lost-clients"), format!("{detail}; churn of {n} faulty clients (kinds in rotation: unwritable subscriber at the first / a later item, garbage, unwritable reply, EOF / read error, hang-up during a stream), a resident client pinging throughout and a newcomer at the end{}", if scn.wake { " [wake-driven]" } else { "" }), j.clone());
    }
    let still_open = out.checkpoints.last().map(|cp| cp.dropped.iter().filter(|d| !**d).count()).unwrap_or(0);
    rep.max("max_connections_still_held_after_churn", still_open as u64);
}

pub fn run(cfg: &Cfg) -> Report {
    let mut rep = Report::new("C09", "c09");
    if let Some(r) = &cfg.replay {
        if let Some(n) = r.get("churn").and_then(|n| n.as_u64()) {
            let mut rng = cfg.rng(92);
            let scn = churn(&mut rng, n as usize, r["wake"].as_bool().unwrap_or(false));
            check_churn(&scn, n as usize, &mut rep);
            return rep;
        }
        let scn = Scenario::from_json(r);
        let b = Built { faulty: r["faulty"].as_u64().unwrap_or(0) as usize, chains: vec![], kind: "replayed", pos: 0, scn };
        check(&b, &mut rep);
        rep.notes.push(format!("{:?}", run_world_caught(b.scn.world())));
        return rep;
    }
    let miri = cfg.layer == "miri";
    let small = cfg.layer == "small";
    let mut rng = cfg.rng(91);
    let per = cfg.total(if miri { 1 } else if small { 6 } else { 400 }, if miri { 3 } else if small { 60 } else { 25_000 });
    let mut idx = 0u64;
    for kind in FAULTS {
        if small != (*kind == "oversized-frame") && small {
            continue; // the lowered-limit build only adds the oversized fault
        }
        if *kind == "oversized-frame" && !small {
            continue;
        }
        if *kind == "huge-frame" && (miri || small) {
            continue;
        }
        for pos in 0..3usize {
            idx += 1;
            if !cfg.mine(idx) {
                continue;
            }
            for k in 0..(if *kind == "huge-frame" { (per / 60).max(2) } else { per }) {
                let nhealthy = if miri { 1 } else { rng.range(1, 3) };
                let mut b = build(&mut rng, kind, pos, nhealthy, small);
                b.scn.wake = rng.chance(1, 3);
                // every fifth scenario under a cooperative budget: after a few transport operations per poll every transport
                // answers `Pending` until the server task has yielded (what tokio's sockets do after 128 operations)
                if rng.chance(1, 5) {
                    b.scn.coop = rng.range(1, 9) as u32;
                }
                // every sixth scenario: the service suspends inside handle() (an arrival or a stream item may become ready meanwhile)
                if rng.chance(1, 6) {
                    b.scn.handle_yields = rng.range(1, 2) as u8;
                }
                let total = count_interleavings(&b.chains.iter().map(|c| c.len()).collect::<Vec<_>>());
                let cap = if miri { 4 } else if small { 6 } else { 300 };
                if total <= cap && k % 2 == 0 {
                    let chains = b.chains.clone();
                    interleavings(&chains, &mut |order| {
                        b.scn.steps = order.iter().map(|e| Step { ev: e.clone(), mode: Mode::Quiesce }).collect();
                        check(&b, &mut rep);
                        true
                    });
                    rep.count("configs_all_orders");
                } else {
                    for _ in 0..(if miri { 2 } else if small { 2 } else { 12 }) {
                        let order = random_interleaving(&b.chains, &mut rng);
                        b.scn.steps = order
                            .into_iter()
                            .map(|e| Step {
                                ev: e,
                                mode: match rng.below(5) {
                                    0 => Mode::Batch,
                                    1 => Mode::InHandle,
                                    _ => Mode::Quiesce,
                                },
                            })
                            .collect();
                        check(&b, &mut rep);
                    }
                    rep.count("configs_sampled_orders");
                }
                if k == 0 {
                    rep.sample(14, || json!({"fault": kind, "position": pos, "scenario": b.scn.describe()}));
                }
            }
        }
    }
    // long histories of lost clients: wake-driven with enough clients of every kind to exhaust any
    // plausible per-server table (> 4096 each), and a shorter one under the poll-until-quiet executor
    if !miri && !small && cfg.shard < 2 {
        let mut rng = cfg.rng(92);
        let n = if cfg.shard == 0 { if cfg.thorough { 120_000 } else { 26_000 } } else { 6_000 };
        let scn = churn(&mut rng, n, cfg.shard == 0);
        check_churn(&scn, n, &mut rep);
    }
    rep
}

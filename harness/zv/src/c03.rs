//! C03 — the built-in JSON serializer is byte-identical to serde_json's compact output.

use crate::cfg::Cfg;
use crate::vals::*;
use serde::Serialize;
use serde_json::json;
use vnet::{fnv, new_wire, Report, Rng, VSocket};
use zlink_core::{Call, Connection};

#[derive(Debug, Serialize)]
#[serde(tag = "method", content = "parameters")]
pub enum Filler {
    #[serde(rename = "f")]
    F { p: String },
}
pub const FILLER_MIN: usize = 36;

/// A call that serializes to exactly `len` bytes (`len >= FILLER_MIN`).
pub fn filler(len: usize) -> Call<Filler> {
    let c = Call::new(Filler::F { p: "x".repeat(len - FILLER_MIN) });
    debug_assert_eq!(serde_json::to_vec(&c).unwrap().len(), len);
    c
}

/// A call of exactly `len` bytes whose padding comes FIRST, so that what straddles the end of the buffer
/// (and has to be re-serialized after the buffer grew) is something else than a plain string: a value
/// written through `collect_str` (a `Display` impl), numbers, a float, a map, a char, an escape.
#[derive(Debug, Serialize)]
#[serde(tag = "method", content = "parameters")]
pub enum Varied {
    #[serde(rename = "v")]
    V {
        p: String,
        #[serde(serialize_with = "as_display")]
        addr: std::net::SocketAddr,
        n: Vec<i64>,
        f: f64,
        m: std::collections::BTreeMap<String, Option<bool>>,
        /// wide integers as keys and values (the longest numbers there are: 39 and 40 characters)
        w: std::collections::BTreeMap<u128, i128>,
        c: char,
        e: &'static str,
    },
}

fn as_display<T: std::fmt::Display, S: serde::Serializer>(v: &T, s: S) -> Result<S::Ok, S::Error> {
    s.collect_str(v)
}

pub fn filler_varied(len: usize) -> Option<Call<Varied>> {
    let mk = |pad: usize| {
        Call::new(Varied::V {
            p: "y".repeat(pad),
            addr: "[2001:db8::8a2e:370:7334]:65535".parse().unwrap(),
            n: vec![-1, 0, 9_223_372_036_854_775_807, 42],
            f: 6.02214076e23,
            m: [("k".to_string(), Some(true)), ("none".to_string(), None)].into_iter().collect(),
            w: [(u128::MAX, i128::MIN), (10u128.pow(22), -(10i128.pow(30))), (7, 7)].into_iter().collect(),
            c: 'é',
            e: "tab\there \"quoted\" \u{1}",
        })
    };
    let base = serde_json::to_vec(&mk(0)).unwrap().len();
    if len < base {
        return None;
    }
    let c = mk(len - base);
    debug_assert_eq!(serde_json::to_vec(&c).unwrap().len(), len);
    Some(c)
}

#[cfg(zlink_verif)]
fn hook(v: &V, buf: &mut [u8]) -> Result<usize, bool> {
    // Err(true) = BufferTooSmall, Err(false) = other
    zlink_core::verif::json_to_slice(v, buf)
        .map_err(|e| e == zlink_core::verif::JsonToSliceError::BufferTooSmall)
}
#[cfg(not(zlink_verif))]
fn hook(_v: &V, _buf: &mut [u8]) -> Result<usize, bool> {
    Err(false)
}
const HOOKS: bool = cfg!(zlink_verif);

struct Ctx {
    buf: Vec<u8>,
    rep: Report,
    /// distinct values are counted by the hash of their reference encoding (or Debug if refused)
    sampled: u64,
}

const CANARY: u8 = 0xA5;

impl Ctx {
    fn viol(&mut self, sig: &str, v: &V, detail: String) {
        let dbg = format!("{v:?}");
        let dbg: String = dbg.chars().take(600).collect();
        self.rep.violation(sig, format!("{detail}; value={dbg}"), json!({"monitor": "c03", "value_debug": dbg}));
    }

    /// Hook path, exact-size and roomy buffer. Fast: used for the exhaustive sub-domains.
    fn cmp_hook(&mut self, v: &V, domain: &str) {
        let reference = serde_json::to_vec(v);
        let need = reference.as_ref().map(|r| r.len()).unwrap_or(64) + 32;
        if self.buf.len() < need {
            self.buf.resize(need.next_power_of_two(), 0);
        }
        self.rep.evaluations += 1;
        match &reference {
            Ok(r) => {
                let n = r.len();
                // exact size
                self.buf[..n + 8].fill(CANARY);
                match hook(v, &mut self.buf[..n]) {
                    Ok(len) => {
                        if len != n || &self.buf[..n] != &r[..] {
                            let got = vnet::json::show(&self.buf[..len.min(n)]);
                            self.viol(&format!("C03/{domain}:bytes-differ-from-serde_json"), v, format!("expected {} got {}", vnet::json::show(r), got));
                        } else if self.buf[n..n + 8].iter().any(|b| *b != CANARY) {
                            self.viol(&format!("C03/{domain}:wrote-past-slice"), v, "canary after the slice was overwritten".into());
                        } else if let Err(e) = frame_wellformed(r) {
                            self.viol(&format!("C03/{domain}:frame-not-wellformed"), v, e);
                        }
                    }
                    Err(too_small) => {
                        if too_small {
                            self.viol(&format!("C03/{domain}:buffer-too-small-at-exact-length"), v, format!("len {n}"));
                        } else if !has_refusable_key(v) {
                            self.viol(&format!("C03/{domain}:refused-what-serde_json-encodes"), v, format!("reference {}", vnet::json::show(r)));
                        } else {
                            self.rep.count("refused_allowed_key_kind(bool/float/option)");
                        }
                    }
                }
                // one byte short must be BufferTooSmall (or the same key refusal), never Ok / panic
                if n > 0 {
                    match hook(v, &mut self.buf[..n - 1]) {
                        Ok(len) => self.viol(&format!("C03/{domain}:fits-in-shorter-buffer"), v, format!("returned {len} for buffer {}", n - 1)),
                        Err(_) => {}
                    }
                }
            }
            Err(_) => {
                self.buf[..64].fill(CANARY);
                if let Ok(len) = hook(v, &mut self.buf[..56]) {
                    let got = vnet::json::show(&self.buf[..len]);
                    self.viol(&format!("C03/{domain}:accepted-what-serde_json-refuses"), v, format!("emitted {got}"));
                } else {
                    self.rep.count("refused_by_both");
                }
            }
        }
    }

    /// Every buffer length 0..=len+2.
    fn sweep(&mut self, v: &V) {
        let Ok(r) = serde_json::to_vec(v) else { return };
        let n = r.len();
        if self.buf.len() < n + 16 {
            self.buf.resize((n + 16).next_power_of_two(), 0);
        }
        for cap in 0..=n + 2 {
            self.rep.evaluations += 1;
            self.buf[..n + 10].fill(CANARY);
            let res = hook(v, &mut self.buf[..cap]);
            let canary_ok = self.buf[cap..n + 10].iter().all(|b| *b == CANARY);
            if !canary_ok {
                self.viol("C03/sweep:wrote-past-slice", v, format!("cap {cap} of {n}"));
                return;
            }
            match res {
                Ok(len) if cap >= n => {
                    if len != n || self.buf[..n] != r[..] {
                        self.viol("C03/sweep:bytes-differ-with-roomy-buffer", v, format!("cap {cap}, len {len}, expected len {n}"));
                        return;
                    }
                }
                Ok(len) => {
                    self.viol("C03/sweep:ok-with-short-buffer", v, format!("cap {cap} < {n}, returned {len}"));
                    return;
                }
                Err(true) if cap < n => {}
                Err(true) => {
                    self.viol("C03/sweep:buffer-too-small-with-roomy-buffer", v, format!("cap {cap} >= {n}"));
                    return;
                }
                Err(false) => {
                    if !has_refusable_key(v) {
                        self.viol("C03/sweep:refused-what-serde_json-encodes", v, format!("cap {cap}"));
                    }
                    return;
                }
            }
        }
        self.rep.count("values_swept_over_all_buffer_lengths");
    }
}

/// Public path: `send_error(&v)` / `send_reply(&Reply<V>)` behind a filler that sets the free space.
fn public_path(ctx: &mut Ctx, rng: &mut Rng, n: u64, free_seen: &mut std::collections::HashSet<usize>) {
    let wire = new_wire(0);
    let mut conn = Connection::new(VSocket(wire.clone()));
    let opts = GenOpts { bad_key_one_in: 25, fail_one_in: 0 };
    for i in 0..n {
        let d = rng.below(6);
        let v = rand_tree(rng, d, &opts);
        let reference = serde_json::to_vec(&v);
        let as_reply = rng.chance(1, 3);
        let reference = if as_reply {
            // Reply<V>: {"parameters":<v>} — serde_json on the real Reply type is the reference
            serde_json::to_vec(&zlink_core::Reply::new(Some(&v)))
        } else {
            reference
        };
        // filler to move the write position
        let mut expect = Vec::new();
        if rng.chance(2, 3) {
            let len = FILLER_MIN + rng.below(600);
            let f = filler(len);
            conn.enqueue_call(&f).expect("filler");
            expect.extend(serde_json::to_vec(&f).unwrap());
            expect.push(0);
        }
        #[cfg(zlink_verif)]
        {
            let (pos, blen) = conn.write().verif_state();
            free_seen.insert(blen - pos);
        }
        let _ = &free_seen;
        let before = wire.borrow().writes.len();
        let res = if as_reply {
            vnet::block_on(conn.send_reply(&zlink_core::Reply::new(Some(&v))), 4)
        } else {
            vnet::block_on(conn.send_error(&v), 4)
        };
        ctx.rep.evaluations += 1;
        ctx.rep.distinct.insert(fnv(format!("{v:?}").as_bytes()) ^ 0x5555);
        let res = res.expect("virtual write never pends");
        match (&res, &reference) {
            (Ok(()), Ok(r)) => {
                expect.extend_from_slice(r);
                expect.push(0);
                let w = wire.borrow();
                if w.writes.len() != before + 1 || w.writes[before] != expect {
                    let got = w.writes.get(before).map(|b| vnet::json::show(b)).unwrap_or_default();
                    drop(w);
                    ctx.viol("C03/public-path:bytes-differ-from-serde_json", &v, format!("expected {} got {}", vnet::json::show(&expect), got));
                } else if let Err(e) = frame_wellformed(r) {
                    drop(w);
                    ctx.viol("C03/public-path:frame-not-wellformed", &v, e);
                }
                if i < 4 {
                    ctx.rep.sample(12, || json!({"path": if as_reply {"send_reply"} else {"send_error"}, "wire": vnet::json::show(r)}));
                }
            }
            (Ok(()), Err(_)) => {
                ctx.viol("C03/public-path:accepted-what-serde_json-refuses", &v, String::new());
            }
            (Err(_), r) => {
                if r.is_ok() && !has_refusable_key(&v) {
                    ctx.viol("C03/public-path:refused-what-serde_json-encodes", &v, format!("{res:?}"));
                } else {
                    ctx.rep.count("public_path_refusals");
                }
                // nothing of the refused value may reach the wire: flush and compare
                let sentinel = filler(FILLER_MIN + 3);
                let _ = vnet::block_on(conn.send_call(&sentinel), 4).unwrap();
                expect.extend(serde_json::to_vec(&sentinel).unwrap());
                expect.push(0);
                let w = wire.borrow();
                let got: Vec<u8> = w.writes[before..].concat();
                if got != expect {
                    drop(w);
                    ctx.viol("C03/public-path:refused-value-left-bytes-behind", &v, format!("expected {} got {}", vnet::json::show(&expect), vnet::json::show(&got)));
                }
            }
        }
        wire.borrow_mut().writes.clear();
    }
}

pub fn run(cfg: &Cfg) -> Report {
    let mut ctx = Ctx { buf: vec![0; 4096], rep: Report::new("C03", "c03"), sampled: 0 };
    let miri = cfg.layer == "miri";
    if !HOOKS {
        ctx.rep.inconclusive.push("built without --cfg zlink_verif: hook-path sub-checks skipped".into());
    }
    let mut idx = 0u64;
    let mut mine = |cfg: &Cfg| {
        idx += 1;
        cfg.mine(idx >> 10) // blocks of 1024 per shard
    };

    if HOOKS {
        // (1) every Unicode scalar as str / char / map key / struct-less collect_str
        let step = if miri { 16411 } else { 1 };
        let mut c = 0u32;
        while c <= 0x10FFFF {
            if let Some(ch) = char::from_u32(c) {
                if mine(cfg) {
                    ctx.cmp_hook(&V::Str(ch.to_string()), "scalar-as-str");
                    ctx.cmp_hook(&V::Char(ch), "scalar-as-char");
                    ctx.cmp_hook(&V::Map(vec![(V::Str(ch.to_string()), V::Unit)], true, true), "scalar-as-key");
                    ctx.cmp_hook(&V::Map(vec![(V::Char(ch), V::Unit)], false, false), "scalar-as-char-key");
                    ctx.rep.count("unicode_scalars_covered");
                }
            }
            c += step;
        }
        if miri {
            // all 256 first bytes of the escape table are hit by U+0000..U+00FF
            for c in 0u32..=0xFF {
                if !cfg.mine(c as u64) {
                    continue;
                }
                let ch = char::from_u32(c).unwrap();
                ctx.cmp_hook(&V::Str(format!("a{ch}b{ch}")), "escape-table");
                ctx.cmp_hook(&V::Map(vec![(V::Char(ch), V::Str(ch.to_string()))], true, true), "escape-table");
            }
        }
        // (2) all pairs of escape-relevant code points
        let mut pair_no = 0u64;
        for a in ESCAPE_RELEVANT {
            for b in ESCAPE_RELEVANT {
                pair_no += 1;
                if (!miri && mine(cfg)) || (miri && pair_no % 7 == 0 && cfg.mine(pair_no / 7)) {
                    ctx.cmp_hook(&V::Str(format!("{a}{b}")), "escape-pairs");
                    ctx.cmp_hook(&V::Str(format!("x{a}y{b}z")), "escape-pairs");
                    ctx.rep.count("escape_pairs_covered");
                }
            }
        }
        // (3) all i8/u8/i16/u16 as values and as keys
        if !miri {
            for x in i16::MIN..=i16::MAX {
                if mine(cfg) {
                    ctx.cmp_hook(&V::I16(x), "all-i16");
                    ctx.cmp_hook(&V::U16(x as u16), "all-u16");
                    ctx.cmp_hook(&V::Map(vec![(V::I16(x), V::U16(x as u16))], true, true), "all-i16-keys");
                    ctx.cmp_hook(&V::Map(vec![(V::U16(x as u16), V::None)], true, false), "all-u16-keys");
                    if x >= i8::MIN as i16 && x <= i8::MAX as i16 {
                        ctx.cmp_hook(&V::I8(x as i8), "all-i8");
                        ctx.cmp_hook(&V::U8(x as u8), "all-u8");
                        ctx.cmp_hook(&V::Map(vec![(V::I8(x as i8), V::U8(x as u8)), (V::U8(x as u8), V::I8(x as i8))], false, true), "all-i8-keys");
                    }
                    ctx.rep.count("small_ints_covered");
                }
            }
        }
        // (3b) byte arrays of every length 0..=1100 (serialize_bytes), values cycling through one-, two- and
        // three-digit numbers; Display-driven strings (collect_str), also with a Display that carries on after a
        // failed piece, swept over every buffer length
        for len in 0..=(if miri { 70usize } else { 1100 }) {
            // (under Miri the lengths are dealt out one by one: blocks of 1024 would all land on the first shard)
            if (miri && !cfg.mine(len as u64)) || (!miri && !mine(cfg)) {
                continue;
            }
            let bytes: Vec<u8> = (0..len).map(|i| [7u8, 42, 255, 0, 9, 10, 99, 100, 200][(i + len) % 9]).collect();
            ctx.cmp_hook(&V::Bytes(bytes.clone()), "all-byte-array-lengths");
            ctx.cmp_hook(&V::Struct("S", vec![("sig", V::Bytes(bytes.clone())), ("n", V::U8(1))]), "all-byte-array-lengths");
            if len % 16 == 0 || len < 70 {
                ctx.sweep(&V::Seq(vec![V::Bytes(bytes), V::Bool(true)], true));
            }
            ctx.rep.count("byte_array_lengths_covered");
        }
        {
            let mut rng = cfg.rng(35);
            for _ in 0..(if miri { 6 } else { 400 }) {
                let parts: Vec<String> = (0..rng.range(1, 5)).map(|_| rand_string(&mut rng, 12)).collect();
                let v = V::Struct("D", vec![("when", V::CollectStrLossy(parts.clone())), ("k", V::Map(vec![(V::CollectStrLossy(parts), V::I8(1))], true, true))]);
                ctx.cmp_hook(&v, "display-strings");
                ctx.sweep(&v);
            }
        }
        // (4) integer boundaries
        let mut b = Vec::new();
        for p in 0..128u32 {
            let x = 1i128.checked_shl(p).unwrap_or(0);
            b.extend([x.wrapping_sub(1), x, x.wrapping_add(1), x.wrapping_neg(), x.wrapping_neg().wrapping_sub(1)]);
        }
        for p in 0..39u32 {
            let x = 10i128.pow(p);
            b.extend([x - 1, x, x + 1, -x, -x - 1, -x + 1]);
        }
        b.extend([i128::MIN, i128::MAX, 0, -1]);
        for (bi, x) in b.into_iter().enumerate() {
            if miri && !(bi % 11 == 0 && cfg.mine((bi / 11) as u64)) {
                continue;
            }
            ctx.cmp_hook(&V::I128(x), "int-boundaries");
            ctx.cmp_hook(&V::U128(x as u128), "int-boundaries");
            ctx.cmp_hook(&V::I64(x as i64), "int-boundaries");
            ctx.cmp_hook(&V::U64(x as u64), "int-boundaries");
            ctx.cmp_hook(&V::I32(x as i32), "int-boundaries");
            ctx.cmp_hook(&V::U32(x as u32), "int-boundaries");
            ctx.cmp_hook(&V::Map(vec![(V::I128(x), V::U128(x as u128)), (V::U64(x as u64), V::I64(x as i64))], true, true), "int-boundary-keys");
        }
        // (5) floats
        let nf = if miri { cfg.n(100, 3_000) } else { cfg.n(2_000_000, 40_000_000) };
        let mut rng = cfg.rng(31);
        for _ in 0..nf {
            ctx.cmp_hook(&V::F64(rand_f64(&mut rng)), "f64");
            ctx.cmp_hook(&V::F32(f32::from_bits(rng.next_u64() as u32)), "f32-random");
        }
        if cfg.thorough && !miri && cfg.shards >= 1 {
            // every f32 bit pattern, split over the shards
            let per = (1u64 << 32) / cfg.shards as u64;
            let lo = per * cfg.shard as u64;
            let hi = if cfg.shard + 1 == cfg.shards { 1u64 << 32 } else { lo + per };
            for bits in lo..hi {
                ctx.cmp_hook(&V::F32(f32::from_bits(bits as u32)), "all-f32");
            }
            ctx.rep.add("f32_bit_patterns_covered", hi - lo);
        }
        // (6) random trees, hook path + per-length sweep
        let nt = if miri { cfg.n(70, 2_000) } else { cfg.n(300_000, 20_000_000) };
        let opts = GenOpts { bad_key_one_in: 30, fail_one_in: 200 };
        let mut rng = cfg.rng(32);
        for i in 0..nt {
            // (under Miri: shallower trees, and the per-length sweep - quadratic in the length - only for short encodings)
            let d = if miri { rng.below(5) } else { rng.below(7) };
            let v = rand_tree(&mut rng, d, &opts);
            if has_fail(&v) {
                // both must refuse
                if hook(&v, &mut ctx.buf[..]).is_ok() {
                    ctx.viol("C03/trees:custom-serialize-error-swallowed", &v, String::new());
                }
                ctx.rep.evaluations += 1;
                continue;
            }
            ctx.rep.distinct.insert(fnv(format!("{v:?}").as_bytes()));
            ctx.cmp_hook(&v, "trees");
            if i % (if miri { 10 } else { 16 }) == 0 && (!miri || serde_json::to_vec(&v).map_or(0, |b| b.len()) <= 300) {
                ctx.sweep(&v);
            }
            if i < 3 {
                let r = serde_json::to_vec(&v).map(|b| vnet::json::show(&b)).unwrap_or_else(|e| format!("refused: {e}"));
                ctx.rep.sample(12, || json!({"path": "json_to_slice hook", "reference": r}));
            }
            ctx.sampled += 1;
        }
        // bad keys: every kind that must be refused is refused, in every position
        let mut rng = cfg.rng(33);
        for _ in 0..(if miri { 12 } else { 20_000 }) {
            let k = rand_bad_key(&mut rng);
            let v = V::Seq(vec![V::Map(vec![(V::Str("ok".into()), V::I8(1)), (k, V::Unit)], true, true)], true);
            ctx.cmp_hook(&v, "bad-keys");
        }
    }

    // (7) public path
    let mut free_seen = std::collections::HashSet::new();
    let mut rng = cfg.rng(34);
    let np = if miri { cfg.n(80, 600) } else { cfg.n(200_000, 8_000_000) };
    public_path(&mut ctx, &mut rng, np, &mut free_seen);
    ctx.rep.add("distinct_free_space_values_at_message_start", free_seen.len() as u64);
    // distinct count: exhaustive domains are distinct by construction
    let ex = ctx.rep.counters.get("unicode_scalars_covered").copied().unwrap_or(0)
        + ctx.rep.counters.get("small_ints_covered").copied().unwrap_or(0)
        + ctx.rep.counters.get("escape_pairs_covered").copied().unwrap_or(0);
    ctx.rep.add("distinct_exhaustive_domain_members", ex);
    ctx.rep
}

//! C02 — outbound framing: one JSON document plus one NUL per message, in order; one write per
//! flush; nothing written by an empty flush; a refused message leaves no trace.

use crate::c03::{filler, FILLER_MIN};
use crate::cfg::Cfg;
use crate::vals::*;
use serde_json::{json, Value};
use vnet::{fnv_mix, new_wire, Report, Rng, VSocket};
use zlink_core::{Call, Connection, Reply};

#[derive(Debug, Clone)]
enum Op {
    /// enqueue a filler call of exactly this many bytes
    EnqueueSized(usize),
    EnqueueCall(V, u8),
    SendCall(V, u8),
    SendReply(V, Option<bool>),
    SendError(V),
    Flush,
    /// a chain of one call, sent at once (everything enqueued before goes out with it, in one write)
    ChainSend(V, u8),
    /// a chain that is started and given up without being sent: its call was accepted, so it is pending like an
    /// enqueued one
    ChainDropped(V, u8),
}

fn call_of(v: &V, flags: u8) -> Call<&V> {
    Call::new(v)
        .set_oneway(flags & 1 != 0)
        .set_more(flags & 2 != 0)
        .set_upgrade(flags & 4 != 0)
}

/// A method value acceptable to `Call` (a struct or a string-keyed map), possibly poisoned.
fn rand_method(rng: &mut Rng, poison: bool) -> V {
    let opts = GenOpts { bad_key_one_in: 0, fail_one_in: 0 };
    let n = rng.range(1, 4);
    let mut fields: Vec<(&'static str, V)> = (0..n).map(|_| (name(rng), rand_tree(rng, 3, &opts))).collect();
    if rng.chance(1, 3) {
        // a long string to span growth steps
        fields.push(("pad", V::Str("p".repeat(rng.below(if cfg!(miri) { 300 } else { 900 })))));
    }
    if poison {
        let bad = if rng.chance(1, 2) {
            V::Fail
        } else {
            V::Map(vec![(V::Str("good".into()), V::I8(1)), (V::Seq(vec![], true), V::Unit)], true, true)
        };
        let at = rng.below(fields.len() + 1);
        fields.insert(at, ("poison", bad));
    }
    if rng.chance(1, 2) {
        V::Struct("M", fields)
    } else {
        V::Map(fields.into_iter().map(|(k, v)| (V::Str(k.into()), v)).collect(), true, true)
    }
}

fn rand_value(rng: &mut Rng, poison: bool) -> V {
    if poison {
        return rand_method(rng, true);
    }
    if rng.chance(1, 5) {
        return V::Derived(rand_derr(rng));
    }
    let opts = GenOpts { bad_key_one_in: 0, fail_one_in: 0 };
    let d = rng.below(5);
    rand_tree(rng, d, &opts)
}

struct Run {
    rep: Report,
    free_seen: std::collections::HashSet<usize>,
}

fn history(rng: &mut Rng, run: &mut Run, len: usize, seed_tag: u64, big: bool) {
    let wire = new_wire(0);
    let mut conn = Connection::new(VSocket(wire.clone()));
    let mut pending: Vec<Vec<u8>> = Vec::new(); // model: accepted, not yet flushed
    let mut all_accepted: Vec<u8> = Vec::new();
    let mut log: Vec<String> = Vec::new();
    let mut hash = seed_tag;
    let mut refused = 0u32;
    for step in 0..len {
        // steer: aim at a free-space value not yet seen
        #[allow(unused_mut)]
        let mut op = None;
        #[cfg(zlink_verif)]
        if rng.chance(1, 2) {
            let (pos, blen) = conn.write().verif_state();
            let want = rng.below(601);
            if !run.free_seen.contains(&want) {
                // choose L so that the position after the filler is `blen' - want`
                let target_pos = if blen >= want + pos + FILLER_MIN + 1 {
                    Some(blen - want)
                } else if want < 256 {
                    let mut m = (pos + FILLER_MIN + 1 + want).div_ceil(256) * 256;
                    if m < blen {
                        m = blen;
                    }
                    Some(m - want)
                } else {
                    None
                };
                if let Some(tp) = target_pos {
                    if tp >= pos + FILLER_MIN + 1 {
                        op = Some(Op::EnqueueSized(tp - pos - 1));
                    }
                }
            }
        }
        // "big" histories: long pipelines and single messages far beyond any plausible internal threshold
        // (tens of KiB .. 1 MiB pending at flush time); what is pending must still go out in ONE write
        if big && op.is_none() {
            op = Some(match rng.below(20) {
                0 => Op::Flush,
                1 => Op::EnqueueSized(*rng.pick(&[4095usize, 4096, 8191, 8192, 16384, 32767, 32768, 65534, 65535, 65536, 65537, 70_000, 131_071, 131_072, 200_000]) - rng.below(3)),
                2 => { let p = rng.chance(1, 6); Op::SendCall(rand_method(rng, p), rng.below(8) as u8) }
                3 => { let p = rng.chance(1, 6); Op::SendError(rand_value(rng, p)) }
                _ => Op::EnqueueSized(FILLER_MIN + 600 + rng.below(2400)),
            });
        }
        let op = op.unwrap_or_else(|| {
            let poison = rng.chance(1, 8);
            match rng.below(10) {
                0 | 1 => Op::EnqueueCall(rand_method(rng, poison), rng.below(8) as u8),
                2 => Op::SendCall(rand_method(rng, poison), rng.below(8) as u8),
                3 => Op::SendReply(rand_value(rng, poison), *rng.pick(&[None, Some(true), Some(false)])),
                4 => Op::SendError(rand_value(rng, poison)),
                5 | 6 => Op::Flush,
                7 if rng.chance(1, 2) => {
                    if rng.chance(2, 3) {
                        Op::ChainSend(rand_method(rng, poison), rng.below(4) as u8)
                    } else {
                        Op::ChainDropped(rand_method(rng, poison), rng.below(4) as u8)
                    }
                }
                7 => Op::EnqueueSized(FILLER_MIN + rng.below(40)),
                8 => {
                    // land exactly on / around the buffer end
                    #[cfg(zlink_verif)]
                    {
                        let (pos, blen) = conn.write().verif_state();
                        let room = blen - pos;
                        let delta = rng.below(5) as isize - 2; // doc end relative to buffer end
                        let l = room as isize + delta;
                        if l >= FILLER_MIN as isize { Op::EnqueueSized(l as usize) } else { Op::EnqueueSized(FILLER_MIN + 256 - (FILLER_MIN + pos) % 256) }
                    }
                    #[cfg(not(zlink_verif))]
                    Op::EnqueueSized(FILLER_MIN + rng.below(600))
                }
                _ => Op::EnqueueSized(FILLER_MIN + rng.below(1400)),
            }
        });
        #[cfg(zlink_verif)]
        {
            if !matches!(op, Op::Flush) {
                let (pos, blen) = conn.write().verif_state();
                run.free_seen.insert(blen - pos);
            }
        }
        let writes_before = wire.borrow().writes.len();
        // reference encoding of the message (None if serde_json refuses it)
        let (res, reference, flushes): (zlink_core::Result<()>, Option<Vec<u8>>, bool) = match &op {
            Op::EnqueueSized(l) => {
                let f = filler(*l);
                (conn.enqueue_call(&f), serde_json::to_vec(&f).ok(), false)
            }
            Op::EnqueueCall(v, fl) => {
                let c = call_of(v, *fl);
                (conn.enqueue_call(&c), serde_json::to_vec(&c).ok(), false)
            }
            Op::SendCall(v, fl) => {
                let c = call_of(v, *fl);
                (vnet::block_on(conn.send_call(&c), 4).unwrap(), serde_json::to_vec(&c).ok(), true)
            }
            Op::SendReply(v, cont) => {
                let r = Reply::new(Some(v)).set_continues(*cont);
                (vnet::block_on(conn.send_reply(&r), 4).unwrap(), serde_json::to_vec(&r).ok(), true)
            }
            Op::SendError(v) => (vnet::block_on(conn.send_error(v), 4).unwrap(), serde_json::to_vec(v).ok(), true),
            Op::Flush => (vnet::block_on(conn.flush(), 4).unwrap(), None, true),
            Op::ChainSend(v, fl) => {
                let c = call_of(v, *fl);
                let r = match conn.chain_call::<_, Value, Value>(&c) {
                    Err(e) => Err(e),
                    Ok(chain) => vnet::block_on(chain.send(), 4).unwrap().map(|_stream| ()),
                };
                (r, serde_json::to_vec(&c).ok(), true)
            }
            Op::ChainDropped(v, fl) => {
                let c = call_of(v, *fl);
                let r = conn.chain_call::<_, Value, Value>(&c).map(|_chain| ());
                (r, serde_json::to_vec(&c).ok(), false)
            }
        };
        let opname = match &op {
            Op::EnqueueSized(l) => format!("enqueue_call(filler {l}B)"),
            Op::EnqueueCall(..) => "enqueue_call".into(),
            Op::SendCall(..) => "send_call".into(),
            Op::SendReply(..) => "send_reply".into(),
            Op::SendError(..) => "send_error".into(),
            Op::Flush => "flush".into(),
            Op::ChainSend(..) => "chain_call+send".into(),
            Op::ChainDropped(..) => "chain_call, dropped unsent".into(),
        };
        hash = fnv_mix(hash, reference.as_ref().map(|r| r.len() as u64).unwrap_or(0) * 8 + opname.len() as u64);
        let is_flush_only = matches!(op, Op::Flush);
        let accepted = res.is_ok() && !is_flush_only;
        log.push(format!("{opname} -> {}", if res.is_ok() { "Ok" } else { "Err" }));
        run.rep.evaluations += 1;
        let replay = || json!({"monitor": "c02", "seed_tag": seed_tag, "step": step, "ops": log});
        // acceptance must agree with the reference (poisoned values are refused by both)
        if !is_flush_only {
            match (&res, &reference) {
                (Ok(()), None) => {
                    run.rep.violation("C02/accepted-a-message-serde_json-refuses", format!("step {step} {opname}"), replay());
                    return;
                }
                (Err(e), Some(_)) => {
                    run.rep.violation("C02/refused-an-encodable-message", format!("step {step} {opname}: {e:?}"), replay());
                    return;
                }
                _ => {}
            }
        }
        if accepted {
            let mut m = reference.clone().unwrap();
            m.push(0);
            all_accepted.extend_from_slice(&m);
            pending.push(m);
        } else if !is_flush_only {
            refused += 1;
        }
        let w = wire.borrow();
        let new_writes = &w.writes[writes_before..];
        // a refused send must not flush what was enqueued earlier either way; the property only
        // requires that it contributes no bytes and leaves earlier messages intact, so both
        // "nothing written" and "earlier messages written" would be fine — zlink writes nothing.
        let expect_write = flushes && res.is_ok() && !pending.is_empty();
        if expect_write {
            let exp: Vec<u8> = pending.concat();
            if new_writes.len() != 1 {
                run.rep.violation("C02/flush-did-not-issue-exactly-one-write", format!("step {step} {opname}: {} write calls for {} pending messages", new_writes.len(), pending.len()), replay());
                return;
            }
            if new_writes[0] != exp {
                run.rep.violation("C02/written-bytes-differ-from-pending-messages", format!("step {step} {opname}: expected {} got {}", vnet::json::show(&exp), vnet::json::show(&new_writes[0])), replay());
                return;
            }
            run.rep.count("flushes_checked");
            run.rep.max("max_messages_in_one_write", pending.len() as u64);
            run.rep.max("max_bytes_in_one_write", exp.len() as u64);
            if exp.len() > 65536 {
                run.rep.count("writes_larger_than_64KiB_checked");
            }
            pending.clear();
        } else if !new_writes.is_empty() {
            // writes when none is expected
            let refused_send = flushes && res.is_err();
            if refused_send {
                // tolerated only if it is exactly the earlier pending messages
                let exp: Vec<u8> = pending.concat();
                if new_writes.len() == 1 && new_writes[0] == exp {
                    pending.clear();
                } else {
                    run.rep.violation("C02/refused-message-contributed-bytes", format!("step {step} {opname}: wrote {}", vnet::json::show(&new_writes.concat())), replay());
                    return;
                }
            } else {
                let sig = if is_flush_only { "C02/empty-flush-wrote-something" } else { "C02/enqueue-wrote-to-transport" };
                run.rep.violation(sig, format!("step {step} {opname}: wrote {}", vnet::json::show(&new_writes.concat())), replay());
                return;
            }
        }
    }
    // final flush: everything accepted reaches the transport, nothing else
    let _ = vnet::block_on(conn.flush(), 4).unwrap();
    let got = wire.borrow().written();
    run.rep.evaluations += 1;
    if got != all_accepted {
        run.rep.violation("C02/stream-is-not-the-concatenation-of-accepted-messages", format!("{} bytes written, {} expected", got.len(), all_accepted.len()), json!({"monitor": "c02", "seed_tag": seed_tag, "ops": log}));
    }
    for f in vnet::split_frames(&got).0 {
        if serde_json::from_slice::<Value>(f).is_err() {
            run.rep.violation("C02/frame-is-not-one-json-document", vnet::json::show(f), json!({"monitor": "c02", "seed_tag": seed_tag, "ops": log}));
            break;
        }
    }
    run.rep.distinct.insert(hash);
    run.rep.add("messages_refused", refused as u64);
    run.rep.add("ops", len as u64);
    if run.rep.samples.len() < 4 {
        run.rep.samples.push(json!({"history": log.iter().take(14).collect::<Vec<_>>(), "bytes_on_wire": got.len()}));
    }
}

pub fn run(cfg: &Cfg) -> Report {
    let mut run = Run { rep: Report::new("C02", "c02"), free_seen: Default::default() };
    let miri = cfg.layer == "miri";
    let n = if miri { cfg.n(24, 240) } else { cfg.n(12_000, 1_500_000) };
    let base = cfg.seed.wrapping_mul(1_000_003) ^ ((cfg.shard as u64) << 32);
    let only: Option<u64> = cfg.replay.as_ref().and_then(|r| r["seed_tag"].as_u64());
    for i in 0..n {
        let tag = only.unwrap_or(base.wrapping_add(i));
        let mut rng = Rng::new(tag);
        let big = !miri && rng.chance(1, 60);
        let len = if big { rng.range(30, 400) } else { rng.range(1, if miri { 12 } else { 40 }) };
        history(&mut rng, &mut run, len, tag, big);
        if only.is_some() {
            break;
        }
    }
    let covered = (0..=600).filter(|f| run.free_seen.contains(f)).count();
    run.rep.add("free_space_values_0_to_600_met_at_message_start", covered as u64);
    if cfg!(zlink_verif) && !miri && only.is_none() && cfg.thorough && covered < 601 {
        run.rep.inconclusive.push(format!("only {covered}/601 free-space values were met"));
    }
    run.rep
}

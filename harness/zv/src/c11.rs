//! C11 — data borrowed from a received reply is never overwritten while still usable.
//!
//! The driver keeps every item a reply stream yielded alive and, after each further `next()`,
//! re-reads all earlier items and compares them with owned copies taken when they were yielded.
//! Natively the comparison decides; under Miri / ASan the tool's report decides (the process
//! dies, the driver turns the report into a violation).
//!
//! `--group same`     : all replies arrive in one read (must be clean everywhere)
//! `--group separate` : later replies arrive in later reads while earlier items are held

use crate::c06::{call_for, Kind};
use crate::cfg::Cfg;
use futures_util::StreamExt;
use serde::Deserialize;
use serde_json::{json, Value};
use vnet::{fnv, fnv_mix, new_wire, Report, Rng, Rx, VSocket};
use zlink_core::{proxy, Connection, ReplyError};

#[derive(Debug, Deserialize, PartialEq)]
pub struct BTag<'a> {
    pub tag: u32,
    /// borrows from the message whenever the text needs no unescaping (and from wherever the library
    /// keeps unescaped text otherwise - or is owned)
    #[serde(borrow)]
    pub text: std::borrow::Cow<'a, str>,
}

#[derive(Debug, ReplyError, PartialEq)]
#[zlink(interface = "c", crate = "zlink_core")]
pub enum EBC<'a> {
    Fail { tag: u32, why: &'a str },
}

#[proxy(interface = "c", crate = "zlink_core")]
pub trait P11 {
    #[zlink(more)]
    async fn watch(&mut self, tag: u32) -> zlink_core::Result<impl futures_util::Stream<Item = zlink_core::Result<Result<BTag<'_>, EBC<'_>>>>>;
}

#[derive(Debug, Clone)]
struct Case {
    /// (kind: 0 success, 1 method error, 2 org.varlink.service error, 3 wrong shape; text length;
    /// continues) per reply
    replies: Vec<(u8, usize, bool)>,
    /// chunk index each reply is delivered in (non-decreasing); all 0 = same read
    chunk_of: Vec<usize>,
    pendings: usize,
    via_proxy_stream: bool,
    seed: u64,
    /// size of a warm-up reply received first (0 = none)
    warmup: usize,
    /// success replies spell some characters of their text as JSON escapes (`\/`, `\u00e9`, `\n`, `\"`)
    esc: bool,
    /// an empty frame (a stray terminator, e.g. a keep-alive) follows the replies with these indices
    stray: Vec<usize>,
    /// a frame of a later exchange is waiting in the transport behind the burst (a further read would get it)
    trailing: bool,
    /// ... or it arrived in the same read as the last replies of the burst (it sits in the receive buffer behind
    /// them, e.g. the answer to a call that was pipelined behind the streaming one)
    trailing_in_burst: bool,
    /// give the stream up (drop it) after this many items and keep using the items obtained so far (0 = read on to
    /// the end of the stream)
    stop_after: usize,
}

impl Case {
    fn replay(&self) -> Value {
        json!({"monitor": "c11", "replies": self.replies.iter().map(|r| json!([r.0, r.1, r.2])).collect::<Vec<_>>(), "chunk_of": self.chunk_of, "pendings": self.pendings, "via_proxy_stream": self.via_proxy_stream, "seed": self.seed, "warmup": self.warmup, "esc": self.esc, "stray": self.stray, "trailing": self.trailing, "trailing_in_burst": self.trailing_in_burst, "stop_after": self.stop_after})
    }
    fn hash(&self) -> u64 {
        let mut h = fnv(format!("{:?}{:?}", self.replies, self.chunk_of).as_bytes());
        h = fnv_mix(h, self.pendings as u64 * 2 + self.via_proxy_stream as u64);
        h = fnv_mix(h, fnv(format!("{:?}{}{}{}", self.stray, self.trailing, self.stop_after, self.trailing_in_burst).as_bytes()));
        fnv_mix(h, self.seed ^ (self.warmup as u64) << 32 ^ (self.esc as u64) << 63)
    }
}

fn text_for(seed: u64, k: usize, len: usize) -> String {
    let mut rng = Rng::derive(seed, k as u64 + 77);
    let head = format!("item{k}-");
    let mut s = head.clone();
    while s.len() < len.max(head.len()) {
        s.push((b'a' + rng.below(26) as u8) as char);
    }
    s
}

/// Spell every 5th letter of the text as a JSON escape (the decoded text then contains `/`, `é`, a line
/// feed or a quote there).
fn escaped(text: &str, style: u64) -> String {
    // style 0: every kind of escape; 1: only `\/`; 2: only `\uXXXX` of printable characters (these two kinds
    // stand for characters that could have been written as they are); 3: only escapes that are required
    let pool: &[&str] = match style % 4 {
        0 => &["\\/", "\\u00e9", "\\n", "\\\"", "\\ud83d\\ude00"],
        1 => &["\\/"],
        2 => &["\\u00e9", "\\ud83d\\ude00", "\\u0041"],
        _ => &["\\n", "\\\"", "\\\\", "\\u0007"],
    };
    let mut out = String::with_capacity(text.len() * 2);
    for (i, c) in text.chars().enumerate() {
        if i > 6 && i % 5 == 0 {
            out.push_str(pool[(i / 5) % pool.len()]);
        } else {
            out.push(c);
        }
    }
    out
}

fn reply_bytes(case: &Case, k: usize) -> Vec<u8> {
    let (kind, len, cont) = case.replies[k];
    let mut text = text_for(case.seed, k, len);
    if case.esc && kind == 0 {
        text = escaped(&text, case.seed >> 2);
    }
    if kind == 4 {
        // a reply from a peer that is not careful about its encoding: a Latin-1 byte inside the text
        let mut v = format!("{{\"parameters\":{{\"tag\":{k},\"text\":\"{text}").into_bytes();
        v.extend_from_slice(b"caf\xe9");
        v.extend_from_slice(if cont { &b"\"},\"continues\":true}"[..] } else { &b"\"}}"[..] });
        v.push(0);
        return v;
    }
    let mut v = if kind == 1 {
        format!("{{\"error\":\"c.Fail\",\"parameters\":{{\"tag\":{k},\"why\":\"{text}\"}}}}")
    } else if kind == 2 {
        format!("{{\"error\":\"org.varlink.service.InvalidParameter\",\"parameters\":{{\"parameter\":\"{text}\"}}}}")
    } else if kind == 3 {
        format!("{{\"parameters\":{{\"tag\":\"{text}\"}}}}")
    } else if cont {
        format!("{{\"parameters\":{{\"tag\":{k},\"text\":\"{text}\"}},\"continues\":true}}")
    } else {
        format!("{{\"parameters\":{{\"tag\":{k},\"text\":\"{text}\"}}}}")
    }
    .into_bytes();
    v.push(0);
    v
}

fn get_chain<'a>(it: &zlink_core::reply::Result<BTag<'a>, EBC<'a>>) -> &'a str {
    match it {
        Ok(r) => r.parameters().map(|p| unsafe_extend(&p.text)).unwrap_or(""),
        Err(EBC::Fail { why, .. }) => why,
    }
}

fn get_proxy<'a>(it: &Result<BTag<'a>, EBC<'a>>) -> &'a str {
    match it {
        Ok(p) => unsafe_extend(&p.text),
        Err(EBC::Fail { why, .. }) => why,
    }
}

/// The text of an item, with the lifetime the item itself claims for it (`Cow<'a, str>` hands out `&str`
/// tied to the borrow of the `Cow`; the items are kept alive by the driver for as long as the text is used,
/// and an owned text lives inside the item).
fn unsafe_extend<'a>(c: &std::borrow::Cow<'a, str>) -> &'a str {
    let s: &str = c;
    // SAFETY: see above - the item outlives every use of the returned slice in this driver
    unsafe { &*(s as *const str) }
}

#[derive(Debug)]
struct Damage {
    /// bytes were delivered by the transport while at least one item was held
    read_while_holding: bool,
    item: usize,
    after_obtaining: usize,
    expected: String,
    got: String,
    /// the change was found after the stream had been dropped, not after a `next()`
    after_drop: bool,
    /// the change was found right after a poll of `next()` that answered `Pending` and during which the transport
    /// delivered nothing (no byte has arrived since the damaged item was handed out)
    idle_poll: bool,
}

const LATER_FRAME: &[u8] = b"{\"parameters\":{\"tag\":999999,\"text\":\"a reply of a later exchange, long enough to cover the first items of the burst: 0123456789 0123456789 0123456789 0123456789 0123456789\"}}\0";

thread_local! {
    static IDLE_POLLS: std::cell::Cell<u64> = const { std::cell::Cell::new(0) };
}

/// Returns Ok(number of re-reads) or the first damaged item.
fn execute(case: &Case) -> Result<(usize, bool), Damage> {
    let wire = new_wire(0);
    {
        let mut w = wire.borrow_mut();
        let nchunks = case.chunk_of.iter().max().copied().unwrap_or(0) + 1;
        for c in 0..nchunks {
            let mut b = Vec::new();
            for k in 0..case.replies.len() {
                if case.chunk_of[k] == c {
                    b.extend(reply_bytes(case, k));
                    if case.stray.contains(&k) {
                        b.push(0);
                    }
                }
            }
            if case.trailing && case.trailing_in_burst && c + 1 == nchunks {
                b.extend_from_slice(LATER_FRAME);
            }
            for _ in 0..case.pendings {
                w.push(Rx::Pending);
            }
            w.push(Rx::Bytes(b));
        }
        if case.trailing && !case.trailing_in_burst {
            w.push(Rx::Bytes(b"{\"parameters\":{\"tag\":999999,\"text\":\"a reply of a later exchange, long enough to cover the first items of the burst: 0123456789 0123456789 0123456789 0123456789 0123456789\"}}\0".to_vec()));
        }
    }
    let mut conn = Connection::new(VSocket(wire.clone()));
    let n = case.replies.len();
    let mut rereads = 0usize;
    let mut idle_polls = 0usize;
    let mut read_while_holding = false;
    if case.warmup > 0 {
        // grow the receive buffer first (buffers never shrink), so that one read can deliver the
        // whole burst
        let mut b = format!("{{\"parameters\":{{\"tag\":0,\"text\":\"{}\"}}}}", "w".repeat(case.warmup)).into_bytes();
        b.push(0);
        wire.borrow_mut().rx.push_front(Rx::Bytes(b));
        let r = vnet::block_on(conn.receive_reply::<BTag<'_>, EBC<'_>>(), 4);
        assert!(matches!(r, Some(Ok(Ok(_)))), "warm-up reply");
    }

    macro_rules! drive {
        ($stream:expr, $ty:ty, $get:expr) => {{
            // every yielded item stays alive here - longer than the stream itself
            let mut held: Vec<($ty, String)> = Vec::new();
            let get = $get;
            #[allow(unused_assignments)]
            let mut dropped = false;
            macro_rules! reread {
                () => {
                    for (i, (it, copy)) in held.iter().enumerate() {
                        let now: &str = get(it);
                        rereads += 1;
                        // compare bytes without assuming the slice is still valid UTF-8
                        if now.as_bytes() != copy.as_bytes() {
                            // copy through the stack: the dangling bytes may sit in freed heap memory
                            let mut tmp = [0u8; 64];
                            let k = now.len().min(64);
                            tmp[..k].copy_from_slice(&now.as_bytes()[..k]);
                            return Err(Damage { read_while_holding, item: i, after_obtaining: held.len() - 1, expected: copy.clone(), got: vnet::json::show(&tmp[..k]), after_drop: dropped, idle_poll: false });
                        }
                    }
                };
            }
            {
                let stream = $stream;
                let mut stream = core::pin::pin!(stream);
                loop {
                    let mut polls = 0;
                    let delivered_before = wire.borrow().bytes_delivered;
                    let item = loop {
                        polls += 1;
                        if polls > case.pendings + 6 {
                            break None;
                        }
                        if let core::task::Poll::Ready(x) = vnet::poll_once(core::pin::pin!(stream.next()).as_mut()) {
                            break x;
                        }
                        // the stream had nothing yet: asking must not have touched what it handed out before
                        if wire.borrow().bytes_delivered == delivered_before {
                            for (i, (it, copy)) in held.iter().enumerate() {
                                let now: &str = get(it);
                                if now.as_bytes() != copy.as_bytes() {
                                    let mut tmp = [0u8; 64];
                                    let k = now.len().min(64);
                                    tmp[..k].copy_from_slice(&now.as_bytes()[..k]);
                                    return Err(Damage { read_while_holding, item: i, after_obtaining: held.len() - 1, expected: copy.clone(), got: vnet::json::show(&tmp[..k]), after_drop: false, idle_poll: true });
                                }
                            }
                            idle_polls += 1;
                        }
                    };
                    if !held.is_empty() && wire.borrow().bytes_delivered != delivered_before {
                        read_while_holding = true;
                    }
                    // a connection-level failure or the end of the stream is "obtaining a further reply" too:
                    // the items held so far must still be intact afterwards
                    let mut stop = false;
                    match item {
                        Some(Ok(item)) => {
                            let text = get(&item).to_string();
                            held.push((item, text));
                        }
                        _ => stop = true,
                    }
                    // re-read everything held so far
                    reread!();
                    if stop || held.len() > n + 2 || (case.stop_after > 0 && held.len() >= case.stop_after) {
                        break;
                    }
                }
                // the stream is given up here, possibly before its end ...
            }
            // ... and what it handed out is still in use
            dropped = true;
            reread!();
            let _ = held.len();
        }};
    }

    if case.via_proxy_stream {
        let s = vnet::block_on(conn.watch(7), 4).expect("no pending").expect("send");
        drive!(s, Result<BTag<'_>, EBC<'_>>, get_proxy);
    } else {
        // one plain call per non-continuing reply; `more` for the runs of continuing replies
        let mut kinds = Vec::new();
        let mut k = 0;
        while k < n {
            let ok_kind = |x: u8| x == 0 || x == 4;
            if case.replies[k].2 && ok_kind(case.replies[k].0) {
                // a run of continuing replies ends with the first non-continuing one
                while k < n && case.replies[k].2 && ok_kind(case.replies[k].0) {
                    k += 1;
                }
                kinds.push(Kind::More);
                k += 1;
            } else {
                kinds.push(Kind::Plain);
                k += 1;
            }
        }
        let mut chain = conn.chain_call::<_, BTag<'_>, EBC<'_>>(&call_for(kinds[0], 0)).expect("enqueue");
        for (i, kd) in kinds.iter().enumerate().skip(1) {
            chain = chain.append(&call_for(*kd, i as u32)).expect("enqueue");
        }
        let s = vnet::block_on(chain.send(), 4).expect("no pending").expect("send");
        drive!(s, zlink_core::reply::Result<BTag<'_>, EBC<'_>>, get_chain);
    }
    IDLE_POLLS.with(|c| c.set(c.get() + idle_polls as u64));
    Ok((rereads, read_while_holding))
}

fn check(case: &Case, rep: &mut Report, group: &str) {
    rep.eval(case.hash());
    match vnet::catch(|| execute(case)) {
        Err(p) => rep.violation("C11/panic-while-holding-items", p, case.replay()),
        Ok(Ok((n, rwh))) => {
            rep.add("item_rereads_intact", n as u64);
            rep.add("polls_that_received_nothing_while_items_were_held_or_not", IDLE_POLLS.with(|c| c.replace(0)));
            rep.count(if rwh { "cases_with_a_read_while_items_were_held" } else { "cases_with_all_items_from_one_read" });
        }
        Ok(Err(d)) => {
            let _ = group;
            let one_read = case.chunk_of.iter().all(|c| *c == 0);
            let sig = if d.idle_poll {
                // no byte arrived: this is not the separate-read finding, whatever the group
                "C11/reply-stream-item-changed-by-a-poll-that-received-nothing"
            } else if d.after_drop {
                // nothing was asked of the stream any more: giving it up must not touch what it handed out
                "C11/reply-stream-item-changed-when-the-stream-was-dropped"
            } else if group == "available" {
                "C11/reply-stream-item-invalidated-although-the-whole-burst-was-available-before-the-first-item"
            } else if one_read {
                // every owed reply was in the buffer before the first item was handed out: whatever the stream
                // did afterwards (including a read nobody needed) must not touch the items
                "C11/reply-stream-item-changed-although-delivered-in-the-same-read"
            } else if d.read_while_holding {
                "C11/reply-stream-item-invalidated-by-later-separate-read"
            } else {
                "C11/reply-stream-item-changed-although-delivered-in-the-same-read"
            };
            rep.violation(sig, format!("item {} read back as {:?} (was {:?}) after item {} was obtained; replies {:?}, delivered in chunks {:?}", d.item, d.got.chars().take(80).collect::<String>(), d.expected.chars().take(80).collect::<String>(), d.after_obtaining, case.replies, case.chunk_of), case.replay());
        }
    }
}

pub fn run(cfg: &Cfg) -> Report {
    let group = cfg.opt("group").unwrap_or("same").to_string();
    let mut rep = Report::new("C11", &format!("c11-{group}"));
    if let Some(r) = &cfg.replay {
        let case = Case {
            replies: r["replies"].as_array().unwrap().iter().map(|x| (x[0].as_u64().map(|k| k as u8).unwrap_or_else(|| x[0].as_bool().unwrap_or(false) as u8), x[1].as_u64().unwrap() as usize, x[2].as_bool().unwrap())).collect(),
            chunk_of: r["chunk_of"].as_array().unwrap().iter().map(|x| x.as_u64().unwrap() as usize).collect(),
            pendings: r["pendings"].as_u64().unwrap() as usize,
            via_proxy_stream: r["via_proxy_stream"].as_bool().unwrap(),
            seed: r["seed"].as_u64().unwrap(),
            warmup: r["warmup"].as_u64().unwrap_or(0) as usize,
            esc: r["esc"].as_bool().unwrap_or(false),
            stray: r["stray"].as_array().map(|a| a.iter().map(|x| x.as_u64().unwrap() as usize).collect()).unwrap_or_default(),
            trailing: r["trailing"].as_bool().unwrap_or(false),
            trailing_in_burst: r["trailing_in_burst"].as_bool().unwrap_or(false),
            stop_after: r["stop_after"].as_u64().unwrap_or(0) as usize,
        };
        let g = if case.chunk_of.iter().all(|c| *c == 0) { if case.warmup == 0 { "available" } else { "same" } } else { "separate" };
        check(&case, &mut rep, g);
        return rep;
    }
    let sanitized = cfg.layer != "native";
    if cfg.layer == "native" {
        crate::alloc::HOSTILE.store(true, std::sync::atomic::Ordering::Relaxed);
    }
    let n_cases = match (cfg.layer.as_str(), group.as_str()) {
        ("miri", "same") | ("miri", "available") => cfg.n(24, 200),
        ("miri", _) => cfg.n(4, 16),
        ("asan", _) => cfg.n(2_000, 20_000),
        _ => cfg.n(4_000, 400_000),
    };
    let mut rng = cfg.rng(111);
    for i in 0..n_cases {
        let n = rng.range(2, 6);
        let via_proxy_stream = rng.chance(1, 3);
        let big = rng.chance(1, 2);
        let huge = cfg.layer != "miri" && group != "separate" && i % 9 == 4;
        // every third case ends in (or contains) a reply that surfaces as a connection-level failure
        let failing = i % 3 == 2;
        let fail_at = if failing { rng.range(1, n - 1) } else { usize::MAX };
        let replies: Vec<(u8, usize, bool)> = (0..n)
            .map(|k| {
                // now and then a burst of tens of KiB (beyond any plausible read-ahead threshold)
                let len = if huge { *rng.pick(&[3000usize, 9000, 17_000, 33_000]) + rng.below(50) } else if big { *rng.pick(&[8usize, 40, 200, 300, 700, 2000]) } else { rng.range(6, 40) };
                let len = if sanitized && cfg.layer == "miri" { len.min(300) } else { len };
                let last = k == n - 1;
                if k == fail_at {
                    (if rng.chance(1, 2) { 2 } else { 3 }, len, false)
                } else if via_proxy_stream {
                    // one `more` call: continuing replies, then a final reply or error
                    ((last && rng.chance(1, 3)) as u8, len, !last)
                } else {
                    (rng.chance(1, 5) as u8, len, !last && rng.chance(1, 4))
                }
            })
            .collect();
        let chunk_of: Vec<usize> = if group == "same" || group == "available" {
            vec![0; n]
        } else {
            // at least one later reply arrives in a later read
            let mut c = 0;
            let mut v = vec![0];
            for k in 1..n {
                if rng.chance(2, 3) || (k == n - 1 && c == 0) {
                    c += 1;
                }
                v.push(c);
            }
            v
        };
        // now and then the peer is sloppy about its encoding in several replies of the stream (whether such a
        // reply is refused or repaired is not judged here; what the stream hands out must stay intact)
        let mut replies = replies;
        if i % 7 == 3 {
            for r in replies.iter_mut() {
                if r.0 == 0 && rng.chance(2, 3) {
                    r.0 = 4;
                }
            }
        }
        let esc = i % 4 == 1;
        // escapes make the encoded text up to 3.4 times as long as the decoded one
        let total: usize = replies.iter().map(|r| r.1 * if esc { 4 } else { 1 } + 70).sum();
        // same-read group: make sure the buffer can take the whole burst in one read
        let warmup = if group == "same" { total + 900 } else if group == "available" { 0 } else if rng.chance(1, 3) { rng.range(1, 3000) } else { 0 };
        // every other case of the same-read group: stray terminators inside the burst and / or a frame of a later
        // exchange waiting in the transport
        let (stray, trailing) = if group == "same" && i % 2 == 1 {
            ((0..n).filter(|_| rng.chance(1, 3)).collect::<Vec<_>>(), rng.chance(2, 3))
        } else if group == "separate" && i % 5 == 1 {
            ((0..n).filter(|_| rng.chance(1, 4)).collect::<Vec<_>>(), false)
        } else {
            (Vec::new(), false)
        };
        // every third same-read / available case gives the stream up early and goes on using the items
        // (in the separate-read group: after exactly the replies of the first read, so that no read has happened
        // while items were held - the next reply is waiting in the transport, not in the buffer)
        let first_read = chunk_of.iter().filter(|c| **c == 0).count();
        let stop_after = if group != "separate" && i % 3 == 1 {
            rng.range(1, n - 1)
        } else if group == "separate" && i % 3 == 1 && first_read < n {
            first_read
        } else {
            0
        };
        let mut case = Case { replies, chunk_of, pendings: if group == "available" { 0 } else { rng.below(2) }, via_proxy_stream, seed: cfg.seed ^ i, warmup, esc, stray, trailing, trailing_in_burst: trailing && i % 4 == 3, stop_after };
        if group == "available" {
            // The whole burst is in the transport before the first item is requested, but the receive buffer
            // is fresh, so zlink takes it in buffer-sized pieces. zlink keeps reading until a piece ends on a
            // frame boundary; make sure only the last piece does, so that on a correct tree everything is
            // read (and the buffer grown) before the first item is handed out.
            let mut ok = false;
            for _ in 0..40 {
                let mut end = 0usize;
                let mut aligned = false;
                for k in 0..case.replies.len() {
                    end += reply_bytes(&case, k).len();
                    if end % 256 == 0 && k + 1 < case.replies.len() {
                        aligned = true;
                    }
                }
                if !aligned && end > 300 {
                    ok = true;
                    break;
                }
                let k = rng.below(case.replies.len());
                case.replies[k].1 += rng.range(1, 90);
            }
            if !ok {
                continue;
            }
        }
        if case.esc {
            rep.count("cases_with_json_escapes_in_the_texts");
        }
        if !case.stray.is_empty() {
            rep.count("cases_with_stray_terminators_inside_the_burst");
        }
        if case.trailing {
            rep.count(if case.trailing_in_burst { "cases_with_a_later_frame_in_the_buffer_behind_the_burst" } else { "cases_with_a_later_frame_waiting_in_the_transport" });
        }
        if case.stop_after > 0 {
            rep.count("cases_where_the_stream_is_given_up_early_and_the_items_are_used_afterwards");
        }
        if huge {
            rep.count("cases_with_a_burst_of_tens_of_KiB");
        }
        check(&case, &mut rep, &group);
        if i < 3 {
            rep.sample(6, || json!({"group": group, "replies(is_error,text_len,continues)": format!("{:?}", case.replies), "delivered_in_read": case.chunk_of, "via": if case.via_proxy_stream { "proxy #[zlink(more)] stream" } else { "chain" }}));
        }
    }
    rep
}

//! Frame generator, target types, reference decoding and canonicalised receive used by the
//! inbound-framing monitors (C01, C07, parts of C06/C17).

use serde::{Deserialize, Serialize};
use serde_json::Value;
use vnet::{Rng, VSocket};
use zlink_core::{varlink_service, Call, Connection, Reply, ReplyError};

// ---------------------------------------------------------------------------------------------
// Target types
// ---------------------------------------------------------------------------------------------

#[derive(Debug, Serialize, Deserialize, PartialEq, Clone)]
#[serde(tag = "method", content = "parameters")]
pub enum MA<'a> {
    #[serde(rename = "a.U")]
    U,
    #[serde(rename = "a.S")]
    S {
        id: u32,
        #[serde(borrow)]
        name: &'a str,
    },
    #[serde(rename = "a.O")]
    O { text: String, n: Option<i64> },
}

#[derive(Debug, Serialize, Deserialize, PartialEq, Clone)]
#[serde(deny_unknown_fields)]
pub struct MStrict {
    pub method: String,
    pub parameters: PStrict,
}

#[derive(Debug, Serialize, Deserialize, PartialEq, Clone)]
#[serde(deny_unknown_fields)]
pub struct PStrict {
    pub id: u32,
    pub name: String,
}

#[derive(Debug, Serialize, Deserialize, PartialEq, Clone)]
#[serde(deny_unknown_fields)]
pub struct PBorrow<'a> {
    pub id: u32,
    #[serde(borrow)]
    pub name: &'a str,
}

#[derive(Debug, ReplyError, PartialEq, Clone)]
#[zlink(interface = "a", crate = "zlink_core")]
pub enum EA {
    NotFound,
    Bad { code: i32, why: String },
}

#[derive(Debug, ReplyError, PartialEq, Clone)]
#[zlink(interface = "b", crate = "zlink_core")]
pub enum EB<'a> {
    Gone,
    Msg { msg: &'a str },
}

#[derive(Debug, Clone, Copy, PartialEq, Eq, Hash)]
pub enum Target {
    CallA,
    CallValue,
    CallStrict,
    ReplyStrictA,
    ReplyBorrowB,
}

pub const TARGETS: [Target; 5] = [
    Target::CallA,
    Target::CallValue,
    Target::CallStrict,
    Target::ReplyStrictA,
    Target::ReplyBorrowB,
];

impl Target {
    pub fn name(self) -> &'static str {
        match self {
            Target::CallA => "call<MA>",
            Target::CallValue => "call<Value>",
            Target::CallStrict => "call<MStrict>",
            Target::ReplyStrictA => "reply<PStrict,EA>",
            Target::ReplyBorrowB => "reply<PBorrow,EB>",
        }
    }
    pub fn from_name(s: &str) -> Target {
        *TARGETS.iter().find(|t| t.name() == s).expect("target name")
    }
    pub fn is_call(self) -> bool {
        matches!(self, Target::CallA | Target::CallValue | Target::CallStrict)
    }
}

/// Canonical outcome of one receive.
#[derive(Debug, Clone, PartialEq, Eq)]
pub enum Outcome {
    /// Decoded; canonical rendering of the decoded message.
    Ok(String),
    /// Decode / protocol error (any kind except end-of-stream).
    Err,
    /// End of stream.
    Eof,
    /// The receive future did not complete (only meaningful with `Pending` schedules).
    Stalled,
}

impl Outcome {
    pub fn class(&self) -> &'static str {
        match self {
            Outcome::Ok(_) => "ok",
            Outcome::Err => "err",
            Outcome::Eof => "eof",
            Outcome::Stalled => "stalled",
        }
    }
}

fn canon_call<M: std::fmt::Debug>(c: &Call<M>) -> String {
    format!(
        "call:{:?}/o{}m{}u{}",
        c.method(),
        c.oneway() as u8,
        c.more() as u8,
        c.upgrade() as u8
    )
}

fn is_eof(e: &zlink_core::Error) -> bool {
    match e {
        zlink_core::Error::UnexpectedEof => true,
        zlink_core::Error::Io(e) => e.kind() == std::io::ErrorKind::UnexpectedEof,
        _ => false,
    }
}

pub fn canon_call_result<M: std::fmt::Debug>(r: zlink_core::Result<Call<M>>) -> Outcome {
    match r {
        Ok(c) => Outcome::Ok(canon_call(&c)),
        Err(e) if is_eof(&e) => Outcome::Eof,
        Err(_) => Outcome::Err,
    }
}

pub fn canon_reply_result<P: std::fmt::Debug, E: std::fmt::Debug>(
    r: zlink_core::Result<zlink_core::reply::Result<P, E>>,
) -> Outcome {
    match r {
        Ok(Ok(rep)) => Outcome::Ok(format!(
            "reply:{:?}/c{:?}",
            rep.parameters(),
            rep.continues()
        )),
        Ok(Err(e)) => Outcome::Ok(format!("error:{:?}", e)),
        Err(zlink_core::Error::VarlinkService(e)) => Outcome::Ok(format!("svc:{:?}", e)),
        Err(e) if is_eof(&e) => Outcome::Eof,
        Err(_) => Outcome::Err,
    }
}

// ---------------------------------------------------------------------------------------------
// Reference decoding: serde_json on the NUL-delimited frame, nothing of zlink's read path.
// ---------------------------------------------------------------------------------------------

fn ref_call<'a, M: Deserialize<'a> + std::fmt::Debug>(frame: &'a [u8]) -> Outcome {
    match serde_json::from_slice::<Call<M>>(frame) {
        Ok(c) => Outcome::Ok(canon_call(&c)),
        Err(_) => Outcome::Err,
    }
}

/// Three-way classification by inspection of the frame as a `Value`. Only used on frames whose
/// classification is uncontroversial (C04 handles the rest).
fn ref_reply<'a, P, E>(frame: &'a [u8]) -> Outcome
where
    P: Deserialize<'a> + std::fmt::Debug,
    E: Deserialize<'a> + std::fmt::Debug,
{
    let v: Value = match serde_json::from_slice(frame) {
        Ok(v) => v,
        Err(_) => return Outcome::Err,
    };
    let has_error = v.as_object().map(|o| o.contains_key("error")).unwrap_or(false);
    if has_error {
        if let Ok(e) = serde_json::from_slice::<varlink_service::Error>(frame) {
            return Outcome::Ok(format!("svc:{:?}", e));
        }
        return match serde_json::from_slice::<E>(frame) {
            Ok(e) => Outcome::Ok(format!("error:{:?}", e)),
            Err(_) => Outcome::Err,
        };
    }
    match serde_json::from_slice::<Reply<P>>(frame) {
        Ok(rep) => Outcome::Ok(format!(
            "reply:{:?}/c{:?}",
            rep.parameters(),
            rep.continues()
        )),
        Err(_) => Outcome::Err,
    }
}

pub fn reference(target: Target, frame: &[u8]) -> Outcome {
    match target {
        Target::CallA => ref_call::<MA<'_>>(frame),
        Target::CallValue => ref_call::<Value>(frame),
        Target::CallStrict => ref_call::<MStrict>(frame),
        Target::ReplyStrictA => ref_reply::<PStrict, EA>(frame),
        Target::ReplyBorrowB => ref_reply::<PBorrow<'_>, EB<'_>>(frame),
    }
}

/// One receive on the real connection, driven poll by poll. `max_polls` bounds the number of
/// consecutive `Pending` results tolerated.
pub fn receive(conn: &mut Connection<VSocket>, target: Target, max_polls: usize) -> Outcome {
    macro_rules! drive {
        ($fut:expr, $canon:expr) => {{
            let fut = $fut;
            let mut fut = core::pin::pin!(fut);
            match vnet::run_until_stalled(fut.as_mut(), max_polls) {
                core::task::Poll::Ready(r) => $canon(r),
                core::task::Poll::Pending => Outcome::Stalled,
            }
        }};
    }
    match target {
        Target::CallA => drive!(conn.receive_call::<MA<'_>>(), canon_call_result),
        Target::CallValue => drive!(conn.receive_call::<Value>(), canon_call_result),
        Target::CallStrict => drive!(conn.receive_call::<MStrict>(), canon_call_result),
        Target::ReplyStrictA => drive!(conn.receive_reply::<PStrict, EA>(), canon_reply_result),
        Target::ReplyBorrowB => {
            drive!(conn.receive_reply::<PBorrow<'_>, EB<'_>>(), canon_reply_result)
        }
    }
}

// ---------------------------------------------------------------------------------------------
// Frame generator
// ---------------------------------------------------------------------------------------------

#[derive(Debug, Clone)]
pub struct Frame {
    pub bytes: Vec<u8>,
    pub target: Target,
    pub kind: &'static str,
}

const WS: [u8; 4] = [b' ', b'\t', b'\n', b'\r'];

fn rand_ws(rng: &mut Rng, max: usize) -> Vec<u8> {
    (0..rng.range(1, max)).map(|_| *rng.pick(&WS)).collect()
}

/// A string body (JSON-escaped form, ASCII) of `len` bytes without escapes.
fn plain(rng: &mut Rng, len: usize) -> String {
    const AL: &[u8] = b"abcdefghijklmnopqrstuvwxyzABCDEFGHIJKLMNOPQRSTUVWXYZ0123456789 _-.,:{}[]";
    (0..len).map(|_| *rng.pick(AL) as char).collect()
}

/// JSON string literal contents that may contain escapes and non-ASCII.
fn fancy(rng: &mut Rng, len: usize) -> String {
    let mut s = String::new();
    while s.len() < len {
        match rng.below(12) {
            0 => s.push_str("\\n"),
            1 => s.push_str("\\\""),
            2 => s.push_str("\\u00e9"),
            3 => s.push('é'),
            4 => s.push('€'),
            5 => s.push('𝄞'),
            6 => s.push_str("\\\\"),
            7 => s.push_str("\\ud834\\udd1e"),
            _ => s.push(*rng.pick(b"abcXYZ019 {}[],:") as char),
        }
    }
    s
}

fn permute_members(rng: &mut Rng, members: &mut Vec<String>) {
    rng.shuffle(members);
}

fn obj(members: &[String], rng: &mut Rng, ws_inside: bool) -> Vec<u8> {
    let mut out = Vec::new();
    out.push(b'{');
    for (i, m) in members.iter().enumerate() {
        if i > 0 {
            out.push(b',');
        }
        if ws_inside && rng.chance(1, 2) {
            out.extend(rand_ws(rng, 3));
        }
        out.extend_from_slice(m.as_bytes());
        if ws_inside && rng.chance(1, 2) {
            out.extend(rand_ws(rng, 3));
        }
    }
    out.push(b'}');
    out
}

fn flags(rng: &mut Rng, members: &mut Vec<String>) {
    for f in ["oneway", "more", "upgrade"] {
        match rng.below(6) {
            0 => members.push(format!("\"{f}\":true")),
            1 => members.push(format!("\"{f}\":false")),
            _ => {}
        }
    }
}

/// A valid message for `target`; `pad` is the approximate length of its string field.
pub fn valid_frame(rng: &mut Rng, target: Target, pad: usize, ws_inside: bool) -> Vec<u8> {
    let mut members: Vec<String> = Vec::new();
    match target {
        Target::CallA => {
            match rng.below(4) {
                0 => members.push("\"method\":\"a.U\"".into()),
                1 => {
                    // borrowed &str: no escapes, or the reference and zlink both refuse
                    let name = if rng.chance(1, 8) { fancy(rng, pad) } else { plain(rng, pad) };
                    members.push("\"method\":\"a.S\"".into());
                    members.push(format!(
                        "\"parameters\":{{\"id\":{},\"name\":\"{}\"}}",
                        rng.below(100000),
                        name
                    ));
                }
                _ => {
                    members.push("\"method\":\"a.O\"".into());
                    let n = match rng.below(3) {
                        0 => String::new(),
                        1 => ",\"n\":null".into(),
                        _ => format!(",\"n\":-{}", rng.below(1 << 40)),
                    };
                    members.push(format!(
                        "\"parameters\":{{\"text\":\"{}\"{}}}",
                        fancy(rng, pad),
                        n
                    ));
                }
            }
            flags(rng, &mut members);
        }
        Target::CallValue => {
            members.push(format!("\"method\":\"v.{}\"", plain(rng, 3).replace(' ', "_")));
            if rng.chance(3, 4) {
                members.push(format!(
                    "\"parameters\":{{\"k\":[1,2.5e3,null,true,{{\"z\":\"{}\"}}]}}",
                    fancy(rng, pad)
                ));
            }
            if rng.chance(1, 3) {
                members.push(format!("\"extra\":{}", rng.below(100)));
            }
            flags(rng, &mut members);
        }
        Target::CallStrict => {
            members.push("\"method\":\"s.M\"".into());
            members.push(format!(
                "\"parameters\":{{\"id\":{},\"name\":\"{}\"}}",
                rng.below(1000),
                fancy(rng, pad)
            ));
            flags(rng, &mut members);
        }
        Target::ReplyStrictA => match rng.below(6) {
            0 => {
                members.push("\"error\":\"a.NotFound\"".into());
            }
            1 => {
                members.push("\"error\":\"a.Bad\"".into());
                members.push(format!(
                    "\"parameters\":{{\"code\":-{},\"why\":\"{}\"}}",
                    rng.below(1000),
                    fancy(rng, pad)
                ));
            }
            2 => {
                members.push("\"error\":\"org.varlink.service.MethodNotFound\"".into());
                members.push(format!(
                    "\"parameters\":{{\"method\":\"{}\"}}",
                    plain(rng, pad)
                ));
            }
            _ => {
                members.push(format!(
                    "\"parameters\":{{\"id\":{},\"name\":\"{}\"}}",
                    rng.below(1000),
                    fancy(rng, pad)
                ));
                match rng.below(3) {
                    0 => members.push("\"continues\":true".into()),
                    1 => members.push("\"continues\":false".into()),
                    _ => {}
                }
            }
        },
        Target::ReplyBorrowB => match rng.below(5) {
            0 => members.push("\"error\":\"b.Gone\"".into()),
            1 => {
                members.push("\"error\":\"b.Msg\"".into());
                members.push(format!("\"parameters\":{{\"msg\":\"{}\"}}", plain(rng, pad)));
            }
            2 => {
                members.push("\"error\":\"org.varlink.service.PermissionDenied\"".into());
            }
            _ => {
                members.push(format!(
                    "\"parameters\":{{\"id\":{},\"name\":\"{}\"}}",
                    rng.below(1000),
                    plain(rng, pad)
                ));
                if rng.chance(1, 3) {
                    members.push("\"continues\":true".into());
                }
            }
        },
    }
    permute_members(rng, &mut members);
    obj(&members, rng, ws_inside)
}

fn nested(depth: usize) -> Vec<u8> {
    let mut v = Vec::new();
    v.extend_from_slice(b"{\"method\":\"v.Deep\",\"parameters\":{\"d\":");
    v.extend(std::iter::repeat(b'[').take(depth));
    v.extend(std::iter::repeat(b']').take(depth));
    v.extend_from_slice(b"}}");
    v
}

/// Remove NULs a mutation may have introduced (a frame never contains NUL) and make sure the
/// frame is non-empty.
fn sanitize(mut v: Vec<u8>) -> Vec<u8> {
    for b in v.iter_mut() {
        if *b == 0 {
            *b = b'?';
        }
    }
    if v.is_empty() {
        v.push(b'?');
    }
    v
}

/// Reply frames that carry an `error` member which neither the standard service errors nor the
/// caller's error type recognise are C04's business (the pinned tree reports some of them as
/// success); they are kept out of the framing monitors so that one defect does not leak into
/// another property's verdict.
pub fn controversial(target: Target, frame: &[u8]) -> bool {
    if target.is_call() {
        return false;
    }
    match serde_json::from_slice::<Value>(frame) {
        Ok(Value::Object(o)) => o.contains_key("error") && reference(target, frame) == Outcome::Err,
        _ => false,
    }
}

/// Generate one frame of a random kind. `size` = None for "small", Some(n) to aim at `n` bytes.
pub fn gen_frame(rng: &mut Rng, size: Option<usize>) -> Frame {
    loop {
        let f = gen_frame_raw(rng, size);
        if !controversial(f.target, &f.bytes) {
            return f;
        }
    }
}

fn gen_frame_raw(rng: &mut Rng, size: Option<usize>) -> Frame {
    let target = *rng.pick(&TARGETS);
    let pad = match size {
        Some(n) => n.saturating_sub(60),
        None => rng.below(12),
    };
    let (bytes, kind): (Vec<u8>, &'static str) = match rng.below(20) {
        0..=6 => (valid_frame(rng, target, pad, false), "valid"),
        7 => {
            // the same document with the names of its top-level members spelled with JSON escapes
            let v = valid_frame(rng, target, pad, false);
            match serde_json::from_slice::<serde_json::Value>(&v) {
                Ok(serde_json::Value::Object(o)) if !o.is_empty() => {
                    let style = rng.below(3);
                    let members: Vec<String> = o
                        .iter()
                        .map(|(k, val)| {
                            let mut name = String::from("\"");
                            for (i, c) in k.chars().enumerate() {
                                if (style == 0 && i == 0) || style == 1 || (style == 2 && i + 1 == k.chars().count()) {
                                    name.push_str(&format!("\\u{:04x}", c as u32));
                                } else {
                                    name.push(c);
                                }
                            }
                            name.push('"');
                            format!("{name}:{val}")
                        })
                        .collect();
                    (format!("{{{}}}", members.join(",")).into_bytes(), "escaped-member-names")
                }
                _ => (v, "valid"),
            }
        }
        8 => (valid_frame(rng, target, pad, true), "ws-inside"),
        9 => {
            let mut v = rand_ws(rng, 4);
            v.extend(valid_frame(rng, target, pad, false));
            (v, "ws-before")
        }
        10 => {
            let mut v = valid_frame(rng, target, pad, false);
            v.extend(rand_ws(rng, 4));
            (v, "ws-after")
        }
        11 => {
            // wrong shape: valid JSON, not what the target wants
            let alts: [&[u8]; 9] = [
                b"{\"method\":\"nope\"}",
                b"[1,2,3]",
                b"42",
                b"\"str\"",
                b"null",
                b"{\"method\":\"a.S\",\"parameters\":{\"id\":\"x\",\"name\":1}}",
                b"{\"parameters\":{\"id\":\"notanumber\"}}",
                b"{\"method\":\"s.M\",\"parameters\":{\"id\":1,\"name\":\"n\",\"extra\":1}}",
                b"{\"parameters\":{\"id\":1,\"name\":\"n\",\"zzz\":0}}",
            ];
            (rng.pick(&alts).to_vec(), "wrong-shape")
        }
        12 => {
            // truncated document
            let v = valid_frame(rng, target, pad, false);
            let cut = rng.range(1, v.len() - 1);
            (v[..cut].to_vec(), "truncated-doc")
        }
        13 => {
            // one byte replaced
            let mut v = valid_frame(rng, target, pad, false);
            let i = rng.below(v.len());
            v[i] = *rng.pick(b"x}{\",:]\x01\x7f\xff\xc3");
            (v, "byte-flip")
        }
        14 => {
            // two documents in one frame / trailing garbage
            let mut v = valid_frame(rng, target, pad, false);
            match rng.below(7) {
                0 => v.extend(valid_frame(rng, target, 0, false)),
                1 => v.extend_from_slice(b"{}"),
                2 => v.extend_from_slice(b" x"),
                3 => v.extend_from_slice(b"]"),
                // one stray byte of any value (control characters, DEL, bytes above 0x7f) behind the document,
                // or two of them
                4 | 5 => v.push(rng.range(1, 255) as u8),
                _ => {
                    let b = *rng.pick(&[1u8, 2, 0x7f, 0x80, 0xff, 0x1f]);
                    v.extend_from_slice(&[b, b]);
                }
            }
            (v, "trailing-garbage")
        }
        15 => {
            // invalid UTF-8 inside a string
            let mut v = valid_frame(rng, target, pad.max(4), false);
            if let Some(p) = v.iter().rposition(|b| *b == b'"') {
                v.insert(p, *rng.pick(&[0xffu8, 0xc0, 0x80, 0xed]));
            }
            (v, "invalid-utf8")
        }
        16 => {
            let d = *rng.pick(&[1usize, 10, 100, 126, 127, 128, 129, 200]);
            return Frame {
                bytes: nested(d),
                target: Target::CallValue,
                kind: "deep",
            };
        }
        17 => (rand_ws(rng, 5), "ws-only"),
        18 => {
            let n = rng.range(1, 12);
            let v: Vec<u8> = (0..n).map(|_| rng.range(1, 255) as u8).collect();
            (v, "garbage")
        }
        _ => {
            let mut v = rand_ws(rng, 3);
            v.extend(valid_frame(rng, target, pad, true));
            v.extend(rand_ws(rng, 3));
            (v, "ws-around")
        }
    };
    Frame {
        bytes: sanitize(bytes),
        target,
        kind,
    }
}

/// A valid frame for `target` of exactly `len` bytes (len >= 80).
pub fn exact_frame(rng: &mut Rng, target: Target, len: usize) -> Frame {
    // Build with pad 0 using only fixed-width pieces, then pad the string field.
    let (prefix, suffix): (String, &str) = match target {
        Target::CallA => ("{\"method\":\"a.O\",\"parameters\":{\"text\":\"".into(), "\"}}"),
        Target::CallValue => ("{\"method\":\"v.X\",\"parameters\":{\"t\":\"".into(), "\"}}"),
        Target::CallStrict => (
            "{\"method\":\"s.M\",\"parameters\":{\"id\":7,\"name\":\"".into(),
            "\"}}",
        ),
        Target::ReplyStrictA => ("{\"parameters\":{\"id\":7,\"name\":\"".into(), "\"}}"),
        Target::ReplyBorrowB => ("{\"parameters\":{\"id\":7,\"name\":\"".into(), "\"}}"),
    };
    let fixed = prefix.len() + suffix.len();
    assert!(len >= fixed);
    let mut v = prefix.into_bytes();
    v.extend(plain(rng, len - fixed).into_bytes());
    v.extend_from_slice(suffix.as_bytes());
    assert_eq!(v.len(), len);
    Frame {
        bytes: v,
        target,
        kind: "exact-size",
    }
}

/// Concatenate frames into a wire stream (each followed by one NUL).
pub fn stream_of(frames: &[Frame]) -> Vec<u8> {
    let mut s = Vec::new();
    for f in frames {
        s.extend_from_slice(&f.bytes);
        s.push(0);
    }
    s
}

/// Like [`receive`], but at every suspension point (`Pending`) asks `cancel()` whether to drop the
/// receive future and start a fresh one. `suspensions` counts the suspension points met.
pub fn receive_cancelling(
    conn: &mut Connection<VSocket>,
    target: Target,
    cancel: &mut dyn FnMut() -> bool,
    suspensions: &mut usize,
    max_polls: usize,
) -> Outcome {
    macro_rules! drive {
        ($mk:expr, $canon:expr) => {{
            let mut polls = 0usize;
            'outer: loop {
                let fut = $mk;
                let mut fut = core::pin::pin!(fut);
                loop {
                    polls += 1;
                    if polls > max_polls {
                        break 'outer Outcome::Stalled;
                    }
                    match vnet::poll_once(fut.as_mut()) {
                        core::task::Poll::Ready(r) => break 'outer $canon(r),
                        core::task::Poll::Pending => {
                            *suspensions += 1;
                            if cancel() {
                                continue 'outer; // drops `fut`
                            }
                        }
                    }
                }
            }
        }};
    }
    match target {
        Target::CallA => drive!(conn.receive_call::<MA<'_>>(), canon_call_result),
        Target::CallValue => drive!(conn.receive_call::<Value>(), canon_call_result),
        Target::CallStrict => drive!(conn.receive_call::<MStrict>(), canon_call_result),
        Target::ReplyStrictA => drive!(conn.receive_reply::<PStrict, EA>(), canon_reply_result),
        Target::ReplyBorrowB => {
            drive!(conn.receive_reply::<PBorrow<'_>, EB<'_>>(), canon_reply_result)
        }
    }
}

//! A value model that can issue every serde data-model call, with a hand-written `Serialize`.

use serde::ser::{
    Error as _, Serialize, SerializeMap, SerializeSeq, SerializeStruct, SerializeStructVariant,
    SerializeTuple, SerializeTupleStruct, SerializeTupleVariant, Serializer,
};
use vnet::Rng;

#[derive(Debug, Clone, PartialEq)]
pub enum V {
    Bool(bool),
    I8(i8),
    I16(i16),
    I32(i32),
    I64(i64),
    I128(i128),
    U8(u8),
    U16(u16),
    U32(u32),
    U64(u64),
    U128(u128),
    F32(f32),
    F64(f64),
    Char(char),
    Str(String),
    /// `serializer.collect_str(&s)`
    CollectStr(String),
    /// `serializer.collect_str(&d)` where `d`'s `Display` writes the pieces one by one and carries on after a
    /// piece failed (a "best effort" Display: wrappers that fall back to a placeholder do this)
    CollectStrLossy(Vec<String>),
    Bytes(Vec<u8>),
    None,
    Some(Box<V>),
    Unit,
    UnitStruct(&'static str),
    UnitVariant(&'static str, u32, &'static str),
    NewtypeStruct(&'static str, Box<V>),
    NewtypeVariant(&'static str, u32, &'static str, Box<V>),
    /// elements, pass a length hint
    Seq(Vec<V>, bool),
    Tuple(Vec<V>),
    TupleStruct(&'static str, Vec<V>),
    TupleVariant(&'static str, u32, &'static str, Vec<V>),
    /// entries, pass a length hint, use serialize_entry (true) or key+value (false)
    Map(Vec<(V, V)>, bool, bool),
    Struct(&'static str, Vec<(&'static str, V)>),
    StructVariant(&'static str, u32, &'static str, Vec<(&'static str, V)>),
    /// `Serialize` impl that returns a custom error
    Fail,
    /// a value of an error enum whose `Serialize` comes from zlink's `ReplyError` derive
    Derived(DErr),
    /// a type whose `Serialize` asks the serializer whether the format is human readable and writes the first
    /// value if so, the second otherwise (serde_json says yes; uuid, time, chrono, ipnet ... types do this)
    ByReadability(Box<V>, Box<V>),
    /// std's network address types (they ask the same question: text form or tuple / enum form)
    Net(NetV),
    /// `serializer.collect_seq(iter)` - what `Vec`, slices and sets call
    CollectSeq(Vec<V>),
    /// `serializer.collect_map(iter)` - what `HashMap` and `BTreeMap` call (keys of any kind, as in `Map`)
    CollectMap(Vec<(V, V)>),
}

#[derive(Debug, Clone, PartialEq)]
pub enum NetV {
    Ip(std::net::IpAddr),
    V4(std::net::Ipv4Addr),
    V6(std::net::Ipv6Addr),
    Sock(std::net::SocketAddr),
}

pub fn rand_net(rng: &mut Rng) -> NetV {
    use std::net::*;
    let v4 = Ipv4Addr::from(match rng.below(3) { 0 => 0, 1 => u32::MAX, _ => rng.next_u64() as u32 });
    let v6 = Ipv6Addr::from(match rng.below(4) {
        0 => 0u128,
        1 => 1,
        2 => (rng.next_u64() as u128) << 64 | rng.next_u64() as u128,
        _ => (rng.next_u64() as u128) << (rng.below(64) as u32),
    });
    let port = *rng.pick(&[0u16, 1, 80, 8080, 65535]);
    match rng.below(6) {
        0 => NetV::Ip(IpAddr::V4(v4)),
        1 => NetV::Ip(IpAddr::V6(v6)),
        2 => NetV::V4(v4),
        3 => NetV::V6(v6),
        4 => NetV::Sock(SocketAddr::V4(SocketAddrV4::new(v4, port))),
        _ => NetV::Sock(SocketAddr::V6(SocketAddrV6::new(v6, port, 0, 0))),
    }
}

/// Error enum with optional fields in every combination (all optional / mixed / none), serialized by the
/// code that `#[derive(ReplyError)]` generates.
#[derive(Debug, Clone, PartialEq, zlink_core::ReplyError)]
#[zlink(interface = "org.example.Store", crate = "zlink_core")]
pub enum DErr {
    Busy { holder: Option<String>, retry_after: Option<u32> },
    Gone { id: u32, note: Option<String> },
    Closed,
    Maybe { flag: Option<bool> },
    Full { used: u64, limit: u64 },
}

pub fn rand_derr(rng: &mut Rng) -> DErr {
    let os = |rng: &mut Rng| if rng.chance(1, 2) { Some(format!("w{}\"/", rng.below(1000))) } else { None };
    match rng.below(5) {
        0 => DErr::Busy { holder: os(rng), retry_after: if rng.chance(1, 2) { Some(rng.below(100) as u32) } else { None } },
        1 => DErr::Gone { id: rng.below(1 << 20) as u32, note: os(rng) },
        2 => DErr::Closed,
        3 => DErr::Maybe { flag: *rng.pick(&[None, Some(true), Some(false)]) },
        _ => DErr::Full { used: rng.next_u64(), limit: rng.next_u64() },
    }
}

impl Serialize for V {
    fn serialize<S: Serializer>(&self, s: S) -> Result<S::Ok, S::Error> {
        match self {
            V::Derived(e) => e.serialize(s),
            V::ByReadability(a, b) => {
                if s.is_human_readable() {
                    a.serialize(s)
                } else {
                    b.serialize(s)
                }
            }
            V::CollectSeq(xs) => s.collect_seq(xs.iter()),
            V::CollectMap(es) => s.collect_map(es.iter().map(|(k, v)| (k, v))),
            V::Net(NetV::Ip(a)) => a.serialize(s),
            V::Net(NetV::V4(a)) => a.serialize(s),
            V::Net(NetV::V6(a)) => a.serialize(s),
            V::Net(NetV::Sock(a)) => a.serialize(s),
            V::Bool(v) => s.serialize_bool(*v),
            V::I8(v) => s.serialize_i8(*v),
            V::I16(v) => s.serialize_i16(*v),
            V::I32(v) => s.serialize_i32(*v),
            V::I64(v) => s.serialize_i64(*v),
            V::I128(v) => s.serialize_i128(*v),
            V::U8(v) => s.serialize_u8(*v),
            V::U16(v) => s.serialize_u16(*v),
            V::U32(v) => s.serialize_u32(*v),
            V::U64(v) => s.serialize_u64(*v),
            V::U128(v) => s.serialize_u128(*v),
            V::F32(v) => s.serialize_f32(*v),
            V::F64(v) => s.serialize_f64(*v),
            V::Char(v) => s.serialize_char(*v),
            V::Str(v) => s.serialize_str(v),
            V::CollectStr(v) => s.collect_str(v),
            V::CollectStrLossy(parts) => {
                struct Lossy<'a>(&'a [String]);
                impl std::fmt::Display for Lossy<'_> {
                    fn fmt(&self, f: &mut std::fmt::Formatter<'_>) -> std::fmt::Result {
                        for p in self.0 {
                            // whatever happened to this piece, try the next one
                            let _ = f.write_str(p);
                        }
                        Ok(())
                    }
                }
                s.collect_str(&Lossy(parts))
            }
            V::Bytes(v) => s.serialize_bytes(v),
            V::None => s.serialize_none(),
            V::Some(v) => s.serialize_some(&**v),
            V::Unit => s.serialize_unit(),
            V::UnitStruct(n) => s.serialize_unit_struct(n),
            V::UnitVariant(n, i, v) => s.serialize_unit_variant(n, *i, v),
            V::NewtypeStruct(n, v) => s.serialize_newtype_struct(n, &**v),
            V::NewtypeVariant(n, i, var, v) => s.serialize_newtype_variant(n, *i, var, &**v),
            V::Seq(xs, hint) => {
                let mut q = s.serialize_seq(if *hint { Some(xs.len()) } else { None })?;
                for x in xs {
                    q.serialize_element(x)?;
                }
                q.end()
            }
            V::Tuple(xs) => {
                let mut q = s.serialize_tuple(xs.len())?;
                for x in xs {
                    q.serialize_element(x)?;
                }
                q.end()
            }
            V::TupleStruct(n, xs) => {
                let mut q = s.serialize_tuple_struct(n, xs.len())?;
                for x in xs {
                    q.serialize_field(x)?;
                }
                q.end()
            }
            V::TupleVariant(n, i, var, xs) => {
                let mut q = s.serialize_tuple_variant(n, *i, var, xs.len())?;
                for x in xs {
                    q.serialize_field(x)?;
                }
                q.end()
            }
            V::Map(es, hint, entry) => {
                let mut m = s.serialize_map(if *hint { Some(es.len()) } else { None })?;
                for (k, v) in es {
                    if *entry {
                        m.serialize_entry(k, v)?;
                    } else {
                        m.serialize_key(k)?;
                        m.serialize_value(v)?;
                    }
                }
                m.end()
            }
            V::Struct(n, fs) => {
                let mut m = s.serialize_struct(n, fs.len())?;
                for (k, v) in fs {
                    m.serialize_field(k, v)?;
                }
                m.end()
            }
            V::StructVariant(n, i, var, fs) => {
                let mut m = s.serialize_struct_variant(n, *i, var, fs.len())?;
                for (k, v) in fs {
                    m.serialize_field(k, v)?;
                }
                m.end()
            }
            V::Fail => Err(S::Error::custom("refused by the value")),
        }
    }
}

/// Names used for struct fields, variants and type names (must be `'static`).
pub const NAMES: [&str; 16] = [
    "a",
    "field",
    "",
    "with space",
    "quote\"d",
    "back\\slash",
    "new\nline",
    "tab\t",
    "nul\u{0}ch",
    "ctl\u{1f}",
    "del\u{7f}",
    "é",
    "€uro",
    "𝄞clef",
    "\u{2028}ls",
    "method",
];

/// Is this key of a kind the property says must be accepted (string, char, integer, unit
/// variant, or a newtype struct around those)?
pub fn key_must_be_accepted(k: &V) -> bool {
    match k {
        V::Str(_) | V::CollectStr(_) | V::CollectStrLossy(_) | V::Char(_) | V::UnitVariant(..) => true,
        V::I8(_) | V::I16(_) | V::I32(_) | V::I64(_) | V::I128(_) => true,
        V::U8(_) | V::U16(_) | V::U32(_) | V::U64(_) | V::U128(_) => true,
        V::NewtypeStruct(_, inner) => key_must_be_accepted(inner),
        // the reference format is human readable: the first value / the text form is what must go out
        V::ByReadability(a, _) => key_must_be_accepted(a),
        V::Net(_) => true,
        _ => false,
    }
}

/// Does the value contain, anywhere, a map key that zlink is allowed to refuse?
pub fn has_refusable_key(v: &V) -> bool {
    match v {
        V::Some(x) | V::NewtypeStruct(_, x) | V::NewtypeVariant(_, _, _, x) | V::ByReadability(x, _) => has_refusable_key(x),
        V::Seq(xs, _) | V::Tuple(xs) | V::TupleStruct(_, xs) | V::TupleVariant(_, _, _, xs) | V::CollectSeq(xs) => {
            xs.iter().any(has_refusable_key)
        }
        V::Map(es, _, _) | V::CollectMap(es) => es
            .iter()
            .any(|(k, v)| !key_must_be_accepted(k) || has_refusable_key(k) || has_refusable_key(v)),
        V::Struct(_, fs) | V::StructVariant(_, _, _, fs) => fs.iter().any(|(_, v)| has_refusable_key(v)),
        _ => false,
    }
}

pub fn has_fail(v: &V) -> bool {
    match v {
        V::Fail => true,
        V::Some(x) | V::NewtypeStruct(_, x) | V::NewtypeVariant(_, _, _, x) | V::ByReadability(x, _) => has_fail(x),
        V::Seq(xs, _) | V::Tuple(xs) | V::TupleStruct(_, xs) | V::TupleVariant(_, _, _, xs) | V::CollectSeq(xs) => {
            xs.iter().any(has_fail)
        }
        V::Map(es, _, _) | V::CollectMap(es) => es.iter().any(|(k, v)| has_fail(k) || has_fail(v)),
        V::Struct(_, fs) | V::StructVariant(_, _, _, fs) => fs.iter().any(|(_, v)| has_fail(v)),
        _ => false,
    }
}

pub const ESCAPE_RELEVANT: [char; 48] = [
    '\u{0}', '\u{1}', '\u{7}', '\u{8}', '\t', '\n', '\u{b}', '\u{c}', '\r', '\u{e}', '\u{1b}',
    '\u{1f}', ' ', '!', '"', '#', '/', '0', '\\', ']', 'a', 'u', '~', '\u{7f}', '\u{80}', '\u{9f}',
    '\u{a0}', 'é', '\u{7ff}', '\u{800}', '\u{d7ff}', '\u{e000}', '\u{feff}', '\u{fffd}',
    '\u{fffe}', '\u{ffff}', '\u{10000}', '𝄞', '\u{10ffff}', '\u{2028}', '\u{2029}', 'b', 'f', 'n',
    'r', 't', '\'', '\u{85}',
];

pub fn rand_string(rng: &mut Rng, max: usize) -> String {
    let n = rng.below(max + 1);
    let mut s = String::new();
    for _ in 0..n {
        match rng.below(10) {
            0..=3 => s.push(*rng.pick(&ESCAPE_RELEVANT)),
            4 => {
                // any scalar
                loop {
                    if let Some(c) = char::from_u32(rng.below(0x110000) as u32) {
                        s.push(c);
                        break;
                    }
                }
            }
            _ => s.push((b'a' + rng.below(26) as u8) as char),
        }
    }
    s
}

fn rand_i128(rng: &mut Rng) -> i128 {
    let bits = rng.below(128) as u32;
    let mag = ((rng.next_u64() as u128) << 64 | rng.next_u64() as u128) >> (127 - bits);
    let v = mag as i128;
    match rng.below(4) {
        0 => v,
        1 => v.wrapping_neg(),
        2 => {
            // powers of ten +-1
            let p = 10i128.pow(rng.below(39) as u32);
            p + rng.below(3) as i128 - 1
        }
        _ => (1i128 << rng.below(127)) + rng.below(3) as i128 - 1,
    }
}

pub fn rand_f64(rng: &mut Rng) -> f64 {
    match rng.below(8) {
        0 => f64::from_bits(rng.next_u64()),
        1 => *rng.pick(&[0.0, -0.0, f64::NAN, f64::INFINITY, f64::NEG_INFINITY, f64::MIN, f64::MAX,
                        f64::MIN_POSITIVE, f64::EPSILON, 5e-324, 1e21, 1e-7, 1e15, 1e16, 1e17, 0.1, 0.3]),
        2 => (rng.next_u64() as i64) as f64,
        3 => rng.below(1_000_000) as f64 / 1000.0,
        4 => f64::from_bits(rng.next_u64() & 0x000f_ffff_ffff_ffff), // subnormals
        5 => 10f64.powi(rng.below(640) as i32 - 320),
        _ => (rng.next_u64() as f64) * 2f64.powi(rng.below(200) as i32 - 100),
    }
}

pub fn rand_scalar(rng: &mut Rng) -> V {
    match rng.below(23) {
        22 => V::Net(rand_net(rng)),
        0 => V::Bool(rng.chance(1, 2)),
        1 => V::I8(rng.next_u64() as i8),
        2 => V::I16(rng.next_u64() as i16),
        3 => V::I32(rand_i128(rng) as i32),
        4 => V::I64(rand_i128(rng) as i64),
        5 => V::I128(rand_i128(rng)),
        6 => V::U8(rng.next_u64() as u8),
        7 => V::U16(rng.next_u64() as u16),
        8 => V::U32(rand_i128(rng) as u32),
        9 => V::U64(rand_i128(rng) as u64),
        10 => V::U128(rand_i128(rng) as u128),
        11 => V::F32(match rng.below(3) {
            0 => f32::from_bits(rng.next_u64() as u32),
            1 => rand_f64(rng) as f32,
            _ => *rng.pick(&[0.0f32, -0.0, f32::NAN, f32::INFINITY, f32::MIN, f32::MAX, f32::MIN_POSITIVE, 1e-45, 0.1, 16777216.0]),
        }),
        12 => V::F64(rand_f64(rng)),
        13 => V::Char(loop {
            if let Some(c) = char::from_u32(rng.below(0x110000) as u32) {
                break if rng.chance(1, 2) { c } else { *rng.pick(&ESCAPE_RELEVANT) };
            }
        }),
        14 | 15 => V::Str(rand_string(rng, 12)),
        16 => if rng.chance(1, 2) { V::CollectStr(rand_string(rng, 8)) } else { V::CollectStrLossy((0..rng.range(1, 4)).map(|_| rand_string(rng, 6)).collect()) },
        17 => V::Bytes((0..rng.below(6)).map(|_| rng.next_u64() as u8).collect()),
        18 => V::None,
        19 => V::Unit,
        20 => V::UnitStruct(name(rng)),
        _ => V::UnitVariant(name(rng), rng.below(5) as u32, name(rng)),
    }
}

/// A key of a kind that must be accepted.
pub fn rand_good_key(rng: &mut Rng) -> V {
    let k = match rng.below(16) {
        14 => V::Net(rand_net(rng)),
        15 => V::ByReadability(Box::new(V::Str(rand_string(rng, 6))), Box::new(rng.pick(&[V::Bytes(vec![1, 2]), V::U64(7), V::Tuple(vec![V::U8(1)])]).clone())),
        0 => V::I8(rng.next_u64() as i8),
        1 => V::I16(rng.next_u64() as i16),
        2 => V::I32(rand_i128(rng) as i32),
        3 => V::I64(rand_i128(rng) as i64),
        4 => V::I128(rand_i128(rng)),
        5 => V::U8(rng.next_u64() as u8),
        6 => V::U16(rng.next_u64() as u16),
        7 => V::U32(rand_i128(rng) as u32),
        8 => V::U64(rand_i128(rng) as u64),
        9 => V::U128(rand_i128(rng) as u128),
        10 => V::Char(*rng.pick(&ESCAPE_RELEVANT)),
        11 => V::UnitVariant(name(rng), 0, name(rng)),
        12 => V::CollectStr(rand_string(rng, 6)),
        _ => V::Str(rand_string(rng, 8)),
    };
    if rng.chance(1, 6) {
        V::NewtypeStruct(name(rng), Box::new(k))
    } else {
        k
    }
}

/// A key of a kind that need not (bool, float, option) or must not (everything else) be accepted.
pub fn rand_bad_key(rng: &mut Rng) -> V {
    match rng.below(12) {
        0 => V::Bool(rng.chance(1, 2)),
        1 => V::F64(rand_f64(rng)),
        2 => V::F32(1.5),
        3 => V::Some(Box::new(V::Str("k".into()))),
        4 => V::None,
        5 => V::Unit,
        6 => V::Bytes(vec![1, 2]),
        7 => V::Seq(vec![V::I8(1)], true),
        8 => V::Map(vec![], true, true),
        9 => V::UnitStruct("U"),
        10 => V::NewtypeVariant("E", 0, "V", Box::new(V::Str("k".into()))),
        _ => V::Struct("S", vec![("a", V::I8(1))]),
    }
}

pub struct GenOpts {
    /// probability (1/n) of a bad key per map; 0 = never
    pub bad_key_one_in: usize,
    /// probability (1/n) of `Fail` per node; 0 = never
    pub fail_one_in: usize,
}

pub fn rand_tree(rng: &mut Rng, depth: usize, o: &GenOpts) -> V {
    if o.fail_one_in > 0 && rng.chance(1, o.fail_one_in) {
        return V::Fail;
    }
    if depth == 0 || rng.chance(2, 5) {
        return rand_scalar(rng);
    }
    let kids = |rng: &mut Rng, max: usize| -> Vec<V> {
        (0..rng.below(max + 1)).map(|_| rand_tree(rng, depth - 1, o)).collect()
    };
    match rng.below(14) {
        12 => V::CollectSeq(kids(rng, 4)),
        13 => {
            let n = rng.below(5);
            V::CollectMap(
                (0..n)
                    .map(|_| {
                        let k = if o.bad_key_one_in > 0 && rng.chance(1, o.bad_key_one_in) { rand_bad_key(rng) } else { rand_good_key(rng) };
                        (k, rand_tree(rng, depth - 1, o))
                    })
                    .collect(),
            )
        }
        11 => V::ByReadability(Box::new(rand_tree(rng, depth - 1, o)), Box::new(rand_tree(rng, depth - 1, &GenOpts { bad_key_one_in: 0, fail_one_in: 0 }))),
        0 => V::Some(Box::new(rand_tree(rng, depth - 1, o))),
        1 => V::NewtypeStruct(name(rng), Box::new(rand_tree(rng, depth - 1, o))),
        2 => V::NewtypeVariant(name(rng), rng.below(4) as u32, name(rng), Box::new(rand_tree(rng, depth - 1, o))),
        3 => V::Seq(kids(rng, 4), rng.chance(1, 2)),
        4 => V::Tuple(kids(rng, 4)),
        5 => V::TupleStruct(name(rng), kids(rng, 3)),
        6 => V::TupleVariant(name(rng), rng.below(4) as u32, name(rng), kids(rng, 3)),
        7 | 8 => {
            let n = rng.below(5);
            let es = (0..n)
                .map(|_| {
                    let k = if o.bad_key_one_in > 0 && rng.chance(1, o.bad_key_one_in) {
                        rand_bad_key(rng)
                    } else {
                        rand_good_key(rng)
                    };
                    (k, rand_tree(rng, depth - 1, o))
                })
                .collect();
            V::Map(es, rng.chance(1, 2), rng.chance(1, 2))
        }
        9 => {
            let n = rng.below(5);
            V::Struct(name(rng), (0..n).map(|_| (name(rng), rand_tree(rng, depth - 1, o))).collect())
        }
        _ => {
            let n = rng.below(4);
            V::StructVariant(name(rng), rng.below(4) as u32, name(rng), (0..n).map(|_| (name(rng), rand_tree(rng, depth - 1, o))).collect())
        }
    }
}

/// The frame invariants the property states independently of the reference encoder.
pub fn frame_wellformed(doc: &[u8]) -> Result<(), String> {
    if std::str::from_utf8(doc).is_err() {
        return Err("not valid UTF-8".into());
    }
    if let Some(p) = doc.iter().position(|b| *b < 0x20) {
        return Err(format!("raw control byte 0x{:02x} at offset {p}", doc[p]));
    }
    Ok(())
}

pub fn name(rng: &mut Rng) -> &'static str {
    NAMES[rng.below(NAMES.len())]
}

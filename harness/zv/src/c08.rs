//! C08 — the server answers each call once, in order, on its own connection; oneway gets none.

use crate::cfg::Cfg;
use crate::srv::*;
use serde_json::json;
use vnet::{Report, Rng};

fn gen_calls(rng: &mut Rng, n: usize, seq0: u32) -> Vec<CallSpec> {
    (0..n)
        .map(|j| CallSpec {
            kind: if rng.chance(1, 4) { Kind::Fail } else if rng.chance(1, 14) { Kind::Poison } else { Kind::Echo },
            seq: seq0 + j as u32,
            oneway: rng.chance(1, 4),
            more: rng.chance(1, 10),
            payload: payload(rng),
        })
        .collect()
}

fn gen_conn(rng: &mut Rng, i: usize, max_calls: usize, small: bool) -> ConnScn {
    let n = rng.range(0, max_calls);
    let mut calls = gen_calls(rng, n, 1);
    if small {
        for c in &mut calls {
            c.payload = c.payload.chars().take(6).collect();
        }
    }
    let mut c = ConnScn { calls, ..Default::default() };
    // stray terminators (empty frames) between, behind or in front of the rest of a burst: every sixth client
    if !c.calls.is_empty() && rng.chance(1, 6) {
        for _ in 0..rng.range(1, 2) {
            c.stray.push((rng.below(c.calls.len()), rng.range(1, 3)));
        }
    }
    let stream = c.stream(i as u32);
    c.cuts = match rng.below(4) {
        0 => vec![],
        1 => frame_cuts(&stream),
        _ => random_cuts(rng, stream.len(), if small { 2 } else { 5 }),
    };
    if rng.chance(1, 8) {
        c.write_pending_polls = rng.range(1, 2);
    }
    c
}

/// Event chains of a scenario: per connection one chain for its accept and one for its bytes.
pub fn chains(scn: &Scenario, eof: &[bool]) -> Vec<Vec<Ev>> {
    let mut out = Vec::new();
    for (i, c) in scn.conns.iter().enumerate() {
        out.push(vec![Ev::Accept(i)]);
        let mut d: Vec<Ev> = (0..c.chunks(i as u32).len()).map(|_| Ev::Deliver(i)).collect();
        if eof[i] {
            d.push(Ev::Eof(i));
        }
        if !d.is_empty() {
            out.push(d);
        }
    }
    out
}

fn check(scn: &Scenario, rep: &mut Report) {
    let world = scn.world();
    let res = run_world_caught(world.clone());
    rep.eval(scn.hash());
    let out = match res {
        Err(p) => {
            world_failure(rep, "C08", &p, format!("{}", scn.describe()), scn.to_json("c08"));
            return;
        }
        Ok(o) => o,
    };
    rep.add("handle_invocations", out.log.len() as u64);
    rep.add("server_polls", out.total_polls as u64);
    if scn.coop > 0 {
        rep.count("cases_under_a_cooperative_budget");
    }
    if scn.wake {
        rep.count("wake_driven_cases");
        rep.add("wake_driven_waker_firings", out.wakes);
    }
    rep.add("in_handle_arrivals", out.applied.iter().filter(|a| a.2).count() as u64);
    rep.add("clients_with_stray_terminators", scn.conns.iter().filter(|c| !c.stray.is_empty()).count() as u64);
    rep.add("calls_whose_reply_cannot_be_encoded", scn.conns.iter().flat_map(|c| c.calls.iter()).filter(|c| c.kind == Kind::Poison).count() as u64);
    rep.add("oneway_calls", scn.conns.iter().flat_map(|c| c.calls.iter()).filter(|c| c.oneway).count() as u64);
    let mut stats = std::collections::BTreeMap::new();
    let mut vs = check_reference("C08", scn, &out, &mut stats);
    vs.extend(reply_latency("C08", scn, &out, &mut stats));
    for (k, n) in stats {
        rep.add(&k, n);
    }
    for (sig, detail) in vs {
        rep.violation(&sig, format!("{detail}; scenario: {}", scn.describe()), scn.to_json("c08"));
    }
}

pub fn run(cfg: &Cfg) -> Report {
    let mut rep = Report::new("C08", "c08");
    if let Some(r) = &cfg.replay {
        let scn = Scenario::from_json(r);
        check(&scn, &mut rep);
        let out = run_world_caught(scn.world());
        rep.notes.push(format!("{out:?}"));
        return rep;
    }
    let miri = cfg.layer == "miri";
    let mut rng = cfg.rng(81);
    let mut orders = std::collections::HashSet::new();

    // (1) exhaustive event orders for small configurations
    let n_small = if miri { cfg.n(2, 8) } else { cfg.n(400, 6000) };
    for k in 0..n_small {
        let nconn = if miri { rng.range(1, 2) } else { rng.range(1, 3) };
        let mut scn = Scenario::default();
        for i in 0..nconn {
            let mut c = gen_conn(&mut rng, i, 3, true);
            if c.cuts.len() > 1 {
                c.cuts.truncate(1);
            }
            c.write_pending_polls = 0;
            scn.conns.push(c);
        }
        let eof: Vec<bool> = (0..nconn).map(|i| scn.conns[i].stray.is_empty() && rng.chance(1, 3)).collect();
        scn.wake = k % 2 == 1;
        let ch = chains(&scn, &eof);
        let total = count_interleavings(&ch.iter().map(|c| c.len()).collect::<Vec<_>>());
        let cap = if miri { 6 } else { 2000 };
        if total <= cap {
            interleavings(&ch, &mut |order| {
                scn.steps = order.iter().map(|e| Step { ev: e.clone(), mode: Mode::Quiesce }).collect();
                orders.insert(vnet::fnv(format!("{:?}", scn.steps).as_bytes()));
                check(&scn, &mut rep);
                true
            });
            rep.count("configs_explored_exhaustively");
        } else {
            for _ in 0..cap.min(200) {
                let order = random_interleaving(&ch, &mut rng);
                scn.steps = order.into_iter().map(|e| Step { ev: e, mode: Mode::Quiesce }).collect();
                orders.insert(vnet::fnv(format!("{:?}", scn.steps).as_bytes()));
                check(&scn, &mut rep);
            }
            rep.count("configs_sampled");
        }
        if k % 40 == 0 {
            rep.sample(4, || json!({"kind": "exhaustive-small", "scenario": scn.describe()}));
        }
    }

    // (2) seeded random: up to 4 connections x 5 calls, arbitrary cuts, batched and in-handle arrivals
    let n_rand = if miri { cfg.n(2, 8) } else { cfg.n(400_000, 12_000_000) };
    for k in 0..n_rand {
        let nconn = rng.range(1, 4);
        let mut scn = Scenario::default();
        for i in 0..nconn {
            scn.conns.push(gen_conn(&mut rng, i, 5, miri));
        }
        let eof: Vec<bool> = (0..nconn).map(|i| scn.conns[i].stray.is_empty() && rng.chance(1, 3)).collect();
        let ch = chains(&scn, &eof);
        let order = random_interleaving(&ch, &mut rng);
        scn.wake = rng.chance(1, 3);
        // every fifth scenario under a cooperative budget: after a few transport operations per poll every transport
        // answers `Pending` until the server task has yielded (what tokio's sockets do after 128 operations)
        if rng.chance(1, 5) {
            scn.coop = rng.range(1, 9) as u32;
        }
        // every sixth scenario: the service suspends inside handle() (an arrival or a stream item may become ready meanwhile)
        if rng.chance(1, 6) {
            scn.handle_yields = rng.range(1, 2) as u8;
        }
        let style = rng.below(3);
        scn.steps = order
            .into_iter()
            .map(|e| Step {
                ev: e,
                mode: match style {
                    0 => Mode::Quiesce,
                    _ => match rng.below(4) {
                        0 => Mode::Batch,
                        1 => Mode::InHandle,
                        _ => Mode::Quiesce,
                    },
                },
            })
            .collect();
        orders.insert(vnet::fnv(format!("{:?}", scn.steps).as_bytes()));
        check(&scn, &mut rep);
        if k % 5000 == 1 {
            rep.sample(8, || json!({"kind": "random", "scenario": scn.describe()}));
        }
    }
    rep.add("distinct_event_orders", orders.len() as u64);
    rep
}

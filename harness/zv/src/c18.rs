//! C18 — round-robin service: a flooding client cannot starve the others.
//!
//! The history is recorded at the boundary: the test service logs every `handle()` with a logical
//! tick; the schedule events (deliveries, accepts, closures, stream transitions) carry the tick
//! at which they were applied — at a quiescent point or from inside a `handle()` call, i.e. while
//! the server is busy.

use crate::cfg::Cfg;
use crate::srv::*;
use serde_json::json;
use std::collections::BTreeMap;
use vnet::{Report, Rng};

pub struct Built {
    pub scn: Scenario,
    pub chains: Vec<Vec<Ev>>,
}

pub fn build(rng: &mut Rng, nconn: usize, transitions: bool) -> Built {
    build_with(rng, nconn, transitions, false, false)
}

/// Like `build_with`, but the single calls of the clients that do not flood are big (16 .. 100 KB: the server
/// needs dozens to hundreds of reads to take one in), while the flooders' calls stay tiny.
pub fn build_big_victims(rng: &mut Rng, nconn: usize) -> Built {
    let mut b = build_with(rng, nconn, false, false, false);
    let nflood = b.scn.conns.iter().filter(|c| c.calls.len() >= 4).count().max(1);
    for (i, c) in b.scn.conns.iter_mut().enumerate() {
        if i >= nflood || c.calls.len() < 4 {
            for k in c.calls.iter_mut() {
                if k.kind == Kind::Echo {
                    k.payload = "v".repeat(*rng.pick(&[16_000usize, 17_000, 33_000, 40_000, 70_000, 100_000]) + rng.below(300));
                }
            }
            // whole frames per delivery, as before
            c.cuts = frame_cuts(&c.stream(i as u32));
        }
    }
    b
}

/// `oneway_flood`: the flooders' calls are all oneway; `monitor`: one extra connection subscribes to a
/// stream that produces an item from inside (almost) every `handle()` call and never ends, like a
/// client watching every state change.
pub fn build_with(rng: &mut Rng, nconn: usize, transitions: bool, oneway_flood: bool, monitor: bool) -> Built {
    let mut scn = Scenario::default();
    let mut chains = Vec::new();
    let nflood = rng.range(1, (nconn - 1).max(1));
    for i in 0..nconn {
        let client = i as u32;
        let flooder = i < nflood;
        let ncalls = if flooder { rng.range(4, 10) } else { rng.range(1, 3) };
        let mut sub_at = None;
        let calls: Vec<CallSpec> = (0..ncalls)
            .map(|j| {
                let mut kind = if rng.chance(1, 6) { Kind::Fail } else { Kind::Echo };
                if transitions && sub_at.is_none() && rng.chance(1, 8) {
                    kind = Kind::Sub;
                    sub_at = Some(j);
                }
                CallSpec { kind, seq: 1 + j as u32, oneway: kind != Kind::Sub && ((flooder && oneway_flood) || rng.chance(1, 8)), more: kind == Kind::Sub, payload: "p".repeat(rng.below(6)) }
            })
            .collect();
        let mut c = ConnScn { calls, ..Default::default() };
        let stream = c.stream(client);
        let fc = frame_cuts(&stream);
        c.cuts = if flooder {
            // a few big bursts
            fc.into_iter().filter(|_| rng.chance(1, 4)).collect()
        } else {
            fc
        };
        chains.push(vec![Ev::Accept(i)]);
        let mut d: Vec<Ev> = (0..c.chunks(client).len()).map(|_| Ev::Deliver(i)).collect();
        if transitions && rng.chance(1, 4) {
            d.push(Ev::Eof(i));
        }
        chains.push(d);
        for k in c.calls.iter().filter(|k| k.kind == Kind::Sub) {
            let mut s: Vec<Ev> = (0..rng.below(3)).map(|n| Ev::Item { client, seq: k.seq, n: n as u32, continues: Some(true) }).collect();
            s.push(Ev::Close { client, seq: k.seq });
            chains.push(s);
        }
        scn.conns.push(c);
    }
    if monitor {
        // the monitor connection: position in the accept order is random (its chain is interleaved like any other)
        let i = scn.conns.len();
        let client = i as u32;
        let c = ConnScn { calls: vec![CallSpec { kind: Kind::Sub, seq: 1, oneway: false, more: true, payload: String::new() }], ..Default::default() };
        chains.push(vec![Ev::Accept(i), Ev::Deliver(i)]);
        let total_calls: usize = scn.conns.iter().map(|c| c.calls.len()).sum();
        chains.push((0..total_calls + 2).map(|n| Ev::Item { client, seq: 1, n: n as u32, continues: Some(true) }).collect());
        scn.conns.push(c);
    }
    // padding events that only let time pass inside handle()
    chains.push((0..rng.below(4)).map(|_| Ev::Nop).collect());
    Built { scn, chains }
}

/// Open reply streams next to a client that keeps the server busy: one connection pipelines a burst of
/// 150..400 small calls; two or three others have subscribed before (with a call pipelined behind the
/// subscription); while the burst is being worked off (from inside successive `handle()` calls) some of the
/// streams produce items or end, others stay quiet, and now and then another client's call arrives.
pub fn build_flood(rng: &mut Rng) -> Scenario {
    let mut scn = Scenario::default();
    let nsub = rng.range(2, 3);
    let victim = rng.chance(1, 2);
    let flood_len = rng.range(150, 400);
    // conn 0: the flooder
    let calls: Vec<CallSpec> = (0..flood_len)
        .map(|j| CallSpec { kind: if rng.chance(1, 12) { Kind::Fail } else { Kind::Echo }, seq: 1 + j as u32, oneway: rng.chance(1, 10), more: false, payload: "p".repeat(rng.below(4)) })
        .collect();
    let mut c = ConnScn { calls, ..Default::default() };
    let fc = frame_cuts(&c.stream(0));
    c.cuts = fc.into_iter().filter(|_| rng.chance(1, 120)).collect();
    let flood_chunks = c.chunks(0).len();
    scn.conns.push(c);
    // subscribers
    for s in 0..nsub {
        let mut calls = Vec::new();
        if rng.chance(1, 3) {
            calls.push(CallSpec { kind: Kind::Echo, seq: 1, oneway: false, more: false, payload: "a".into() });
        }
        let seq = calls.len() as u32 + 1;
        calls.push(CallSpec { kind: Kind::Sub, seq, oneway: false, more: true, payload: String::new() });
        calls.push(CallSpec { kind: Kind::Echo, seq: seq + 1, oneway: false, more: false, payload: format!("behind{s}") });
        scn.conns.push(ConnScn { calls, ..Default::default() });
    }
    if victim {
        scn.conns.push(ConnScn { calls: vec![CallSpec { kind: Kind::Echo, seq: 1, oneway: false, more: false, payload: "v".into() }], ..Default::default() });
    }
    // every third case: one more subscriber whose stream has an item ready after (almost) every call that is
    // served, for as long as the flood lasts (a client that watches every state change)
    let watcher = if rng.chance(1, 3) {
        scn.conns.push(ConnScn { calls: vec![CallSpec { kind: Kind::Sub, seq: 1, oneway: false, more: true, payload: String::new() }], ..Default::default() });
        Some(scn.conns.len() - 1)
    } else {
        None
    };
    let n = scn.conns.len();
    let mut order: Vec<usize> = (0..n).collect();
    rng.shuffle(&mut order);
    let mut steps: Vec<Step> = order.iter().map(|i| Step { ev: Ev::Accept(*i), mode: *rng.pick(&[Mode::Quiesce, Mode::Batch]) }).collect();
    let mut subs: Vec<usize> = (1..=nsub).collect();
    rng.shuffle(&mut subs);
    let mut sub_order: Vec<usize> = subs.clone();
    if let Some(w) = watcher {
        sub_order.insert(rng.below(sub_order.len() + 1), w);
    }
    for i in &sub_order {
        steps.push(Step { ev: Ev::Deliver(*i), mode: Mode::Quiesce });
    }
    // the flood starts; everything below happens while the server is busy with it
    steps.push(Step { ev: Ev::Deliver(0), mode: Mode::Quiesce });
    // which streams are busy (the others stay quiet and open)
    let nbusy = rng.range(1, nsub - 1);
    let busy: Vec<usize> = subs.iter().copied().take(nbusy).collect();
    let mut next_item = vec![0u32; n];
    let mut closed = vec![false; n];
    let mut chunks_left = flood_chunks - 1;
    let mut victim_sent = !victim;
    let mut watcher_n = 0u32;
    let busy_steps = if watcher.is_some() { flood_len.saturating_sub(rng.below(20)) } else { rng.range(10, 60) };
    for _ in 0..busy_steps {
        let ev = match rng.below(8) {
            0 | 1 | 2 => {
                let b = *rng.pick(&busy);
                if closed[b] {
                    Ev::Nop
                } else {
                    let seq = scn.conns[b].calls.iter().find(|k| k.kind == Kind::Sub).unwrap().seq;
                    next_item[b] += 1;
                    Ev::Item { client: b as u32, seq, n: next_item[b] - 1, continues: Some(true) }
                }
            }
            3 => {
                let b = *rng.pick(&busy);
                if closed[b] || rng.chance(1, 2) {
                    Ev::Nop
                } else {
                    closed[b] = true;
                    let seq = scn.conns[b].calls.iter().find(|k| k.kind == Kind::Sub).unwrap().seq;
                    Ev::Close { client: b as u32, seq }
                }
            }
            4 if !victim_sent => {
                victim_sent = true;
                Ev::Deliver(nsub + 1)
            }
            5 if chunks_left > 0 => {
                chunks_left -= 1;
                Ev::Deliver(0)
            }
            _ => Ev::Nop,
        };
        let ev = match watcher {
            Some(w) if !rng.chance(1, 12) => {
                watcher_n += 1;
                Ev::Multi(vec![Ev::Item { client: w as u32, seq: 1, n: watcher_n - 1, continues: Some(true) }, ev])
            }
            _ => ev,
        };
        steps.push(Step { ev, mode: Mode::InHandle });
    }
    // the rest of the flood, then whatever is left
    for _ in 0..chunks_left {
        steps.push(Step { ev: Ev::Deliver(0), mode: Mode::InHandle });
    }
    if !victim_sent {
        steps.push(Step { ev: Ev::Deliver(nsub + 1), mode: Mode::InHandle });
    }
    steps.push(Step { ev: Ev::Nop, mode: Mode::Quiesce });
    scn.steps = steps;
    scn.wake = rng.chance(1, 3);
    scn
}

fn walk<'a>(e: &'a Ev, f: &mut dyn FnMut(&'a Ev)) {
    match e {
        Ev::Multi(v) => v.iter().for_each(|e| walk(e, f)),
        _ => f(e),
    }
}

/// Fairness oracle over the recorded history. Returns violations.
pub fn fairness(scn: &Scenario, out: &WorldOut, stats: &mut BTreeMap<String, u64>) -> Vec<(String, String)> {
    let mut v = Vec::new();
    let n = scn.conns.len();
    // ticks of deliveries per connection (k-th Deliver), accepts, transitions
    let mut deliver_ticks: Vec<Vec<u64>> = vec![Vec::new(); n];
    let mut accept_tick: Vec<Option<u64>> = vec![None; n];
    let mut close_tick: BTreeMap<(u32, u32), u64> = BTreeMap::new();
    let mut transitions: Vec<u64> = Vec::new(); // event ticks
    for (tick, ev, _) in &out.applied {
        walk(ev, &mut |e| match e {
            Ev::Deliver(c) => deliver_ticks[*c].push(*tick),
            Ev::Accept(c) => {
                accept_tick[*c].get_or_insert(*tick);
                transitions.push(*tick);
            }
            Ev::Eof(_) | Ev::RdErr(_) => transitions.push(*tick),
            Ev::Close { client, seq } => {
                close_tick.entry((*client, *seq)).or_insert(*tick);
                transitions.push(*tick);
            }
            _ => {}
        });
    }
    for l in &out.log {
        if l.kind == Kind::Sub && !l.oneway {
            transitions.push(l.tick);
        }
    }
    // first quiescent checkpoint at or after a tick
    let settle = |t: u64| out.checkpoints.iter().map(|c| c.tick).find(|ct| *ct >= t).unwrap_or(u64::MAX);
    let serve_tick = |client: u32, seq: u32| out.log.iter().find(|l| l.client == client && l.seq == seq).map(|l| l.tick);
    for (i, c) in scn.conns.iter().enumerate() {
        let client = i as u32;
        let chunks = c.chunks(client);
        // which delivery carries which call
        let mut call_chunk = Vec::new();
        for (k, ch) in chunks.iter().enumerate() {
            for _ in 0..ch.iter().filter(|b| **b == 0).count() {
                call_chunk.push(k);
            }
        }
        let mut prev_ready_base: u64 = match accept_tick[i] {
            Some(t) => t,
            None => continue,
        };
        for (j, call) in c.calls.iter().enumerate() {
            let Some(&k) = call_chunk.get(j) else { break };
            let Some(&dt) = deliver_ticks[i].get(k) else { break };
            let Some(st) = serve_tick(client, call.seq) else { break };
            let ready = dt.max(prev_ready_base);
            let behind_ended_stream = j > 0 && c.calls[j - 1].kind == Kind::Sub && !c.calls[j - 1].oneway;
            // the window (ready, st)
            let others: Vec<&LogEntry> = out.log.iter().filter(|l| l.tick > ready && l.tick < st && l.client != client).collect();
            let t_in: usize = transitions.iter().filter(|t| **t < st && settle(**t) > ready).count();
            *stats.entry("windows_checked".into()).or_insert(0) += 1;
            if !others.is_empty() {
                *stats.entry("windows_with_contention".into()).or_insert(0) += 1;
            }
            let mx = stats.entry("max_other_calls_in_a_window".into()).or_insert(0);
            *mx = (*mx).max(others.len() as u64);
            if t_in == 0 {
                *stats.entry("windows_without_transition".into()).or_insert(0) += 1;
                let mut per: BTreeMap<u32, usize> = BTreeMap::new();
                for l in &others {
                    *per.entry(l.client).or_insert(0) += 1;
                }
                if let Some((y, cnt)) = per.iter().find(|(_, c)| **c >= 2) {
                    v.push((
                        "C18/one-connection-served-twice-while-another-had-a-call-waiting".to_string(),
                        format!("call #{} of conn{i} was ready at tick {ready} and served at tick {st}; meanwhile conn{y} was served {cnt} times (no accept/closure/stream transition in between); service order: {:?}", call.seq, out.log.iter().map(|l| (l.tick, l.client, l.seq)).collect::<Vec<_>>()),
                    ));
                    return v;
                }
            } else {
                *stats.entry("windows_with_transitions".into()).or_insert(0) += 1;
            }
            if others.len() > n * (t_in + 1) {
                v.push((
                    if behind_ended_stream {
                        "C18/call-behind-an-ended-stream-waits-until-the-flood-of-other-calls-drains".to_string()
                    } else {
                        "C18/waiting-call-overtaken-by-more-calls-than-the-bound".to_string()
                    },
                    format!("call #{} of conn{i} ready at {ready}, served at {st}: {} other calls served in between, bound {}*({}+1); service order: {:?}", call.seq, others.len(), n, t_in, out.log.iter().map(|l| (l.tick, l.client, l.seq)).collect::<Vec<_>>()),
                ));
                return v;
            }
            // next call of this connection is ready once this one was served (and, behind a stream, once it closed)
            prev_ready_base = st;
            if call.kind == Kind::Sub && !call.oneway {
                // (... and once the items it had produced by then were out: a stream ends behind its last item, and
                // how long an item may take under load is the business of `stream_latency`)
                match close_tick.get(&(client, call.seq)) {
                    Some(ct) => prev_ready_base = prev_ready_base.max(*ct).max(out.last_taken.get(&(client, call.seq)).copied().unwrap_or(0)),
                    None => break,
                }
            }
        }
    }
    v
}

fn check(scn: &Scenario, rep: &mut Report, orders: &mut std::collections::HashSet<u64>) {
    let res = run_world_caught(scn.world());
    rep.eval(scn.hash());
    let out = match res {
        Err(p) => {
            world_failure(rep, "C18", &p, format!("{}", scn.describe()), scn.to_json("c18"));
            return;
        }
        Ok(o) => o,
    };
    orders.insert(vnet::fnv(format!("{:?}", out.log.iter().map(|l| (l.client, l.seq)).collect::<Vec<_>>()).as_bytes()));
    rep.add("handle_invocations", out.log.len() as u64);
    rep.add("in_handle_arrivals", out.applied.iter().filter(|a| a.2).count() as u64);
    if scn.coop > 0 {
        rep.count("cases_under_a_cooperative_budget");
    }
    if scn.wake {
        rep.count("wake_driven_cases");
        rep.add("wake_driven_waker_firings", out.wakes);
    }
    let mut stats = BTreeMap::new();
    let mut vs = fairness(scn, &out, &mut stats);
    vs.extend(stream_latency("C18", scn, &out, &mut stats));
    vs.extend(reply_latency("C18", scn, &out, &mut stats));
    // (c) nothing ready is left unserved at a quiescent point: the reference model's progress check
    let mut st2 = BTreeMap::new();
    for (sig, d) in check_reference("C18", scn, &out, &mut st2) {
        if sig.ends_with("complete-call-left-unanswered-at-quiescent-point") || sig.ends_with("server-future-completed") || sig.ends_with("server-never-quiescent") {
            vs.push((sig, d));
        }
    }
    for (k, n) in stats {
        if k.starts_with("max_") {
            rep.max(&k, n);
        } else {
            rep.add(&k, n);
        }
    }
    if vs.is_empty() {
        rep.count("cases_ok");
    }
    for (sig, detail) in vs {
        rep.violation(&sig, format!("{detail}; scenario: {}", scn.describe()), scn.to_json("c18"));
    }
}

pub fn run(cfg: &Cfg) -> Report {
    let mut rep = Report::new("C18", "c18");
    let mut orders = std::collections::HashSet::new();
    if let Some(r) = &cfg.replay {
        let scn = Scenario::from_json(r);
        check(&scn, &mut rep, &mut orders);
        rep.notes.push(format!("{:?}", run_world_caught(scn.world())));
        return rep;
    }
    let mut rng = cfg.rng(181);
    // (1) all event orders for small configurations, two arrival patterns
    let n_small = cfg.n(200, 3000);
    for k in 0..n_small {
        let nconn = rng.range(2, 3);
        let mut b = build(&mut rng, nconn, k % 2 == 1);
        b.scn.wake = k % 4 >= 2;
        // keep it small: at most 8 events
        let total_events: usize = b.chains.iter().map(|c| c.len()).sum();
        let total = count_interleavings(&b.chains.iter().map(|c| c.len()).collect::<Vec<_>>());
        if total_events <= 9 && total <= 4000 {
            let chains = b.chains.clone();
            for pattern in 0..2 {
                interleavings(&chains, &mut |order| {
                    let n = order.len();
                    b.scn.steps = order
                        .iter()
                        .enumerate()
                        .map(|(x, e)| Step {
                            ev: e.clone(),
                            mode: if pattern == 0 {
                                Mode::Batch
                            } else if x == 0 || x + 1 == n {
                                Mode::Quiesce
                            } else {
                                Mode::InHandle
                            },
                        })
                        .collect();
                    check(&b.scn, &mut rep, &mut orders);
                    true
                });
            }
            rep.count("configs_all_orders");
        } else {
            for _ in 0..200 {
                let order = random_interleaving(&b.chains, &mut rng);
                b.scn.steps = order.into_iter().map(|e| Step { ev: e, mode: *rng.pick(&[Mode::Batch, Mode::InHandle, Mode::InHandle, Mode::Quiesce]) }).collect();
                check(&b.scn, &mut rep, &mut orders);
            }
            rep.count("configs_sampled_orders");
        }
        if k % 20 == 0 {
            rep.sample(3, || json!({"kind": "small", "scenario": b.scn.describe()}));
        }
    }
    // (2) random: 2..5 connections
    let n_rand = cfg.n(300_000, 10_000_000);
    for k in 0..n_rand {
        let nconn = rng.range(2, 5);
        let mut b = build_with(&mut rng, nconn, k % 3 == 0, k % 5 == 1, k % 7 == 2);
        b.scn.wake = rng.chance(1, 3);
        let order = random_interleaving(&b.chains, &mut rng);
        b.scn.steps = order.into_iter().map(|e| Step { ev: e, mode: *rng.pick(&[Mode::Batch, Mode::InHandle, Mode::InHandle, Mode::Quiesce]) }).collect();
        check(&b.scn, &mut rep, &mut orders);
        if k % 5000 == 1 {
            rep.sample(8, || json!({"kind": "random", "scenario": b.scn.describe()}));
        }
    }
    // (2a) floods through the transport under a cooperative budget: every call is a chunk of its own (one call per
    // read, nothing is ever waiting inside zlink's buffer), all of them queued in the transports before the server
    // runs; after a few transport operations per poll every transport answers `Pending` until the server task has
    // yielded (what tokio's sockets do after 128 operations). A server that loses its place in the round when a
    // poll ends that way passes over the connection whose turn it was.
    let n_coop = cfg.n(40_000, 1_500_000);
    for k in 0..n_coop {
        let nconn = rng.range(2, 4);
        let mut scn = Scenario::default();
        for i in 0..nconn {
            let ncalls = rng.range(2, 12);
            let calls: Vec<CallSpec> = (0..ncalls).map(|j| CallSpec { kind: if rng.chance(1, 6) { Kind::Fail } else { Kind::Echo }, seq: 1 + j as u32, oneway: rng.chance(1, 5), more: false, payload: payload(&mut rng).chars().take(30).collect() }).collect();
            let mut c = ConnScn { calls, ..Default::default() };
            c.cuts = frame_cuts(&c.stream(i as u32));
            scn.conns.push(c);
        }
        let mut steps: Vec<Step> = (0..nconn).map(|i| Step { ev: Ev::Accept(i), mode: Mode::Quiesce }).collect();
        let chains: Vec<Vec<Ev>> = (0..nconn).map(|i| (0..scn.conns[i].chunks(i as u32).len()).map(|_| Ev::Deliver(i)).collect()).collect();
        let order = random_interleaving(&chains, &mut rng);
        steps.extend(order.into_iter().map(|e| Step { ev: e, mode: Mode::Batch }));
        steps.push(Step { ev: Ev::Nop, mode: Mode::Quiesce });
        scn.steps = steps;
        scn.wake = rng.chance(1, 2);
        scn.coop = rng.range(1, 9) as u32;
        rep.count("floods_through_the_transport_under_a_cooperative_budget");
        check(&scn, &mut rep, &mut orders);
        if k == 1 {
            rep.sample(9, || json!({"kind": "transport-flood-coop", "scenario": scn.describe().chars().take(600).collect::<String>()}));
        }
    }
    // (2b) big calls of the clients that do not flood
    let n_big = cfg.n(3000, 200_000);
    for k in 0..n_big {
        let nconn = rng.range(2, 4);
        let mut b = build_big_victims(&mut rng, nconn);
        b.scn.wake = rng.chance(1, 3);
        let order = random_interleaving(&b.chains, &mut rng);
        b.scn.steps = order.into_iter().map(|e| Step { ev: e, mode: *rng.pick(&[Mode::Batch, Mode::InHandle, Mode::InHandle, Mode::Quiesce]) }).collect();
        rep.count("cases_with_big_calls_of_the_non_flooders");
        check(&b.scn, &mut rep, &mut orders);
        if k == 0 {
            rep.sample(9, || json!({"kind": "big-victims", "scenario": b.scn.describe().chars().take(600).collect::<String>()}));
        }
    }
    // (3) open streams next to a client that keeps the server busy
    let n_flood = cfg.n(1600, 60_000);
    for k in 0..n_flood {
        let scn = build_flood(&mut rng);
        rep.count("streams_under_flood_cases");
        check(&scn, &mut rep, &mut orders);
        if k < 2 {
            rep.sample(10, || json!({"kind": "streams-under-flood", "scenario": scn.describe().chars().take(900).collect::<String>()}));
        }
    }
    rep.add("distinct_service_orders", orders.len() as u64);
    rep
}

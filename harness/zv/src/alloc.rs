//! Counting global allocator: current and peak heap bytes (for C17's "memory stays bounded").

use std::alloc::{GlobalAlloc, Layout, System};
use std::sync::atomic::{AtomicBool, AtomicUsize, Ordering::Relaxed};

/// "Hostile allocator" mode (C11): every realloc moves the block and every freed block is overwritten
/// with 0xDD first, so that a dangling borrow reads garbage natively, whatever the system allocator does.
pub static HOSTILE: AtomicBool = AtomicBool::new(false);

pub struct Counting;

static CUR: AtomicUsize = AtomicUsize::new(0);
static PEAK: AtomicUsize = AtomicUsize::new(0);

unsafe impl GlobalAlloc for Counting {
    unsafe fn alloc(&self, l: Layout) -> *mut u8 {
        let p = System.alloc(l);
        if !p.is_null() {
            let c = CUR.fetch_add(l.size(), Relaxed) + l.size();
            PEAK.fetch_max(c, Relaxed);
        }
        p
    }
    unsafe fn dealloc(&self, p: *mut u8, l: Layout) {
        CUR.fetch_sub(l.size(), Relaxed);
        if HOSTILE.load(Relaxed) {
            std::ptr::write_bytes(p, 0xDD, l.size());
        }
        System.dealloc(p, l)
    }
    unsafe fn realloc(&self, p: *mut u8, l: Layout, new: usize) -> *mut u8 {
        if HOSTILE.load(Relaxed) {
            let q = self.alloc(Layout::from_size_align_unchecked(new, l.align()));
            if !q.is_null() {
                std::ptr::copy_nonoverlapping(p, q, l.size().min(new));
                self.dealloc(p, l);
            }
            return q;
        }
        // Account for old + new being live at once (worst case of a moving realloc).
        let c = CUR.fetch_add(new, Relaxed) + new;
        PEAK.fetch_max(c, Relaxed);
        let q = System.realloc(p, l, new);
        if q.is_null() {
            CUR.fetch_sub(new, Relaxed);
        } else {
            CUR.fetch_sub(l.size(), Relaxed);
        }
        q
    }
}

pub fn current() -> usize {
    CUR.load(Relaxed)
}
/// Reset the peak to the current level and return the previous peak.
pub fn reset_peak() -> usize {
    PEAK.swap(CUR.load(Relaxed), Relaxed)
}
pub fn peak() -> usize {
    PEAK.load(Relaxed)
}

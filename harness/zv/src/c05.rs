//! C05 (parts a, b, d and the Reply envelope) — call, reply and error envelopes follow the Varlink
//! schema and round-trip. Part c (derived error enums over a generated corpus) lives in the
//! `corpus` crate.

use crate::cfg::Cfg;
use serde::{Deserialize, Serialize};
use serde_json::{json, Map, Value};
use vnet::{new_wire, Report, Rng, Rx, VSocket};
use zlink_core::{varlink_service, Call, Connection, Reply, ReplyError};

#[derive(Debug, Serialize, Deserialize, PartialEq, Clone)]
#[serde(tag = "method", content = "parameters")]
pub enum MA {
    #[serde(rename = "a.Unit")]
    Unit,
    #[serde(rename = "a.St")]
    St { x: i64, s: String },
    #[serde(rename = "a.Opt")]
    Opt { o: Option<i64> },
    /// the widest integers (what a decoder that buffers the members in a generic tree tends to lose)
    #[serde(rename = "a.Wide")]
    Wide { u: u128, i: i128, f: f64 },
}

#[derive(Debug, Serialize, Deserialize, PartialEq)]
#[serde(tag = "method", content = "parameters")]
pub enum MB<'a> {
    #[serde(rename = "b.Bor")]
    Bor { s: &'a str, n: u32 },
}

#[derive(Debug, Serialize, Deserialize, PartialEq, Clone)]
#[serde(deny_unknown_fields)]
pub struct MStrict {
    pub method: String,
    pub parameters: PStrict,
}
#[derive(Debug, Serialize, Deserialize, PartialEq, Clone)]
#[serde(deny_unknown_fields)]
pub struct PStrict {
    pub a: u8,
}

#[derive(Debug, Serialize)]
pub struct MFlat {
    pub method: &'static str,
    #[serde(flatten)]
    pub rest: std::collections::BTreeMap<String, Value>,
}

#[derive(Debug, ReplyError, PartialEq, Clone)]
#[zlink(interface = "d", crate = "zlink_core")]
pub enum ED {
    Plain,
    WithFields { a: i64 },
}

#[zlink_core::proxy(interface = "d", crate = "zlink_core")]
pub trait DProxy {
    async fn nothing(&mut self) -> zlink_core::Result<Result<(), ED>>;
    async fn nothing_with_arg(&mut self, a: i64) -> zlink_core::Result<Result<(), ED>>;
}

fn flags_of(set: usize) -> (bool, bool, bool) {
    (set & 1 != 0, set & 2 != 0, set & 4 != 0)
}

/// (a) encode: the call object == the method's own members + the set flags; no duplicates; both
/// through serde_json and through zlink's own serializer on the wire.
fn encode_case<M: Serialize + std::fmt::Debug>(rep: &mut Report, name: &str, m: M, set: usize) {
    let (oneway, more, upgrade) = flags_of(set);
    rep.eval(vnet::fnv(format!("enc{name}{set}").as_bytes()));
    let replay = json!({"monitor": "c05", "part": "call-encode", "method": name, "flags": set});
    let mut want = match serde_json::to_value(&m) {
        Ok(Value::Object(o)) => o,
        other => {
            rep.inconclusive.push(format!("method type {name} does not serialize to an object: {other:?}"));
            return;
        }
    };
    for (k, v) in [("oneway", oneway), ("more", more), ("upgrade", upgrade)] {
        if v {
            want.insert(k.into(), json!(true));
        }
    }
    let want = Value::Object(want);
    let call = Call::new(m).set_oneway(oneway).set_more(more).set_upgrade(upgrade);
    match serde_json::to_vec(&call) {
        Err(e) => rep.violation("C05/call-does-not-serialize", format!("{name} flags {set}: {e}"), replay.clone()),
        Ok(b) => {
            if vnet::json::has_duplicate_keys(&b) != Ok(false) {
                rep.violation("C05/call-encoding-has-duplicate-or-invalid-members", format!("{name} flags {set}: {}", vnet::json::show(&b)), replay.clone());
            } else if serde_json::from_slice::<Value>(&b).unwrap() != want {
                rep.violation("C05/call-encoding-differs-from-method-members-plus-set-flags", format!("{name} flags {set}: {} expected {want}", vnet::json::show(&b)), replay.clone());
            } else {
                rep.count("call_encodings_ok");
                if set == 5 {
                    rep.sample(3, || json!({"call_encode": name, "flags": "oneway+upgrade", "encoded": vnet::json::show(&b)}));
                }
            }
        }
    }
    let wire = new_wire(0);
    let mut conn = Connection::new(VSocket(wire.clone()));
    let r = vnet::block_on(conn.send_call(&call), 8);
    let b = wire.borrow().written();
    let ok = matches!(r, Some(Ok(()))) && b.last() == Some(&0) && vnet::json::has_duplicate_keys(&b[..b.len() - 1]) == Ok(false) && serde_json::from_slice::<Value>(&b[..b.len() - 1]).ok().as_ref() == Some(&want);
    if !ok {
        rep.violation("C05/call-on-the-wire-differs-from-method-members-plus-set-flags", format!("{name} flags {set}: {r:?} wrote {} expected {want}", vnet::json::show(&b)), replay);
    } else {
        rep.count("call_wire_encodings_ok");
    }
}

fn permutations<T: Clone>(items: &[T], f: &mut dyn FnMut(&[T])) {
    fn rec<T: Clone>(rest: &mut Vec<T>, cur: &mut Vec<T>, f: &mut dyn FnMut(&[T])) {
        if rest.is_empty() {
            f(cur);
            return;
        }
        for i in 0..rest.len() {
            let x = rest.remove(i);
            cur.push(x.clone());
            rec(rest, cur, f);
            cur.pop();
            rest.insert(i, x);
        }
    }
    rec(&mut items.to_vec(), &mut Vec::new(), f);
}

fn doc(members: &[(String, String)]) -> String {
    format!("{{{}}}", members.iter().map(|(k, v)| format!("{}:{v}", serde_json::to_string(k).unwrap())).collect::<Vec<_>>().join(","))
}

/// The same document with the envelope's member names spelled with JSON escapes (`"\u006dethod"` is the
/// member `method`; encoders that escape everything outside ASCII spell `extraMembér` as `extraMemb\u00e9r`).
/// style 1: the first character of every name, 2: every character, 3: only characters outside ASCII.
fn doc_spelled(members: &[(String, String)], style: usize) -> String {
    let name = |k: &str| -> String {
        let mut out = String::from("\"");
        for (i, c) in k.chars().enumerate() {
            let esc = match style {
                1 => i == 0,
                2 => true,
                _ => !c.is_ascii(),
            };
            if esc {
                let mut b = [0u16; 2];
                for u in c.encode_utf16(&mut b) {
                    out.push_str(&format!("\\u{:04x}", u));
                }
            } else {
                out.push(c);
            }
        }
        out.push('"');
        out
    };
    format!("{{{}}}", members.iter().map(|(k, v)| format!("{}:{v}", name(k))).collect::<Vec<_>>().join(","))
}

/// (b) decode: every permutation of the envelope members x flag states; flags read back exactly,
/// method equal to decoding the same object without the flags.
fn decode_matrix<'a, M>(rep: &mut Report, name: &str, base: &[(&str, &str)], extra: bool, decode_call: &dyn Fn(&[u8]) -> Result<(String, bool, bool, bool), String>, decode_plain: &dyn Fn(&[u8]) -> Result<String, String>, cfg: &Cfg, rng: &mut Rng)
where
    M: std::fmt::Debug,
{
    // flag states: 0 absent, 1 false, 2 true
    for states in 0..27usize {
        if cfg.layer == "miri" && states % 7 != 3 {
            continue;
        }
        let st = [states % 3, (states / 3) % 3, (states / 9) % 3];
        let mut members: Vec<(String, String)> = base.iter().map(|(k, v)| (k.to_string(), v.to_string())).collect();
        for (k, s) in ["oneway", "more", "upgrade"].iter().zip(st) {
            match s {
                1 => members.push((k.to_string(), "false".into())),
                2 => members.push((k.to_string(), "true".into())),
                _ => {}
            }
        }
        if extra {
            members.push((if states % 2 == 0 { "extraMember" } else { "extraMemb\u{e9}r" }.into(), "{\"x\":[1,2]}".into()));
        }
        let plain: Vec<(String, String)> = members.iter().filter(|(k, _)| !["oneway", "more", "upgrade"].contains(&k.as_str())).cloned().collect();
        let mut perms: Vec<Vec<(String, String)>> = Vec::new();
        permutations(&members, &mut |p| perms.push(p.to_vec()));
        // all orders when few, a seeded sample of 40 otherwise (thorough: all)
        if cfg.layer == "miri" {
            rng.shuffle(&mut perms);
            perms.truncate(2);
        } else if perms.len() > 120 && !cfg.thorough {
            rng.shuffle(&mut perms);
            perms.truncate(40);
        }
        let nperms = perms.len();
        for (pi, p) in perms.into_iter().enumerate() {
          // as is, and once more with the member names of the envelope spelled with escapes
          for spelling in [0usize, 1 + (pi + states) % 3] {
            if spelling != 0 && cfg.layer == "miri" && pi % 2 == 1 {
                continue;
            }
            let _ = nperms;
            let d = if spelling == 0 { doc(&p) } else { doc_spelled(&p, spelling) };
            if spelling != 0 {
                rep.count("call_documents_with_escaped_member_names");
            }
            rep.eval(vnet::fnv(format!("{name}{d}").as_bytes()));
            let replay = json!({"monitor": "c05", "part": "call-decode", "method_type": name, "doc": d});
            // the reference: the same document, members in the same order, without the flags (for most types the
            // order does not matter; serde's buffering of an adjacently tagged enum whose content comes first does
            // not carry 128-bit integers, with or without zlink)
            let _ = &plain;
            let plain_p: Vec<(String, String)> = p.iter().filter(|(k, _)| !["oneway", "more", "upgrade"].contains(&k.as_str())).cloned().collect();
            let want_m = decode_plain(doc(&plain_p).as_bytes());
            match (decode_call(d.as_bytes()), want_m) {
                (Ok((m, o, mo, u)), Ok(wm)) => {
                    if (o, mo, u) != (st[0] == 2, st[1] == 2, st[2] == 2) {
                        rep.violation("C05/call-flags-decoded-wrongly", format!("{name}: {d}: decoded oneway={o} more={mo} upgrade={u}"), replay);
                    } else if m != wm {
                        rep.violation("C05/call-method-decoded-differently-with-flags-present", format!("{name}: {d}: {m} vs {wm}"), replay);
                    } else {
                        rep.count("call_decodings_ok");
                        if states == 23 {
                            rep.sample(8, || json!({"call_decode": name, "document": d, "decoded_method": m}));
                        }
                    }
                }
                (Err(_), Err(_)) => rep.count("call_decodings_refused_like_the_method_type"),
                (Ok((m, ..)), Err(e)) => rep.violation("C05/call-decodes-although-the-method-type-refuses-its-members", format!("{name}: {d}: Call gives {m}, method type alone: {e}"), replay),
                (Err(e), Ok(wm)) => rep.violation(if spelling == 0 { "C05/call-not-decoded-although-the-method-type-accepts-its-members" } else { "C05/call-with-escaped-member-names-not-decoded" }, format!("{name}: {d}: {e}; method type alone gives {wm}"), replay),
            }
          }
        }
    }
}

fn call_via_conn<M: for<'d> Deserialize<'d> + std::fmt::Debug>(b: &[u8]) -> Result<(String, bool, bool, bool), String> {
    let wire = new_wire(0);
    let mut f = b.to_vec();
    f.push(0);
    wire.borrow_mut().push(Rx::Bytes(f));
    let mut conn = Connection::new(VSocket(wire));
    match vnet::block_on(conn.receive_call::<M>(), 8) {
        Some(Ok(c)) => Ok((format!("{:?}", c.method()), c.oneway(), c.more(), c.upgrade())),
        Some(Err(e)) => Err(format!("{e:?}")),
        None => Err("stalled".into()),
    }
}

/// (d) "no parameters" spellings: absent, null, {}.
fn no_params(rep: &mut Report) {
    let spell = [("absent", ""), ("null", ",\"parameters\":null"), ("empty-object", ",\"parameters\":{}")];
    let mut case = |rep: &mut Report, what: &str, how: &str, res: Result<(), String>| {
        rep.eval(vnet::fnv(format!("np{what}{how}").as_bytes()));
        match res {
            Ok(()) => rep.count(&format!("no_parameters_recognised.{how}")),
            Err(e) => rep.violation(&format!("C05/no-parameters-spelling-not-recognised:{what}:{how}"), e, json!({"monitor": "c05", "part": "no-parameters", "what": what, "how": how})),
        }
    };
    for (how, p) in spell {
        // standard service method without parameters
        let d = format!("{{\"method\":\"org.varlink.service.GetInfo\"{p}}}");
        let r = serde_json::from_str::<Call<varlink_service::Method<'_>>>(&d).map_err(|e| format!("{d}: {e}")).and_then(|c| if matches!(c.method(), varlink_service::Method::GetInfo) { Ok(()) } else { Err(format!("{d}: decoded {:?}", c.method())) });
        case(rep, "service-method-GetInfo", how, r);
        let mut d2 = d.clone().into_bytes();
        d2.push(0);
        let wire = new_wire(0);
        wire.borrow_mut().push(Rx::Bytes(d2));
        let mut conn = Connection::new(VSocket(wire));
        let r = match vnet::block_on(conn.receive_call::<varlink_service::Method<'_>>(), 8) {
            Some(Ok(c)) if matches!(c.method(), varlink_service::Method::GetInfo) => Ok(()),
            other => Err(format!("{d}: receive_call gives {other:?}")),
        };
        case(rep, "service-method-GetInfo-via-receive_call", how, r);
        // field-less standard service errors
        for (name, want) in [("PermissionDenied", varlink_service::Error::PermissionDenied), ("ExpectedMore", varlink_service::Error::ExpectedMore)] {
            let d = format!("{{\"error\":\"org.varlink.service.{name}\"{p}}}");
            let r = serde_json::from_str::<varlink_service::Error>(&d).map_err(|e| format!("{d}: {e}")).and_then(|e| if e == want { Ok(()) } else { Err(format!("{d}: decoded {e:?}")) });
            case(rep, &format!("service-error-{name}"), how, r);
            // and as seen by a caller: must surface as the connection-level service error
            let mut f = d.clone().into_bytes();
            f.push(0);
            let wire = new_wire(0);
            wire.borrow_mut().push(Rx::Bytes(f));
            let mut conn = Connection::new(VSocket(wire));
            let r = match vnet::block_on(conn.receive_reply::<(), ED>(), 8) {
                Some(Err(zlink_core::Error::VarlinkService(e))) if e == want => Ok(()),
                other => Err(format!("{d}: receive_reply gives {other:?}")),
            };
            case(rep, &format!("service-error-{name}-via-receive_reply"), how, r);
        }
        // field-less variant of a derived error enum
        let d = format!("{{\"error\":\"d.Plain\"{p}}}");
        let r = serde_json::from_str::<ED>(&d).map_err(|e| format!("{d}: {e}")).and_then(|e| if e == ED::Plain { Ok(()) } else { Err(format!("{d}: decoded {e:?}")) });
        case(rep, "derived-error-unit-variant", how, r);
        let mut f = d.clone().into_bytes();
        f.push(0);
        let wire = new_wire(0);
        wire.borrow_mut().push(Rx::Bytes(f));
        let mut conn = Connection::new(VSocket(wire));
        let r = match vnet::block_on(conn.receive_reply::<(), ED>(), 8) {
            Some(Ok(Err(ED::Plain))) => Ok(()),
            other => Err(format!("{d}: receive_reply gives {other:?}")),
        };
        case(rep, "derived-error-unit-variant-via-receive_reply", how, r);
        // proxy methods without outputs
        for (m, with_arg) in [("nothing", false), ("nothing_with_arg", true)] {
            for cont in ["", ",\"continues\":false"] {
                let d = format!("{{{}{cont}}}", p.trim_start_matches(','));
                let d = d.replace("{,", "{");
                let mut f = d.clone().into_bytes();
                f.push(0);
                let wire = new_wire(0);
                wire.borrow_mut().push(Rx::Bytes(f));
                let mut conn = Connection::new(VSocket(wire));
                let res = if with_arg { vnet::block_on(conn.nothing_with_arg(1), 8) } else { vnet::block_on(conn.nothing(), 8) };
                let r = match res {
                    Some(Ok(Ok(()))) => Ok(()),
                    other => Err(format!("reply {d}: proxy method {m} gives {other:?}")),
                };
                case(rep, "proxy-method-without-outputs", how, r);
            }
        }
    }
}

/// Error envelopes as a caller sees them: every member order (with and without insignificant white space, with
/// an unknown extra member in every position) through `receive_reply`, `call_method`, a chain's reply stream
/// and a generated proxy method must give the same error as decoding the object directly.
fn error_orders(rep: &mut Report, sample_every: usize) {
    use futures_util::StreamExt;
    #[derive(Debug, Clone, PartialEq)]
    enum Want {
        Method(ED),
        Service(varlink_service::Error),
    }
    let cases: Vec<(Vec<(&str, String)>, Want)> = vec![
        (vec![("error", "\"d.WithFields\"".into()), ("parameters", "{\"a\":-7}".into())], Want::Method(ED::WithFields { a: -7 })),
        (vec![("error", "\"d.Plain\"".into()), ("parameters", "{}".into())], Want::Method(ED::Plain)),
        (vec![("error", "\"d.Plain\"".into()), ("parameters", "null".into())], Want::Method(ED::Plain)),
        (vec![("error", "\"org.varlink.service.InterfaceNotFound\"".into()), ("parameters", "{\"interface\":\"x.y\"}".into())], Want::Service(varlink_service::Error::InterfaceNotFound { interface: "x.y".try_into().unwrap() })),
        (vec![("error", "\"org.varlink.service.MethodNotFound\"".into()), ("parameters", "{\"method\":\"x.y.Z\"}".into())], Want::Service(varlink_service::Error::MethodNotFound { method: "x.y.Z".try_into().unwrap() })),
        (vec![("error", "\"org.varlink.service.InvalidParameter\"".into()), ("parameters", "{\"parameter\":\"p\"}".into())], Want::Service(varlink_service::Error::InvalidParameter { parameter: "p".try_into().unwrap() })),
        (vec![("error", "\"org.varlink.service.PermissionDenied\"".into()), ("parameters", "{}".into())], Want::Service(varlink_service::Error::PermissionDenied)),
        (vec![("error", "\"org.varlink.service.ExpectedMore\"".into()), ("parameters", "null".into())], Want::Service(varlink_service::Error::ExpectedMore)),
    ];
    let mut nth = 0usize;
    for (members, want) in cases {
        let mut variants: Vec<Vec<(&str, String)>> = vec![members.clone()];
        for pos in 0..=members.len() {
            let mut m = members.clone();
            m.insert(pos, ("x-extra", "[1,{\"error\":\"no\"}]".into()));
            variants.push(m);
        }
        for base in variants {
            let mut perms: Vec<Vec<(&str, String)>> = Vec::new();
            permutations(&base, &mut |p| perms.push(p.to_vec()));
            for p in perms {
                for ws in [false, true] {
                    nth += 1;
                    if nth % sample_every != 0 {
                        continue;
                    }
                    let body: Vec<String> = p.iter().map(|(k, v)| if ws { format!(" \"{k}\" :\t{v} ") } else { format!("\"{k}\":{v}") }).collect();
                    let d = format!("{{{}}}", body.join(","));
                    let order: Vec<&str> = p.iter().map(|(k, _)| *k).collect();
                    for path in ["receive_reply", "call_method", "chain", "proxy"] {
                        rep.eval(vnet::fnv(format!("eo{d}{path}").as_bytes()));
                        let mut f = d.clone().into_bytes();
                        f.push(0);
                        let wire = new_wire(0);
                        wire.borrow_mut().push(Rx::Bytes(f));
                        let mut conn = Connection::new(VSocket(wire));
                        let got: Result<Want, String> = match path {
                            "receive_reply" => match vnet::block_on(conn.receive_reply::<serde::de::IgnoredAny, ED>(), 8) {
                                Some(Ok(Err(e))) => Ok(Want::Method(e)),
                                Some(Err(zlink_core::Error::VarlinkService(e))) => Ok(Want::Service(e)),
                                other => Err(format!("{other:?}")),
                            },
                            "call_method" => match vnet::block_on(conn.call_method::<_, serde::de::IgnoredAny, ED>(&Call::new(MA::Unit)), 8) {
                                Some(Ok(Err(e))) => Ok(Want::Method(e)),
                                Some(Err(zlink_core::Error::VarlinkService(e))) => Ok(Want::Service(e)),
                                other => Err(format!("{other:?}")),
                            },
                            "chain" => {
                                let chain = conn.chain_call::<_, serde::de::IgnoredAny, ED>(&Call::new(MA::Unit)).expect("enqueue");
                                match vnet::block_on(chain.send(), 8) {
                                    Some(Ok(st)) => {
                                        let mut st = core::pin::pin!(st);
                                        match vnet::block_on(st.next(), 8) {
                                            Some(Some(Ok(Err(e)))) => Ok(Want::Method(e)),
                                            Some(Some(Err(zlink_core::Error::VarlinkService(e)))) => Ok(Want::Service(e)),
                                            other => Err(format!("{other:?}")),
                                        }
                                    }
                                    other => Err(format!("send: {:?}", other.map(|r| r.map(|_| ())))),
                                }
                            }
                            _ => match vnet::block_on(conn.nothing(), 8) {
                                Some(Ok(Err(e))) => Ok(Want::Method(e)),
                                Some(Err(zlink_core::Error::VarlinkService(e))) => Ok(Want::Service(e)),
                                other => Err(format!("{other:?}")),
                            },
                        };
                        match got {
                            Ok(g) if g == want => rep.count("error_envelopes_recognised_in_every_member_order"),
                            other => rep.violation(
                                &format!("C05/error-envelope-not-recognised-in-this-member-order:{path}"),
                                format!("{d} (members {order:?}) through {path}: {other:?}, expected {want:?}"),
                                json!({"monitor": "c05", "part": "error-orders", "doc": d, "path": path}),
                            ),
                        }
                    }
                }
            }
        }
    }
}

/// Reply<T>: `parameters` and `continues` only when present; decodes from any member order; round-trips.
fn reply_envelope(rep: &mut Report, rng: &mut Rng, n: u64) {
    #[derive(Debug, Serialize, Deserialize, PartialEq, Clone)]
    struct P {
        a: i64,
        s: String,
    }
    for k in 0..n {
        let p = if rng.chance(2, 3) { Some(P { a: rng.next_u64() as i64, s: format!("s{}", rng.below(1000)) }) } else { None };
        let c = *rng.pick(&[None, Some(true), Some(false)]);
        rep.eval(vnet::fnv(format!("reply{k}{p:?}{c:?}").as_bytes()));
        let replay = json!({"monitor": "c05", "part": "reply", "parameters": format!("{p:?}"), "continues": c});
        let r = Reply::new(p.clone()).set_continues(c);
        let mut want = Map::new();
        if let Some(p) = &p {
            want.insert("parameters".into(), serde_json::to_value(p).unwrap());
        }
        if let Some(c) = c {
            want.insert("continues".into(), json!(c));
        }
        let want = Value::Object(want);
        let got = serde_json::to_value(&r).unwrap();
        if got != want {
            rep.violation("C05/reply-encoding-differs:members-present-exactly-when-set", format!("{r:?} encodes as {got}, expected {want}"), replay.clone());
            continue;
        }
        let wire = new_wire(0);
        let mut conn = Connection::new(VSocket(wire.clone()));
        let sr = vnet::block_on(conn.send_reply(&r), 8);
        let b = wire.borrow().written();
        if !matches!(sr, Some(Ok(()))) || b.last() != Some(&0) || serde_json::from_slice::<Value>(&b[..b.len() - 1]).ok().as_ref() != Some(&want) {
            rep.violation("C05/reply-on-the-wire-differs", format!("{r:?}: {sr:?} wrote {}", vnet::json::show(&b)), replay.clone());
            continue;
        }
        // decode: both member orders, through serde and through receive_reply
        let mut members: Vec<(String, String)> = Vec::new();
        if let Some(p) = &p {
            members.push(("parameters".into(), serde_json::to_string(p).unwrap()));
        }
        if let Some(c) = c {
            members.push(("continues".into(), c.to_string()));
        }
        let mut orders = vec![members.clone()];
        members.reverse();
        orders.push(members);
        for o in orders {
            let d = doc(&o);
            let back: Result<Reply<P>, _> = serde_json::from_str(&d);
            match back {
                Ok(b) if b.parameters() == p.as_ref() && b.continues() == c => {}
                other => {
                    rep.violation("C05/reply-does-not-round-trip", format!("{d}: {other:?}"), replay.clone());
                    continue;
                }
            }
            let mut f = d.clone().into_bytes();
            f.push(0);
            let wire = new_wire(0);
            wire.borrow_mut().push(Rx::Bytes(f));
            let mut conn = Connection::new(VSocket(wire));
            match vnet::block_on(conn.receive_reply::<P, ED>(), 8) {
                Some(Ok(Ok(b))) if b.parameters() == p.as_ref() && b.continues() == c => rep.count("replies_round_tripped"),
                other => rep.violation("C05/reply-does-not-round-trip-through-receive_reply", format!("{d}: {other:?}"), replay.clone()),
            }
        }
    }
}

pub fn run(cfg: &Cfg) -> Report {
    let mut rep = Report::new("C05", "c05");
    let mut rng = cfg.rng(51);
    if cfg.shard == 0 {
        // (a) 8 flag sets x method types
        for set in 0..8 {
            encode_case(&mut rep, "MA::Unit", MA::Unit, set);
            encode_case(&mut rep, "MA::St", MA::St { x: -5, s: "é\"\n".into() }, set);
            encode_case(&mut rep, "MA::Opt(None)", MA::Opt { o: None }, set);
            // (the reference goes through serde_json::Value, which holds 64-bit integers at most)
            encode_case(&mut rep, "MA::Wide", MA::Wide { u: u64::MAX as u128, i: i64::MIN as i128, f: -2.5 }, set);
            encode_case(&mut rep, "MB::Bor", MB::Bor { s: "borrowed", n: 7 }, set);
            encode_case(&mut rep, "MStrict", MStrict { method: "s.M".into(), parameters: PStrict { a: 1 } }, set);
            // method types that serialize as a map rather than a struct (generic clients): a JSON value, a string-keyed
            // map, a struct with a flattened member
            encode_case(&mut rep, "serde_json::Value", json!({"method": "g.Any", "parameters": {"k": [1, 2], "s": "t"}}), set);
            encode_case(&mut rep, "BTreeMap", [("method".to_string(), json!("g.Map")), ("parameters".to_string(), json!({"a": null}))].into_iter().collect::<std::collections::BTreeMap<String, Value>>(), set);
            encode_case(&mut rep, "flattened", MFlat { method: "g.Flat", rest: [("parameters".to_string(), json!({"x": 1.5}))].into_iter().collect() }, set);
            encode_case(&mut rep, "service::GetInfo", varlink_service::Method::GetInfo, set);
            encode_case(&mut rep, "service::GetInterfaceDescription", varlink_service::Method::GetInterfaceDescription { interface: "org.example.x" }, set);
        }
        no_params(&mut rep);
        error_orders(&mut rep, if cfg.layer == "miri" { 23 } else { 1 });
    }
    // (b) decode matrix, sharded by method type
    let types: Vec<(&str, Vec<(&str, &str)>)> = vec![
        ("MA::Unit", vec![("method", "\"a.Unit\"")]),
        ("MA::St", vec![("method", "\"a.St\""), ("parameters", "{\"x\":3,\"s\":\"t\"}")]),
        ("MA::St-wrong", vec![("method", "\"a.St\""), ("parameters", "{\"x\":\"3\"}")]),
        ("MA::Opt", vec![("method", "\"a.Opt\""), ("parameters", "{\"o\":null}")]),
        ("MA::Wide", vec![("method", "\"a.Wide\""), ("parameters", "{\"u\":340282366920938463463374607431768211455,\"i\":-170141183460469231731687303715884105728,\"f\":1e300}")]),
        ("MB::Bor", vec![("method", "\"b.Bor\""), ("parameters", "{\"s\":\"plain\",\"n\":1}")]),
        ("MStrict", vec![("method", "\"s.M\""), ("parameters", "{\"a\":1}")]),
        ("service", vec![("method", "\"org.varlink.service.GetInterfaceDescription\""), ("parameters", "{\"interface\":\"a.b\"}")]),
        ("service-GetInfo", vec![("method", "\"org.varlink.service.GetInfo\"")]),
    ];
    let miri = cfg.layer == "miri";
    for (k, (name, base)) in types.iter().enumerate() {
        if !cfg.mine(k as u64) || (miri && k % 3 != 0) {
            continue;
        }
        for extra in [false, true] {
            match *name {
                n if n.starts_with("MA") => {
                    decode_matrix::<MA>(&mut rep, n, base, extra, &|b| serde_json::from_slice::<Call<MA>>(b).map(|c| (format!("{:?}", c.method()), c.oneway(), c.more(), c.upgrade())).map_err(|e| e.to_string()), &|b| serde_json::from_slice::<MA>(b).map(|m| format!("{m:?}")).map_err(|e| e.to_string()), cfg, &mut rng);
                    decode_matrix::<MA>(&mut rep, &format!("{n}/receive_call"), base, extra, &|b| call_via_conn::<MA>(b), &|b| serde_json::from_slice::<MA>(b).map(|m| format!("{m:?}")).map_err(|e| e.to_string()), cfg, &mut rng);
                }
                "MB::Bor" => decode_matrix::<MB>(&mut rep, name, base, extra, &|b| serde_json::from_slice::<Call<MB<'_>>>(b).map(|c| (format!("{:?}", c.method()), c.oneway(), c.more(), c.upgrade())).map_err(|e| e.to_string()), &|b| serde_json::from_slice::<MB<'_>>(b).map(|m| format!("{m:?}")).map_err(|e| e.to_string()), cfg, &mut rng),
                "MStrict" => decode_matrix::<MStrict>(&mut rep, name, base, extra, &|b| serde_json::from_slice::<Call<MStrict>>(b).map(|c| (format!("{:?}", c.method()), c.oneway(), c.more(), c.upgrade())).map_err(|e| e.to_string()), &|b| serde_json::from_slice::<MStrict>(b).map(|m| format!("{m:?}")).map_err(|e| e.to_string()), cfg, &mut rng),
                _ => decode_matrix::<varlink_service::Method>(&mut rep, name, base, extra, &|b| serde_json::from_slice::<Call<varlink_service::Method<'_>>>(b).map(|c| (format!("{:?}", c.method()), c.oneway(), c.more(), c.upgrade())).map_err(|e| e.to_string()), &|b| serde_json::from_slice::<varlink_service::Method<'_>>(b).map(|m| format!("{m:?}")).map_err(|e| e.to_string()), cfg, &mut rng),
            }
        }
    }
    // decode(encode(c)) == c for random flag sets
    for k in 0..cfg.n(if miri { 40 } else { 200_000 }, 4_000_000) {
        let set = rng.below(8);
        let (o, m, u) = flags_of(set);
        let method = match rng.below(4) {
            3 => MA::Wide { u: (rng.next_u64() as u128) << (rng.below(65) as u32) | rng.next_u64() as u128, i: ((rng.next_u64() as i128) << (rng.below(64) as u32)).wrapping_neg(), f: (rng.next_u64() >> 40) as f64 / 8.0 },
            0 => MA::Unit,
            1 => MA::St { x: rng.next_u64() as i64, s: format!("v{k}\"\\") },
            _ => MA::Opt { o: if rng.chance(1, 2) { Some(3) } else { None } },
        };
        let c = Call::new(method.clone()).set_oneway(o).set_more(m).set_upgrade(u);
        rep.eval(vnet::fnv(format!("rt{k}{method:?}{set}").as_bytes()));
        let enc = serde_json::to_vec(&c).unwrap();
        match serde_json::from_slice::<Call<MA>>(&enc) {
            Ok(b) if b.method() == &method && (b.oneway(), b.more(), b.upgrade()) == (o, m, u) => rep.count("calls_round_tripped"),
            other => rep.violation("C05/call-does-not-round-trip", format!("{c:?} -> {} -> {other:?}", vnet::json::show(&enc)), json!({"monitor": "c05", "part": "call-roundtrip"})),
        }
    }
    reply_envelope(&mut rep, &mut rng, cfg.n(if miri { 40 } else { 200_000 }, 4_000_000));
    rep
}

//! C06 — a chain's reply stream yields exactly the replies its calls are owed.

use crate::cfg::Cfg;
use futures_util::StreamExt;
use serde::{Deserialize, Serialize};
use serde_json::{json, Value};
use vnet::{fnv, fnv_mix, new_wire, Report, Rng, Rx, VSocket};
use zlink_core::{Call, Connection, ReplyError};

#[derive(Debug, Serialize, Deserialize, PartialEq, Clone)]
#[serde(tag = "method", content = "parameters")]
pub enum MC {
    #[serde(rename = "c.Do")]
    Do { tag: u32 },
    #[serde(rename = "c.Big")]
    Big { tag: u32, pad: String },
}

#[derive(Debug, Serialize, Deserialize, PartialEq, Clone)]
pub struct Tagged {
    pub tag: u32,
    pub text: String,
}

#[derive(Debug, ReplyError, PartialEq, Clone)]
#[zlink(interface = "c", crate = "zlink_core")]
pub enum EC {
    Fail { tag: u32 },
    Nope,
}

/// `Rep::pad` value that stands for "no parameters member at all".
pub const BARE: usize = 7;

#[derive(Debug, Clone, Copy, PartialEq, Eq)]
pub enum Kind {
    Plain,
    Oneway,
    More,
}

/// One reply the server sends, in wire order.
#[derive(Debug, Clone, PartialEq)]
pub struct Rep {
    pub tag: u32,
    pub is_error: bool,
    pub continues: Option<bool>,
    pub pad: usize,
}

impl Rep {
    /// How the reply is spelled: a conforming peer may write the members of the envelope in any order and
    /// put insignificant white space between the tokens. Derived from the tag, so that every script mixes
    /// the spellings (about half of the replies are written the way zlink's own server writes them).
    pub fn style(&self) -> u32 {
        (self.tag.wrapping_mul(2654435761) >> 9) % 6
    }
    pub fn bytes(&self) -> Vec<u8> {
        let st = self.style();
        let mut v = if self.is_error {
            match st {
                3 => format!("{{\"parameters\":{{\"tag\":{}}},\"error\":\"c.Fail\"}}", self.tag),
                4 => format!("{{ \"parameters\" : {{ \"tag\" : {} }} ,\n \"error\" : \"c.Fail\" }}", self.tag),
                5 => format!(" {{\"error\":\"c.Fail\",\t\"parameters\":{{\"tag\":{}}}}} ", self.tag),
                _ => format!("{{\"error\":\"c.Fail\",\"parameters\":{{\"tag\":{}}}}}", self.tag),
            }
            .into_bytes()
        } else if self.pad == BARE {
            // a success reply without parameters (progress tick, method without outputs)
            match self.continues {
                None => "{}".to_string(),
                Some(b) => format!("{{\"continues\":{b}}}"),
            }
            .into_bytes()
        } else {
            let text = "t".repeat(self.pad);
            match (self.continues, st) {
                (None, 4) => format!("{{ \"parameters\" : {{ \"text\" : \"{}\" , \"tag\" : {} }} }}", text, self.tag),
                (None, _) => format!("{{\"parameters\":{{\"tag\":{},\"text\":\"{}\"}}}}", self.tag, text),
                (Some(b), 3) => format!("{{\"continues\":{b},\"parameters\":{{\"tag\":{},\"text\":\"{}\"}}}}", self.tag, text),
                (Some(b), 4) => format!("{{ \"continues\" : {b} ,\r\n \"parameters\" : {{ \"text\" : \"{}\" , \"tag\" : {} }} }}", text, self.tag),
                (Some(b), _) => format!("{{\"parameters\":{{\"tag\":{},\"text\":\"{}\"}},\"continues\":{b}}}", self.tag, text),
            }
            .into_bytes()
        };
        v.push(0);
        v
    }
    /// Canonical form of the item the stream must yield for this reply.
    pub fn canon(&self) -> String {
        if self.is_error {
            format!("error:Fail{{tag:{}}}", self.tag)
        } else if self.pad == BARE {
            format!("reply:none,c={:?}", self.continues)
        } else {
            format!("reply:tag={},len={},c={:?}", self.tag, self.pad, self.continues)
        }
    }
}

pub fn canon_item(r: &zlink_core::Result<zlink_core::reply::Result<Tagged, EC>>) -> String {
    match r {
        Ok(Ok(rep)) => match rep.parameters() {
            Some(p) => format!("reply:tag={},len={},c={:?}", p.tag, p.text.len(), rep.continues()),
            None => format!("reply:none,c={:?}", rep.continues()),
        },
        Ok(Err(EC::Fail { tag })) => format!("error:Fail{{tag:{tag}}}"),
        Ok(Err(e)) => format!("error:{e:?}"),
        Err(e) => format!("failure:{e:?}"),
    }
}

#[derive(Debug, Clone)]
pub struct Case {
    pub kinds: Vec<Kind>,
    /// replies owed, in order (already expanded for `more` calls)
    pub replies: Vec<Rep>,
    /// frames of a later exchange
    pub trailing: Vec<Rep>,
    /// cut positions within the owed-reply bytes
    pub cuts: Vec<usize>,
    /// 0 = trailing frames in the same last chunk as the final owed reply; 1 = trailing frames
    /// delivered only after the stream ended
    pub trailing_later: bool,
    /// drop and re-create the `next()` future at every suspension
    pub cancel_next: bool,
    pub pendings: usize,
    /// what happened on the connection before the chain (see `vnet::warm_up_kind`; 0 = nothing)
    pub history: u8,
    /// bytes of padding in every call (0 = the small call); big chains exceed any plausible write-size threshold
    pub pad: usize,
    /// the frames of the later exchange are the replies of a second chain (sent after the first stream is done)
    /// instead of being received one by one
    pub second_chain: bool,
    /// the transport answers `Pending` this many times before it takes the chain's write (a peer that is
    /// slow to read) - while every reply the script delivers up front is already waiting to be read
    pub wpp: usize,
}

impl Case {
    pub fn replay(&self) -> Value {
        json!({"monitor": "c06",
            "kinds": self.kinds.iter().map(|k| match k { Kind::Plain => "plain", Kind::Oneway => "oneway", Kind::More => "more" }).collect::<Vec<_>>(),
            "replies": self.replies.iter().map(|r| json!([r.tag, r.is_error, r.continues, r.pad])).collect::<Vec<_>>(),
            "trailing": self.trailing.iter().map(|r| json!([r.tag, r.is_error, r.continues, r.pad])).collect::<Vec<_>>(),
            "cuts": self.cuts, "trailing_later": self.trailing_later, "cancel_next": self.cancel_next, "pendings": self.pendings, "history": self.history, "pad": self.pad, "second_chain": self.second_chain, "wpp": self.wpp})
    }
    pub fn from_replay(r: &Value) -> Case {
        let reps = |v: &Value| -> Vec<Rep> {
            v.as_array().unwrap().iter().map(|x| Rep { tag: x[0].as_u64().unwrap() as u32, is_error: x[1].as_bool().unwrap(), continues: x[2].as_bool(), pad: x[3].as_u64().unwrap() as usize }).collect()
        };
        Case {
            kinds: r["kinds"].as_array().unwrap().iter().map(|k| match k.as_str().unwrap() { "plain" => Kind::Plain, "oneway" => Kind::Oneway, _ => Kind::More }).collect(),
            replies: reps(&r["replies"]),
            trailing: reps(&r["trailing"]),
            cuts: r["cuts"].as_array().unwrap().iter().map(|c| c.as_u64().unwrap() as usize).collect(),
            trailing_later: r["trailing_later"].as_bool().unwrap(),
            cancel_next: r["cancel_next"].as_bool().unwrap_or(false),
            pendings: r["pendings"].as_u64().unwrap_or(0) as usize,
            history: r["history"].as_u64().unwrap_or(0) as u8,
            pad: r["pad"].as_u64().unwrap_or(0) as usize,
            second_chain: r["second_chain"].as_bool().unwrap_or(false),
            wpp: r["wpp"].as_u64().unwrap_or(0) as usize,
        }
    }
    fn hash(&self) -> u64 {
        let mut h = fnv(format!("{:?}", self.kinds).as_bytes());
        for r in self.replies.iter().chain(self.trailing.iter()) {
            h = fnv_mix(h, ((r.tag as u64) << 20) ^ ((r.is_error as u64) << 3) ^ (r.pad as u64) << 4 ^ match r.continues { None => 0, Some(false) => 1, Some(true) => 2 });
        }
        for c in &self.cuts {
            h = fnv_mix(h, *c as u64);
        }
        fnv_mix(h, self.trailing_later as u64 * 4 + self.cancel_next as u64 * 2 + self.pendings as u64 * 8 + self.history as u64 * 64 + self.second_chain as u64 * 1024 + ((self.pad as u64) << 12) + ((self.wpp as u64) << 40))
    }
}

pub fn call_for(kind: Kind, tag: u32) -> Call<MC> {
    call_padded(kind, tag, 0)
}

pub fn call_padded(kind: Kind, tag: u32, pad: usize) -> Call<MC> {
    let c = Call::new(if pad == 0 { MC::Do { tag } } else { MC::Big { tag, pad: "q".repeat(pad) } });
    match kind {
        Kind::Plain => c,
        Kind::Oneway => c.set_oneway(true),
        Kind::More => c.set_more(true),
    }
}

#[derive(Debug, Default)]
pub struct Outcome {
    pub writes: Vec<Vec<u8>>,
    pub items: Vec<String>,
    pub ended: bool,
    pub stalled_waiting: bool,
    pub read_polls: usize,
    /// read polls made before `send` returned (a transport that is slow to take the write may legitimately be
    /// read from meanwhile; waiting for a reply only starts with the stream)
    pub read_polls_during_send: usize,
    pub read_polls_idle: usize,
    pub read_polls_idle_during_send: usize,
    pub leftovers: Vec<String>,
    pub leftover_stalled: bool,
}

pub fn execute(case: &Case) -> Outcome {
    let wire = new_wire(0);
    let mut conn = Connection::new(VSocket(wire.clone()));
    vnet::warm_up_kind(&mut conn, &wire, case.history);
    let owed: Vec<u8> = case.replies.iter().flat_map(|r| r.bytes()).collect();
    let trailing: Vec<u8> = case.trailing.iter().flat_map(|r| r.bytes()).collect();
    {
        let mut w = wire.borrow_mut();
        let mut first_part = owed.clone();
        if !case.trailing_later {
            first_part.extend_from_slice(&trailing);
        }
        for c in vnet::chunks_at(&first_part, &case.cuts) {
            for _ in 0..case.pendings {
                w.push(Rx::Pending);
            }
            w.push(Rx::Bytes(c));
        }
    }
    let mut out = Outcome::default();
    {
        let mut chain = conn
            .chain_call::<MC, Tagged, EC>(&call_padded(case.kinds[0], 0, case.pad))
            .expect("enqueue");
        for (i, k) in case.kinds.iter().enumerate().skip(1) {
            chain = chain.append(&call_padded(*k, i as u32, case.pad)).expect("enqueue");
        }
        wire.borrow_mut().write_pending_polls = case.wpp;
        let stream = vnet::block_on(chain.send(), 4 + 2 * case.wpp).expect("the virtual write completes after the scripted number of polls").expect("send");
        wire.borrow_mut().write_pending_polls = 0;
        out.read_polls_during_send = wire.borrow().read_polls;
        out.read_polls_idle_during_send = wire.borrow().read_polls_when_empty;
        let mut stream = core::pin::pin!(stream);
        let max_items = case.replies.len() + 3;
        let budget = (case.pendings + 1) * (case.cuts.len() + 2) + 4;
        'items: loop {
            let mut polls = 0;
            let item = 'one: loop {
                let fut = stream.next();
                let mut fut = core::pin::pin!(fut);
                loop {
                    polls += 1;
                    if polls > budget {
                        out.stalled_waiting = true;
                        break 'items;
                    }
                    match vnet::poll_once(fut.as_mut()) {
                        core::task::Poll::Ready(x) => break 'one x,
                        core::task::Poll::Pending => {
                            if case.cancel_next {
                                continue 'one;
                            }
                        }
                    }
                }
            };
            match item {
                None => {
                    out.ended = true;
                    break;
                }
                Some(r) => out.items.push(canon_item(&r)),
            }
            if out.items.len() > max_items {
                break;
            }
        }
    }
    {
        let w = wire.borrow();
        out.writes = w.writes.clone();
        out.read_polls = w.read_polls;
        out.read_polls_idle = w.read_polls_when_empty;
    }
    // later exchange: the trailing frames must still be there, intact and in order
    if case.trailing_later {
        wire.borrow_mut().push(Rx::Bytes(trailing));
    }
    if case.second_chain && !case.trailing.is_empty() {
        // the later exchange is a chain of its own: one plain call per trailing frame
        let mut chain = conn.chain_call::<MC, Tagged, EC>(&call_for(Kind::Plain, 500)).expect("enqueue");
        for i in 1..case.trailing.len() {
            chain = chain.append(&call_for(Kind::Plain, 500 + i as u32)).expect("enqueue");
        }
        match vnet::block_on(chain.send(), 4) {
            Some(Ok(st)) => {
                let mut st = core::pin::pin!(st);
                loop {
                    match vnet::block_on(st.next(), 8) {
                        Some(Some(r)) => out.leftovers.push(canon_item(&r)),
                        Some(None) => break,
                        None => {
                            out.leftover_stalled = true;
                            break;
                        }
                    }
                    if out.leftovers.len() > case.trailing.len() + 2 {
                        break;
                    }
                }
            }
            _ => out.leftover_stalled = true,
        }
        return out;
    }
    for _ in 0..case.trailing.len() {
        match vnet::block_on(conn.receive_reply::<Tagged, EC>(), 4) {
            Some(r) => out.leftovers.push(canon_item(&r)),
            None => {
                out.leftover_stalled = true;
                break;
            }
        }
    }
    out
}

fn check(case: &Case, rep: &mut Report) {
    let res = vnet::catch(|| execute(case));
    rep.eval(case.hash());
    let o = match res {
        Err(p) => {
            rep.violation("C06/panic", format!("panic: {p}"), case.replay());
            return;
        }
        Ok(o) => o,
    };
    let desc = || format!("chain {:?}; owed {:?}; trailing {:?}; cuts {:?}; trailing_later={}", case.kinds, case.replies.iter().map(|r| r.canon()).collect::<Vec<_>>(), case.trailing.iter().map(|r| r.canon()).collect::<Vec<_>>(), case.cuts, case.trailing_later);
    // (1) one write, all calls in chain order
    let expect_write: Vec<u8> = case.kinds.iter().enumerate().flat_map(|(i, k)| {
        let mut b = serde_json::to_vec(&call_padded(*k, i as u32, case.pad)).unwrap();
        b.push(0);
        b
    }).collect();
    // (writes made by a second chain come later in the list)
    if o.writes.is_empty() || o.writes[0] != expect_write || (!case.second_chain && o.writes.len() != 1) {
        let all = o.writes.concat();
        rep.violation("C06/calls-not-sent-as-one-write-in-chain-order", format!("{} writes of {:?} bytes: {}; {}", o.writes.len(), o.writes.iter().map(|w| w.len()).collect::<Vec<_>>(), vnet::json::show(&all[..all.len().min(400)]), desc()), case.replay());
        return;
    }
    // (2)+(3) items
    let expect_items: Vec<String> = case.replies.iter().map(|r| r.canon()).collect();
    let all_oneway = case.kinds.iter().all(|k| *k == Kind::Oneway);
    if all_oneway {
        rep.count("chains_owing_nothing");
        if o.read_polls > o.read_polls_during_send {
            rep.violation("C06/chain-owing-nothing-reads-from-the-transport", format!("{} read polls, stalled={}; {}", o.read_polls, o.stalled_waiting, desc()), case.replay());
            return;
        }
    }
    if o.items != expect_items || !o.ended {
        let sig = if o.stalled_waiting && o.items == expect_items {
            "C06/stream-waits-after-all-owed-replies-were-yielded"
        } else if o.stalled_waiting && o.items.len() < expect_items.len() && o.items[..] == expect_items[..o.items.len()] {
            "C06/stream-stalls-before-yielding-a-delivered-owed-reply"
        } else if o.items.len() > expect_items.len() && o.items[..expect_items.len()] == expect_items[..] {
            "C06/stream-yields-more-than-owed"
        } else if o.ended && o.items.len() < expect_items.len() {
            "C06/stream-ends-before-all-owed-replies"
        } else {
            "C06/stream-items-differ-from-owed-replies"
        };
        rep.violation(sig, format!("yielded {:?} ended={} stalled={}; {}", o.items, o.ended, o.stalled_waiting, desc()), case.replay());
        return;
    }
    // (4) later exchange intact
    let expect_left: Vec<String> = case.trailing.iter().map(|r| r.canon()).collect();
    if o.leftovers != expect_left {
        rep.violation("C06/frames-of-a-later-exchange-not-intact-after-the-stream", format!("later receives {:?} (stalled={}); {}", o.leftovers, o.leftover_stalled, desc()), case.replay());
        return;
    }
    // never read while nothing is owed any more: idle read polls must be zero when the stream
    // ended by itself and all bytes were queued up front
    if o.read_polls_idle > o.read_polls_idle_during_send && case.trailing_later {
        // trailing bytes were not queued yet, so any idle poll happened while waiting beyond the owed replies
        rep.violation("C06/stream-polled-the-transport-beyond-the-last-owed-reply", format!("{} idle read polls; {}", o.read_polls_idle, desc()), case.replay());
        return;
    }
    rep.count("chains_checked_ok");
}

/// The stream is given up after `k` of its items (a caller that only wanted the first answer, a `select!` that took
/// another branch): the replies it has not handed out are still frames the peer sent, so the receives that follow
/// get them - and the frames of the later exchange - in order, whatever the chunking.
fn check_left_early(case: &Case, k: usize, rep: &mut Report) {
    rep.eval(case.hash() ^ 0x1eaf ^ ((k as u64) << 50));
    rep.count("streams_left_early");
    let res = vnet::catch(|| -> Result<(Vec<String>, Vec<String>), String> {
        let wire = new_wire(0);
        let mut conn = Connection::new(VSocket(wire.clone()));
        vnet::warm_up_kind(&mut conn, &wire, case.history);
        let all: Vec<u8> = case.replies.iter().chain(case.trailing.iter()).flat_map(|r| r.bytes()).collect();
        for c in vnet::chunks_at(&all, &case.cuts) {
            for _ in 0..case.pendings {
                wire.borrow_mut().push(Rx::Pending);
            }
            wire.borrow_mut().push(Rx::Bytes(c));
        }
        let mut items = Vec::new();
        {
            let mut chain = conn.chain_call::<MC, Tagged, EC>(&call_padded(case.kinds[0], 0, case.pad)).map_err(|e| format!("enqueue: {e:?}"))?;
            for (i, kd) in case.kinds.iter().enumerate().skip(1) {
                chain = chain.append(&call_padded(*kd, i as u32, case.pad)).map_err(|e| format!("enqueue: {e:?}"))?;
            }
            let stream = vnet::block_on(chain.send(), 4).ok_or("send stalled")?.map_err(|e| format!("send: {e:?}"))?;
            let mut stream = core::pin::pin!(stream);
            let budget = (case.pendings + 1) * (case.cuts.len() + 2) + 4;
            while items.len() < k {
                match vnet::block_on(stream.next(), budget) {
                    Some(Some(r)) => items.push(canon_item(&r)),
                    Some(None) => return Err(format!("the stream ended after {} items", items.len())),
                    None => return Err(format!("the stream stalled after {} items although every byte was queued", items.len())),
                }
            }
            // the stream is dropped here
        }
        let mut rest = Vec::new();
        let budget = (case.pendings + 1) * (case.cuts.len() + 2) + 4;
        for _ in k..case.replies.len() + case.trailing.len() {
            match vnet::block_on(conn.receive_reply::<Tagged, EC>(), budget) {
                Some(r) => rest.push(canon_item(&r)),
                None => {
                    rest.push("stalled".into());
                    break;
                }
            }
        }
        Ok((items, rest))
    });
    let want: Vec<String> = case.replies.iter().chain(case.trailing.iter()).map(|r| r.canon()).collect();
    let desc = || format!("chain {:?}; left after {k} of {} owed replies; then {} later frames; cuts {:?}; history {}", case.kinds, case.replies.len(), case.trailing.len(), case.cuts, case.history);
    match res {
        Err(p) => rep.violation("C06/panic", format!("panic (stream left early): {p}"), case.replay()),
        Ok(Err(e)) => rep.violation("C06/stream-left-early:items-differ-from-owed-replies", format!("{e}; {}", desc()), case.replay()),
        Ok(Ok((items, rest))) => {
            let got: Vec<String> = items.iter().chain(rest.iter()).cloned().collect();
            if got != want {
                rep.violation("C06/stream-left-early:frames-not-handed-out-are-not-received-afterwards", format!("items {items:?}, later receives {rest:?}, the peer sent {want:?}; {}", desc()), case.replay());
            } else {
                rep.count("streams_left_early_ok");
            }
        }
    }
}

/// Expand a flag word into owed replies with `script` choices drawn from `pick`.
fn script_for(kinds: &[Kind], pick: &mut dyn FnMut(usize) -> usize) -> Vec<Rep> {
    let mut out = Vec::new();
    for (i, k) in kinds.iter().enumerate() {
        let tag = 1000 + i as u32 * 10;
        match k {
            Kind::Oneway => {}
            Kind::Plain => {
                let e = pick(4);
                out.push(Rep { tag, is_error: e == 0, continues: if e == 1 { Some(false) } else { None }, pad: pick(8) });
            }
            Kind::More => {
                let n = pick(4); // 0..3 continuing replies
                for j in 0..n {
                    out.push(Rep { tag: tag + 1 + j as u32, is_error: false, continues: Some(true), pad: pick(8) });
                }
                let e = pick(3);
                out.push(Rep { tag: tag + 9, is_error: e == 0, continues: if e == 1 { Some(false) } else { None }, pad: pick(8) });
            }
        }
    }
    out
}

fn word(mut idx: usize, n: usize) -> Vec<Kind> {
    (0..n).map(|_| { let k = [Kind::Plain, Kind::Oneway, Kind::More][idx % 3]; idx /= 3; k }).collect()
}

fn random_cuts(rng: &mut Rng, len: usize, max: usize) -> Vec<usize> {
    if len < 2 || max == 0 {
        return vec![];
    }
    let k = rng.range(0, max.min(len - 1));
    let mut cuts: Vec<usize> = (0..k).map(|_| rng.range(1, len - 1)).collect();
    cuts.sort_unstable();
    cuts.dedup();
    cuts
}

pub fn run(cfg: &Cfg) -> Report {
    let mut rep = Report::new("C06", "c06");
    if let Some(r) = &cfg.replay {
        let case = Case::from_replay(r);
        check(&case, &mut rep);
        rep.notes.push(format!("{:?}", execute(&case)));
        return rep;
    }
    let miri = cfg.layer == "miri";
    let max_n = if miri { 3 } else { 6 };
    let variants = if miri { 1 } else if cfg.thorough { 24 } else { 4 };
    let mut rng = cfg.rng(61);
    let mut idx = 0u64;
    for n in 1..=max_n {
        for w in 0..3usize.pow(n as u32) {
            idx += 1;
            if !cfg.mine(idx) {
                continue;
            }
            let kinds = word(w, n);
            rep.count("flag_words");
            for v in 0..variants {
                let replies = if v == 0 {
                    script_for(&kinds, &mut |m| m - 1) // all successes w/o continues, max continuing replies
                } else if v == 1 {
                    script_for(&kinds, &mut |_| 0) // all errors, no continuing replies
                } else {
                    let mut r2 = rng.clone();
                    let s = script_for(&kinds, &mut |m| r2.below(m));
                    rng = r2;
                    s
                };
                let owed_len: usize = replies.iter().map(|r| r.bytes().len()).sum();
                let ntrail = if v % 2 == 0 { rng.below(3) } else { 0 };
                let trailing: Vec<Rep> = (0..ntrail).map(|j| Rep { tag: 9000 + j as u32, is_error: rng.chance(1, 3), continues: *rng.pick(&[None, Some(false), Some(true)]), pad: rng.below(5) }).collect();
                // chunkings: whole; frame per read; random cuts; 1 byte per read (small ones)
                let mut cutsets: Vec<Vec<usize>> = vec![vec![]];
                let mut acc = 0;
                let per_frame: Vec<usize> = replies.iter().map(|r| { acc += r.bytes().len(); acc }).filter(|c| *c < owed_len).collect();
                cutsets.push(per_frame);
                cutsets.push(random_cuts(&mut rng, owed_len, 6));
                if owed_len < 200 && !miri {
                    cutsets.push((1..owed_len).collect());
                }
                for cuts in cutsets {
                    for trailing_later in [true, false] {
                        if !trailing_later && trailing.is_empty() {
                            continue;
                        }
                        // with trailing frames in the same burst only cut inside the owed part
                        let case = Case { kinds: kinds.clone(), replies: replies.clone(), trailing: trailing.clone(), cuts: cuts.clone(), trailing_later, cancel_next: v % 3 == 2, pendings: if v % 3 == 2 { 1 } else { 0 }, history: if rng.chance(1, 2) { 0 } else { rng.range(1, 10) as u8 }, pad: 0, second_chain: false, wpp: 0 };
                        let mut case = case;
                        if rng.chance(1, 4) {
                            case.wpp = rng.range(1, 3);
                            rep.count("chains_whose_write_is_taken_late");
                        }
                        // the later exchange as a chain of its own (its frames must then be final replies)
                        if !case.trailing.is_empty() && case.trailing.iter().all(|t| t.continues != Some(true)) && rng.chance(1, 2) {
                            case.second_chain = true;
                            rep.count("later_exchange_is_a_second_chain");
                        }
                        if case.history > 0 {
                            rep.count("chains_on_a_connection_with_history");
                        }
                        check(&case, &mut rep);
                        if case.replies.len() >= 2 && rng.chance(1, 5) {
                            let k = rng.range(1, case.replies.len() - 1);
                            check_left_early(&case, k, &mut rep);
                        }
                    }
                }
                if idx % 97 == 0 && v == 2 {
                    rep.sample(6, || json!({"chain": format!("{kinds:?}"), "owed_replies": replies.iter().map(|r| r.canon()).collect::<Vec<_>>(), "trailing": trailing.iter().map(|r| r.canon()).collect::<Vec<_>>()}));
                }
            }
        }
    }
    // long runs of replies owed to one chain (a `more` call answered hundreds of times), available in one
    // burst, a few big chunks, or one frame per read: nothing may depend on how many replies were produced
    // back to back
    let nlong = if miri { 1 } else { cfg.n(40, 600) };
    let mut rng = cfg.rng(6100 + cfg.shard as u64);
    for k in 0..nlong {
        if miri && cfg.shard != 0 {
            break;
        }
        let n = rng.range(1, 3);
        let mut kinds: Vec<Kind> = (0..n).map(|_| *rng.pick(&[Kind::Plain, Kind::Oneway, Kind::More])).collect();
        let at = rng.below(n);
        kinds[at] = Kind::More;
        let mut replies = Vec::new();
        for (i, kd) in kinds.iter().enumerate() {
            let tag = 100_000 * (i as u32 + 1);
            match kd {
                Kind::Oneway => {}
                Kind::Plain => replies.push(Rep { tag, is_error: rng.chance(1, 4), continues: None, pad: rng.below(8) }),
                Kind::More => {
                    let m = if i == at { if miri { 140 } else { *rng.pick(&[100usize, 127, 128, 129, 130, 200, 255, 256, 257, 300, 511, 512, 513, 700, 1025]) + rng.below(3) } } else { rng.below(4) };
                    for j in 0..m {
                        let pad = if rng.chance(1, 50) { 300 } else { rng.below(9) };
                        replies.push(Rep { tag: tag + 1 + j as u32, is_error: false, continues: Some(true), pad });
                    }
                    let e = rng.below(3);
                    replies.push(Rep { tag: tag + 99_999, is_error: e == 0, continues: if e == 1 { Some(false) } else { None }, pad: rng.below(8) });
                }
            }
        }
        let owed_len: usize = replies.iter().map(|r| r.bytes().len()).sum();
        let ntrail = rng.below(3);
        let trailing: Vec<Rep> = (0..ntrail).map(|j| Rep { tag: 9000 + j as u32, is_error: rng.chance(1, 3), continues: *rng.pick(&[None, Some(false), Some(true)]), pad: rng.below(5) }).collect();
        let cuts = match k % 4 {
            0 => vec![],
            1 => random_cuts(&mut rng, owed_len, 4),
            2 => {
                let mut acc = 0;
                replies.iter().map(|r| { acc += r.bytes().len(); acc }).filter(|c| *c < owed_len).collect()
            }
            _ => random_cuts(&mut rng, owed_len, 40),
        };
        let case = Case { kinds, replies, trailing, cuts, trailing_later: rng.chance(1, 2), cancel_next: k % 5 == 4, pendings: if k % 5 == 4 { 1 } else { 0 }, history: if rng.chance(1, 2) { 0 } else { rng.range(1, 10) as u8 }, pad: 0, second_chain: false, wpp: 0 };
        let mut case = case;
        if k % 3 == 1 {
            case.wpp = rng.range(1, 3);
            rep.count("chains_whose_write_is_taken_late");
        }
        rep.count("long_reply_runs");
        rep.max("max_replies_owed_to_one_chain", case.replies.len() as u64);
        check(&case, &mut rep);
        if case.replies.len() >= 2 && rng.chance(1, 5) {
            let k = rng.range(1, case.replies.len() - 1);
            check_left_early(&case, k, &mut rep);
        }
    }
    // big chains: the calls of one chain add up to tens or hundreds of KiB and must still go out in one write
    let nbig = if miri { 0 } else { cfg.n(24, 400) };
    for k in 0..nbig {
        let n = rng.range(1, 5);
        let kinds: Vec<Kind> = (0..n).map(|_| *rng.pick(&[Kind::Plain, Kind::Oneway, Kind::More])).collect();
        let pad = *rng.pick(&[9_000usize, 17_000, 33_000, 40_000, 66_000, 140_000]) + rng.below(300);
        let mut r2 = rng.clone();
        let replies = script_for(&kinds, &mut |m| r2.below(m));
        rng = r2;
        let owed_len: usize = replies.iter().map(|r| r.bytes().len()).sum();
        let case = Case { kinds, replies, trailing: vec![], cuts: random_cuts(&mut rng, owed_len, 3), trailing_later: true, cancel_next: false, pendings: 0, history: if k % 2 == 0 { 0 } else { rng.range(1, 10) as u8 }, pad, second_chain: false, wpp: 0 };
        rep.count("big_chains");
        rep.max("max_bytes_of_one_chain", case.kinds.len() as u64 * pad as u64);
        check(&case, &mut rep);
    }
    rep.exhaustive = !miri;
    rep
}

//! C17 — buffers are bounded: oversized traffic is refused, smaller traffic accepted.
//!
//! Runs in two builds: production limit (100 MiB; a few heavy cases) and the hook-lowered limit
//! (`--cfg zlink_verif_small_buf`, 64 KiB; boundary sweeps in both directions).

use crate::alloc;
use crate::c03::{filler, filler_varied, FILLER_MIN};
use crate::cfg::Cfg;
use serde_json::json;
use vnet::{new_wire, Report, Rx, VSocket};
use zlink_core::{Connection, Error};

#[cfg(zlink_verif)]
fn limits() -> (usize, usize) {
    zlink_core::verif::buffer_limits()
}
#[cfg(not(zlink_verif))]
fn limits() -> (usize, usize) {
    (100 * 1024 * 1024, 256)
}

const FRAME_FIXED: usize = 40;

/// A valid `call<Value>` frame of exactly `len` bytes (len >= 40), cheap to build.
fn frame_of(len: usize) -> Vec<u8> {
    let pre = b"{\"method\":\"v.Big\",\"parameters\":{\"t\":\"";
    let suf = b"\"}}";
    let mut v = Vec::with_capacity(len + 1);
    v.extend_from_slice(pre);
    v.resize(len - suf.len(), b'x');
    v.extend_from_slice(suf);
    assert_eq!(v.len(), len);
    assert_eq!(pre.len() + suf.len(), FRAME_FIXED);
    v
}

#[derive(Debug, PartialEq)]
enum In {
    Accepted,
    Overflow,
    Other(String),
}

struct InRes {
    outcome: In,
    max_buf: usize,
    peak_heap_over_baseline: usize,
    content_ok: bool,
}

/// Deliver `data` in chunks of the given sizes (cycled), then idle. One `receive_call`.
fn inbound(data: Vec<u8>, chunk_sizes: &[usize], expect_len: Option<usize>) -> InRes {
    let wire = new_wire(0);
    {
        let mut w = wire.borrow_mut();
        let mut off = 0;
        let mut i = 0;
        if chunk_sizes.len() == 1 && chunk_sizes[0] >= data.len() {
            w.push(Rx::Bytes(data));
        } else {
            while off < data.len() {
                let n = chunk_sizes[i % chunk_sizes.len()].max(1).min(data.len() - off);
                w.push(Rx::Bytes(data[off..off + n].to_vec()));
                off += n;
                i += 1;
            }
            drop(data);
        }
    }
    let base = alloc::current();
    alloc::reset_peak();
    let mut conn = Connection::new(VSocket(wire.clone()));
    #[allow(unused_assignments)]
    let mut max_buf = 0usize;
    let (outcome, content_ok) = {
        let fut = conn.receive_call::<serde_json::Value>();
        let mut fut = core::pin::pin!(fut);
        match vnet::poll_once(fut.as_mut()) {
            core::task::Poll::Ready(Ok(c)) => {
                let ok = match expect_len {
                    Some(l) => c.method()["parameters"]["t"].as_str().map(|s| s.len() + FRAME_FIXED == l && s.bytes().all(|b| b == b'x')).unwrap_or(false),
                    None => true,
                };
                (In::Accepted, ok)
            }
            core::task::Poll::Ready(Err(Error::BufferOverflow)) => (In::Overflow, true),
            core::task::Poll::Ready(Err(e)) => (In::Other(format!("{e:?}")), true),
            core::task::Poll::Pending => (In::Other("pending (waiting for more bytes)".into()), true),
        }
    };
    #[cfg(zlink_verif)]
    {
        max_buf = conn.read().verif_state().2;
    }
    let _ = &mut max_buf;
    let peak = alloc::peak().saturating_sub(base);
    InRes { outcome, max_buf, peak_heap_over_baseline: peak, content_ok }
}

fn check_inbound(rep: &mut Report, total: usize, terminated: bool, chunks: &[usize], limit: usize, step: usize, label: &str) {
    // "never a panic" is part of the oracle: a panic inside zlink is a violation, not a dead shard
    if let Err(p) = vnet::catch(|| check_inbound_inner(rep, total, terminated, chunks, limit, step, label)) {
        rep.violation("C17/panic-while-receiving", format!("{p}; wire bytes {total}, terminated {terminated}, chunks {:?}", &chunks[..chunks.len().min(12)]), json!({"monitor": "c17", "dir": "in", "wire_bytes": total, "terminated": terminated, "chunks": chunks, "limit": limit, "build": label}));
    }
}

fn check_inbound_inner(rep: &mut Report, total: usize, terminated: bool, chunks: &[usize], limit: usize, step: usize, label: &str) {
    // `total` = bytes on the wire for this frame: frame bytes + NUL if terminated.
    let frame_len = if terminated { total - 1 } else { total };
    let mut data = if frame_len >= FRAME_FIXED { frame_of(frame_len) } else { vec![b'7'; frame_len] };
    if terminated {
        data.push(0);
    }
    let r = inbound(data, chunks, if terminated && frame_len >= FRAME_FIXED { Some(frame_len) } else { None });
    rep.eval(((total as u64) << 20) ^ (chunks.iter().fold(terminated as u64, |h, c| h.wrapping_mul(31).wrapping_add(*c as u64))));
    let replay = json!({"monitor": "c17", "dir": "in", "wire_bytes": total, "terminated": terminated, "chunks": chunks, "limit": limit, "build": label});
    let must_accept = terminated && total < limit && frame_len >= FRAME_FIXED;
    // a frame larger than the limit must be refused (2 bytes of slack for how an implementation counts the
    // terminator and its end marker); the buffer itself may be one growth step larger than the limit (hook)
    let must_overflow = total > limit + 2; // whether or not a terminator is somewhere beyond
    match (&r.outcome, must_accept, must_overflow) {
        (In::Accepted, _, false) if terminated => {
            if !r.content_ok {
                rep.violation("C17/inbound-accepted-frame-content-damaged", format!("{total} wire bytes"), replay.clone());
            }
            rep.count("inbound_accepted");
        }
        (In::Overflow, false, _) => rep.count("inbound_overflow_reported"),
        (In::Overflow, true, _) => rep.violation("C17/inbound-frame-below-limit-refused", format!("{total} wire bytes < limit {limit}"), replay.clone()),
        (In::Accepted, _, _) => rep.violation("C17/inbound-oversized-frame-accepted", format!("{total} wire bytes, limit {limit}"), replay.clone()),
        (In::Other(e), _, true) => rep.violation("C17/inbound-no-overflow-error-beyond-limit", format!("{total} wire bytes >= limit {limit} + step: {e}"), replay.clone()),
        (In::Other(e), true, _) => rep.violation("C17/inbound-frame-below-limit-not-delivered", format!("{total} wire bytes: {e}"), replay.clone()),
        (In::Other(_), false, false) => {
            // unterminated and still below limit+step, or tiny non-JSON frame: waiting / decode error are fine
            rep.count("inbound_other_in_grey_zone");
        }
    }
    if cfg!(zlink_verif) && r.max_buf > limit + step {
        rep.violation("C17/receive-buffer-grew-beyond-limit-plus-step", format!("buffer length {} > {limit}+{step}", r.max_buf), replay.clone());
    }
    rep.max("max_receive_buffer_len", r.max_buf as u64);
    rep.max("max_peak_heap_over_baseline", r.peak_heap_over_baseline as u64);
    // memory must stay within a constant factor of the limit (Vec doubling + moving realloc = 3x)
    let decoded = if r.outcome == In::Accepted { 2 * total } else { 0 };
    if r.peak_heap_over_baseline > 3 * (limit + step) + (1 << 20) + decoded {
        // `decoded`: an accepted frame is also materialised as the decoded value by the caller
        rep.violation("C17/memory-grew-beyond-bound", format!("peak heap {} for limit {limit}", r.peak_heap_over_baseline), replay);
    }
}

/// A pipelining peer: `nsmall` ordinary frames and then a frame of `total` wire bytes (terminated or not),
/// cut into chunks that do NOT respect the frame boundaries, so that the beginning of the big frame arrives
/// in the same read as the end of the small ones.
fn check_inbound_burst(rep: &mut Report, nsmall: usize, small_len: usize, total: usize, terminated: bool, chunks: &[usize], limit: usize, step: usize, label: &str) {
    let replay = json!({"monitor": "c17", "dir": "burst", "nsmall": nsmall, "small_len": small_len, "wire_bytes": total, "terminated": terminated, "chunks": chunks, "limit": limit, "build": label});
    let r = vnet::catch(|| {
        let mut data = Vec::new();
        for _ in 0..nsmall {
            data.extend(frame_of(small_len));
            data.push(0);
        }
        let frame_len = if terminated { total - 1 } else { total };
        data.extend(frame_of(frame_len.max(FRAME_FIXED)));
        if terminated {
            data.push(0);
        }
        let wire = new_wire(0);
        {
            let mut w = wire.borrow_mut();
            let (mut off, mut i) = (0, 0);
            while off < data.len() {
                let n = chunks[i % chunks.len()].max(1).min(data.len() - off);
                w.push(Rx::Bytes(data[off..off + n].to_vec()));
                off += n;
                i += 1;
            }
        }
        let mut conn = Connection::new(VSocket(wire.clone()));
        let mut outcomes = Vec::new();
        for _ in 0..nsmall + 1 {
            let fut = conn.receive_call::<serde_json::Value>();
            let mut fut = core::pin::pin!(fut);
            outcomes.push(match vnet::poll_once(fut.as_mut()) {
                core::task::Poll::Ready(Ok(c)) => (In::Accepted, c.method()["parameters"]["t"].as_str().map(|s| s.len() + FRAME_FIXED).unwrap_or(0)),
                core::task::Poll::Ready(Err(Error::BufferOverflow)) => (In::Overflow, 0),
                core::task::Poll::Ready(Err(e)) => (In::Other(format!("{e:?}")), 0),
                core::task::Poll::Pending => (In::Other("pending (waiting for more bytes)".into()), 0),
            });
        }
        #[allow(unused_mut)]
        let mut max_buf = 0usize;
        #[cfg(zlink_verif)]
        {
            max_buf = conn.read().verif_state().2;
        }
        (outcomes, max_buf)
    });
    rep.eval(((total as u64) << 20) ^ ((nsmall as u64) << 50) ^ (small_len as u64) << 8 ^ (chunks.iter().fold(terminated as u64, |h, c| h.wrapping_mul(31).wrapping_add(*c as u64))) ^ 0xb0);
    rep.count("inbound_burst_cases");
    let (outcomes, max_buf) = match r {
        Err(p) => {
            rep.violation("C17/panic-while-receiving", format!("{p}; burst of {nsmall} small frames then {total} wire bytes"), replay);
            return;
        }
        Ok(x) => x,
    };
    if cfg!(zlink_verif) && max_buf > limit + step {
        rep.violation("C17/receive-buffer-grew-beyond-limit-plus-step", format!("buffer length {max_buf} > {limit}+{step}"), replay.clone());
    }
    let burst_total = nsmall * (small_len + 1) + total;
    // the small frames in front: each smaller than the limit, so each must be delivered - unless the whole
    // burst is so large that the receive buffer overflows before anything can be handed out (grey)
    for (k, (o, l)) in outcomes[..nsmall].iter().enumerate() {
        // what can still be sitting in the receive buffer together with this frame
        let burst_total = (nsmall - k) * (small_len + 1) + total;
        match o {
            In::Accepted if *l == small_len => {}
            In::Accepted => {
                rep.violation("C17/inbound-accepted-frame-content-damaged", format!("small frame #{k} of the burst came back with length {l}, sent {small_len}"), replay.clone());
                return;
            }
            In::Overflow if burst_total >= limit => {
                rep.count("inbound_burst_refused_as_a_whole");
                return;
            }
            // zlink hands a frame out only once everything read so far ends on a frame boundary (DESIGN 6.3):
            // while the unterminated frame behind it is still growing below the limit, waiting is legitimate
            In::Other(e) if !terminated && burst_total < limit + step && e.starts_with("pending") => {
                rep.count("inbound_burst_waiting_for_the_unterminated_frame");
                return;
            }
            other => {
                rep.violation("C17/inbound-frame-below-limit-not-delivered", format!("small frame #{k} ({small_len} bytes) in front of a {total}-byte frame: {other:?}"), replay.clone());
                return;
            }
        }
    }
    let must_overflow = total > limit + 2;
    let must_accept = terminated && burst_total < limit;
    match &outcomes[nsmall].0 {
        In::Accepted if terminated && !must_overflow => rep.count("inbound_accepted"),
        In::Accepted => rep.violation("C17/inbound-oversized-frame-accepted", format!("{total} wire bytes behind {nsmall} small frames, limit {limit}"), replay),
        In::Overflow if !must_accept => rep.count("inbound_overflow_reported"),
        In::Overflow => rep.violation("C17/inbound-frame-below-limit-refused", format!("{total} wire bytes behind {nsmall} small frames: the whole burst ({burst_total} bytes) is below the limit {limit}"), replay),
        In::Other(e) if must_overflow => rep.violation("C17/inbound-no-overflow-error-beyond-limit", format!("{total} wire bytes (>= limit {limit} + step) behind {nsmall} small frames of {small_len} bytes in the same reads: {e}"), replay),
        In::Other(e) if must_accept => rep.violation("C17/inbound-frame-below-limit-not-delivered", format!("{total} wire bytes behind {nsmall} small frames: {e}"), replay),
        In::Other(_) => rep.count("inbound_other_in_grey_zone"),
    }
}

/// Outbound at the production limit: a batch of small calls is enqueued until `target` bytes are pending (far below the
/// limit, far above any power of two a growth policy may stumble over), every one of them must be accepted; one flush
/// then hands all of them to the transport in one write. (A single message of that size cannot be tried: encoding
/// restarts at every growth step.)
fn check_outbound_batch(rep: &mut Report, target: usize, limit: usize) {
    rep.eval(0xba7c4 ^ target as u64);
    rep.count("outbound_batches_at_the_production_limit");
    let replay = json!({"monitor": "c17", "dir": "out-batch", "target": target, "limit": limit});
    let r = vnet::catch(|| -> Result<(), (String, String)> {
        let wire = new_wire(0);
        let mut conn = Connection::new(VSocket(wire.clone()));
        let f = filler(2000);
        let mut one = serde_json::to_vec(&f).unwrap();
        one.push(0);
        let mut n = 0usize;
        while (n + 1) * one.len() < target {
            if let Err(e) = conn.enqueue_call(&f) {
                return Err(("C17/outbound-message-below-limit-refused".into(), format!("call #{n} of {} bytes refused with {e:?} while {} bytes were pending (limit {limit})", one.len(), n * one.len())));
            }
            n += 1;
        }
        vnet::block_on(conn.flush(), 4).ok_or_else(|| ("C17/panic-while-sending".to_string(), "flush stalled".to_string()))?.map_err(|e| ("C17/outbound-message-below-limit-refused".to_string(), format!("flush of {} pending bytes: {e:?}", n * one.len())))?;
        let w = wire.borrow();
        if w.writes.len() != 1 || w.writes[0].len() != n * one.len() {
            return Err(("C17/accepted-send-did-not-issue-one-write".into(), format!("{} writes of {:?} bytes for {n} pending calls of {} bytes", w.writes.len(), w.writes.iter().map(|x| x.len()).collect::<Vec<_>>(), one.len())));
        }
        for k in (0..n).step_by(997).chain([n - 1]) {
            if w.writes[0][k * one.len()..(k + 1) * one.len()] != one[..] {
                return Err(("C17/outbound-frame-corrupted".into(), format!("call #{k} of the batch differs from what was submitted")));
            }
        }
        Ok(())
    });
    match r {
        Err(p) => rep.violation("C17/panic-while-sending", format!("{p}; batch of {target} bytes"), replay),
        Ok(Err((sig, d))) => rep.violation(&sig, d, replay),
        Ok(Ok(())) => rep.count("outbound_batches_ok"),
    }
}

/// A connection with a past: `first` messages (frame lengths) are received and consumed one after the other,
/// then a frame of `total` wire bytes arrives. What the earlier traffic left behind (a grown, shrunk or
/// re-used buffer) must not move the limit.
fn check_inbound_history(rep: &mut Report, first: &[usize], total: usize, terminated: bool, chunk: usize, limit: usize, step: usize, label: &str, stray: u8) {
    let replay = json!({"monitor": "c17", "dir": "history", "stray": stray, "first": first, "wire_bytes": total, "terminated": terminated, "chunk": chunk, "limit": limit, "build": label});
    rep.eval(((total as u64) << 20) ^ first.iter().fold(terminated as u64 + 0x4157, |h, c| h.wrapping_mul(31).wrapping_add(*c as u64)) ^ chunk as u64);
    rep.count("inbound_history_cases");
    let r = vnet::catch(|| {
        let wire = new_wire(0);
        let mut conn = Connection::new(VSocket(wire.clone()));
        let push = |data: Vec<u8>| {
            let mut w = wire.borrow_mut();
            let mut off = 0;
            while off < data.len() {
                let n = chunk.max(1).min(data.len() - off);
                w.push(Rx::Bytes(data[off..off + n].to_vec()));
                off += n;
            }
        };
        let recv = |conn: &mut Connection<VSocket>| {
            let fut = conn.receive_call::<serde_json::Value>();
            let mut fut = core::pin::pin!(fut);
            match vnet::poll_once(fut.as_mut()) {
                core::task::Poll::Ready(Ok(c)) => (In::Accepted, c.method()["parameters"]["t"].as_str().map(|s| s.len() + FRAME_FIXED).unwrap_or(0)),
                core::task::Poll::Ready(Err(Error::BufferOverflow)) => (In::Overflow, 0),
                core::task::Poll::Ready(Err(e)) => (In::Other(format!("{e:?}")), 0),
                core::task::Poll::Pending => (In::Other("pending (waiting for more bytes)".into()), 0),
            }
        };
        for (k, l) in first.iter().enumerate() {
            let mut d = frame_of(*l);
            d.push(0);
            // a peer that ends every message (or some) with a second terminator: empty frames carry nothing
            if stray == 1 || (stray == 2 && (k * 7 + l) % 3 == 0) {
                d.push(0);
            }
            push(d);
            let (o, got) = recv(&mut conn);
            if o != In::Accepted || got != *l {
                return Err(format!("earlier message #{k} of {l} bytes: {o:?} (length {got})"));
            }
        }
        let frame_len = if terminated { total - 1 } else { total };
        let mut d = frame_of(frame_len.max(FRAME_FIXED));
        if terminated {
            d.push(0);
        }
        push(d);
        let out = recv(&mut conn);
        #[allow(unused_mut)]
        let mut max_buf = 0usize;
        #[cfg(zlink_verif)]
        {
            max_buf = conn.read().verif_state().2;
        }
        Ok((out, max_buf))
    });
    let ((outcome, got_len), max_buf) = match r {
        Err(p) => {
            rep.violation("C17/panic-while-receiving", format!("{p}; after messages of {first:?} bytes, {total} wire bytes"), replay);
            return;
        }
        Ok(Err(e)) => {
            let below = first.iter().all(|l| l + 1 < limit);
            if below {
                rep.violation("C17/inbound-frame-below-limit-not-delivered", format!("{e}; history {first:?}"), replay);
            }
            return;
        }
        Ok(Ok(x)) => x,
    };
    if cfg!(zlink_verif) && max_buf > limit + step {
        rep.violation("C17/receive-buffer-grew-beyond-limit-plus-step", format!("buffer length {max_buf} > {limit}+{step} after messages of {first:?} bytes"), replay.clone());
    }
    let must_accept = terminated && total < limit;
    let must_overflow = total > limit + 2;
    match &outcome {
        In::Accepted if must_overflow => rep.violation("C17/inbound-oversized-frame-accepted", format!("{total} wire bytes (limit {limit}) on a connection that had received messages of {first:?} bytes before"), replay),
        In::Accepted => {
            if got_len + 1 != total {
                rep.violation("C17/inbound-accepted-frame-content-damaged", format!("{total} wire bytes, decoded length {got_len}"), replay);
            } else {
                rep.count("inbound_accepted");
            }
        }
        In::Overflow if must_accept => rep.violation("C17/inbound-frame-below-limit-refused", format!("{total} wire bytes < limit {limit} on a connection that had received messages of {first:?} bytes before"), replay),
        In::Overflow => rep.count("inbound_overflow_reported"),
        In::Other(e) if must_overflow => rep.violation("C17/inbound-no-overflow-error-beyond-limit", format!("{total} wire bytes on a connection with history {first:?}: {e}"), replay),
        In::Other(e) if must_accept => rep.violation("C17/inbound-frame-below-limit-not-delivered", format!("{total} wire bytes on a connection with history {first:?}: {e}"), replay),
        In::Other(_) => rep.count("inbound_other_in_grey_zone"),
    }
}

fn check_outbound(rep: &mut Report, pos: usize, len: usize, limit: usize, step: usize, label: &str) {
    if let Err(p) = vnet::catch(|| check_outbound_inner(rep, pos, len, limit, step, label)) {
        rep.violation("C17/panic-while-sending", format!("{p}; pos {pos} len {len}"), json!({"monitor": "c17", "dir": "out", "pos": pos, "len": len, "limit": limit, "build": label}));
    }
}

fn check_outbound_inner(rep: &mut Report, pos: usize, len: usize, limit: usize, step: usize, label: &str) {
    // Bring the write position to `pos` with fillers (each <= 20_000 bytes), then enqueue `len`.
    let wire = new_wire(0);
    let mut conn = Connection::new(VSocket(wire.clone()));
    let mut expect = Vec::new();
    let mut p = 0usize;
    while p < pos {
        let mut l = (pos - p - 1).min(20_000);
        if l < FILLER_MIN {
            return; // unreachable position; caller picks valid ones
        }
        // avoid leaving a remainder smaller than a filler
        if pos - p - 1 - l > 0 && pos - p - 1 - l < FILLER_MIN + 1 {
            l -= FILLER_MIN + 1;
        }
        let f = filler(l);
        if conn.enqueue_call(&f).is_err() {
            return;
        }
        expect.extend(serde_json::to_vec(&f).unwrap());
        expect.push(0);
        p += l + 1;
        #[cfg(zlink_verif)]
        if std::env::var_os("ZV_DEBUG").is_some() {
            eprintln!("filler {l}: p={p} state={:?} reflen={}", conn.write().verif_state(), serde_json::to_vec(&f).unwrap().len());
        }
    }
    assert_eq!(p, pos);
    // the message under test: a plain padded string, or a message whose tail is made of other kinds of values
    // (so that something else than a string straddles the buffer end / the limit), or one that is mostly a
    // byte array (two to four characters per element: any estimate of its size is far from its real size);
    // submitted with enqueue_call or - every third case - with send_call behind whatever is already queued
    let via_send = (pos + 2 * len) % 3 == 0;
    let kind = (pos + len) % 4;
    let varied = if kind == 1 { filler_varied(len) } else { None };
    let bytes_msg = if kind == 3 { filler_bytes(len) } else { None };
    macro_rules! submit {
        ($f:expr, $counter:expr) => {{
            let f = $f;
            if let Some(c) = $counter {
                rep.count(c);
            }
            let reference = serde_json::to_vec(&f).unwrap();
            let writes_before = wire.borrow().writes.len();
            let res = if via_send {
                rep.count("outbound_messages_submitted_with_send_call");
                vnet::block_on(conn.send_call(&f), 4).unwrap()
            } else {
                conn.enqueue_call(&f)
            };
            if res.is_err() && wire.borrow().writes.len() != writes_before {
                let w = wire.borrow();
                rep.violation(
                    "C17/refused-message-wrote-to-the-transport",
                    format!("a {} of {len} bytes behind {pos} queued bytes was refused with {res:?} and made {} write call(s) of {:?} bytes", if via_send { "send_call" } else { "enqueue_call" }, w.writes.len() - writes_before, w.writes[writes_before..].iter().map(|x| x.len()).collect::<Vec<_>>()),
                    json!({"monitor": "c17", "dir": "out", "pos": pos, "len": len, "limit": limit, "build": label}),
                );
                return;
            }
            if via_send && res.is_ok() {
                // everything queued went out with it, in one write
                let w = wire.borrow();
                if w.writes.len() != writes_before + 1 {
                    rep.violation("C17/accepted-send-did-not-issue-one-write", format!("{} write calls", w.writes.len() - writes_before), json!({"monitor": "c17", "dir": "out", "pos": pos, "len": len, "limit": limit, "build": label}));
                    return;
                }
            }
            return finish_outbound(rep, conn, wire, expect, res, reference, pos, len, limit, step, label, &|c: &mut Connection<VSocket>| if via_send { vnet::block_on(c.send_call(&f), 4).unwrap() } else { c.enqueue_call(&f) });
        }};
    }
    if let Some(f) = varied {
        submit!(f, Some("outbound_messages_with_varied_tail"));
    }
    if let Some(v) = bytes_msg {
        submit!(zlink_core::Call::new(&v), Some("outbound_messages_that_are_mostly_a_byte_array"));
    }
    submit!(filler(len), None::<&str>);
}

/// A call of exactly `len` bytes most of which is a byte array (`serialize_bytes`: `[7,42,255,...]`).
fn filler_bytes(len: usize) -> Option<crate::vals::V> {
    use crate::vals::V;
    let mk = |pad: usize, n: usize| {
        // element values cycle through one-, two- and three-digit numbers
        let bytes: Vec<u8> = (0..n).map(|i| [7u8, 42, 255, 0, 9, 10, 99, 100][i % 8]).collect();
        V::Struct("B", vec![("method", V::Str("b".into())), ("parameters", V::Struct("P", vec![("pad", V::Str("z".repeat(pad))), ("b", V::Bytes(bytes))]))])
    };
    let enc = |v: &V| serde_json::to_vec(&zlink_core::Call::new(v)).unwrap().len();
    let base = enc(&mk(0, 0));
    if len < base + 64 {
        return None;
    }
    // about 90 % of the frame is the array; the string pad makes the length exact
    let mut n = (len - base) * 9 / 10 / 3;
    loop {
        let l = enc(&mk(0, n));
        if l <= len {
            let v = mk(len - l, n);
            debug_assert_eq!(enc(&v), len);
            return Some(v);
        }
        n -= 1 + (l - len) / 4;
    }
}

#[allow(clippy::too_many_arguments)]
fn finish_outbound(
    rep: &mut Report,
    mut conn: Connection<VSocket>,
    wire: vnet::WireRef,
    mut expect: Vec<u8>,
    res: zlink_core::Result<()>,
    reference: Vec<u8>,
    pos: usize,
    len: usize,
    limit: usize,
    step: usize,
    label: &str,
    again: &dyn Fn(&mut Connection<VSocket>) -> zlink_core::Result<()>,
) {
    rep.eval(((pos as u64) << 24) ^ len as u64 ^ 0x77);
    let replay = json!({"monitor": "c17", "dir": "out", "pos": pos, "len": len, "limit": limit, "build": label});
    let end = pos + len + 1;
    let must_accept = end < limit;
    let must_refuse = end > limit + step;
    let mut _blen = 0usize;
    #[cfg(zlink_verif)]
    {
        _blen = conn.write().verif_state().1;
        if _blen > limit + step {
            rep.violation("C17/send-buffer-grew-beyond-limit-plus-step", format!("buffer length {_blen}"), replay.clone());
        }
        rep.max("max_send_buffer_len", _blen as u64);
    }
    match res {
        Ok(()) => {
            if must_refuse {
                rep.violation("C17/outbound-oversized-message-accepted", format!("pos {pos} + len {len} + 1 = {end} > limit {limit} + step"), replay.clone());
                return;
            }
            expect.extend(reference);
            expect.push(0);
            rep.count("outbound_accepted");
        }
        Err(Error::BufferOverflow) => {
            if must_accept {
                rep.violation("C17/outbound-message-below-limit-refused", format!("pos {pos} + len {len} + 1 = {end} < limit {limit}"), replay.clone());
                return;
            }
            rep.count("outbound_overflow_reported");
            // a refused message stays refused: retrying it (or anything at least as large) must fail the same
            // way every time, and must not make the buffer creep beyond the limit
            for attempt in 0..6 {
                match again(&mut conn) {
                    Err(Error::BufferOverflow) => {}
                    other => {
                        rep.violation("C17/refused-message-accepted-when-retried", format!("retry #{attempt} of a message refused with BufferOverflow returned {other:?} (pos {pos} len {len} limit {limit})"), replay.clone());
                        return;
                    }
                }
                #[cfg(zlink_verif)]
                {
                    let b = conn.write().verif_state().1;
                    if b > limit + step {
                        rep.violation("C17/send-buffer-grew-beyond-limit-plus-step", format!("buffer length {b} after {} refused attempts", attempt + 2), replay.clone());
                        return;
                    }
                }
            }
            rep.count("refused_messages_retried");
        }
        Err(e) => {
            rep.violation("C17/outbound-wrong-error-kind", format!("{e:?}"), replay.clone());
            return;
        }
    }
    // refused or not: earlier messages are flushed intact in one write and the connection is usable
    let _ = vnet::block_on(conn.flush(), 4).unwrap();
    let small = filler(FILLER_MIN + 1);
    let again = vnet::block_on(conn.send_call(&small), 4).unwrap();
    if again.is_err() {
        rep.violation("C17/connection-unusable-after-refused-message", format!("{again:?}"), replay.clone());
        return;
    }
    expect.extend(serde_json::to_vec(&small).unwrap());
    expect.push(0);
    let got = wire.borrow().written();
    if got != expect {
        let at = got.iter().zip(expect.iter()).position(|(a, b)| a != b).unwrap_or(got.len().min(expect.len()));
        rep.violation("C17/outbound-bytes-differ-around-limit", format!("{} bytes written, {} expected, first difference at {at}", got.len(), expect.len()), replay);
    }
}

pub fn run(cfg: &Cfg) -> Report {
    let mut rep = Report::new("C17", "c17");
    let (limit, step) = limits();
    let small = limit <= 1 << 20;
    let label = if small { "small-limit" } else { "production-limit" };
    let miri = cfg.layer.starts_with("miri");
    rep.add(&format!("max_limit_in_effect"), limit as u64);
    if let Some(r) = &cfg.replay {
        if r["limit"].as_u64() != Some(limit as u64) {
            rep.notes.push(format!("replay recorded limit {} but this build has {limit}", r["limit"]));
            return rep;
        }
        if r["dir"] == "history" {
            let first: Vec<usize> = r["first"].as_array().unwrap().iter().map(|c| c.as_u64().unwrap() as usize).collect();
            check_inbound_history(&mut rep, &first, r["wire_bytes"].as_u64().unwrap() as usize, r["terminated"].as_bool().unwrap(), r["chunk"].as_u64().unwrap() as usize, limit, step, label, r["stray"].as_u64().unwrap_or(0) as u8);
        } else if r["dir"] == "burst" {
            let chunks: Vec<usize> = r["chunks"].as_array().unwrap().iter().map(|c| c.as_u64().unwrap() as usize).collect();
            check_inbound_burst(&mut rep, r["nsmall"].as_u64().unwrap() as usize, r["small_len"].as_u64().unwrap() as usize, r["wire_bytes"].as_u64().unwrap() as usize, r["terminated"].as_bool().unwrap(), &chunks, limit, step, label);
        } else if r["dir"] == "in" {
            let chunks: Vec<usize> = r["chunks"].as_array().unwrap().iter().map(|c| c.as_u64().unwrap() as usize).collect();
            check_inbound(&mut rep, r["wire_bytes"].as_u64().unwrap() as usize, r["terminated"].as_bool().unwrap(), &chunks, limit, step, label);
        } else {
            check_outbound(&mut rep, r["pos"].as_u64().unwrap() as usize, r["len"].as_u64().unwrap() as usize, limit, step, label);
        }
        return rep;
    }
    let mut rng = cfg.rng(171);

    if !small {
        // ---- production limit: a handful of heavy inbound cases --------------------------------
        let cases: Vec<(usize, bool, Vec<usize>)> = vec![
            (limit + 2 * step, false, vec![65536, 1, 255, 256, 257, 4096]),
            (limit + 2 * step, true, vec![1 << 20]),
            (limit - 2, true, vec![65536, 3, 256]),
            (limit - 1, true, vec![1 << 16]),
            (limit + step, false, vec![777]),
            (limit / 2 + 13, true, vec![257]),
        ];
        for (i, (total, term, chunks)) in cases.into_iter().enumerate() {
            if cfg.mine(i as u64) && (cfg.thorough || i < 4) {
                check_inbound(&mut rep, total, term, &chunks, limit, step, label);
                rep.sample(8, || json!({"direction": "inbound", "wire_bytes": total, "terminated": term, "limit": limit}));
            }
        }
        if cfg.mine(5) {
            check_inbound_burst(&mut rep, 3, 100, limit + 2 * step, false, &[1 << 20], limit, step, label);
        }
        if cfg.mine(7) {
            check_outbound_batch(&mut rep, if cfg.thorough { limit - 4096 } else { limit / 100 * 72 }, limit);
        }
        if cfg.mine(6) && cfg.thorough {
            check_inbound_burst(&mut rep, 1, 300, limit + 2 * step, true, &[65536, 4096], limit, step, label);
        }
        // connections with a past, at the production limit: one or two big messages were received before the
        // frame at the limit arrives (buffers never shrink today; whatever a build does with a big drained
        // buffer must not move the limit)
        let hist: Vec<(Vec<usize>, usize, bool)> = vec![
            (vec![1_310_975], limit + 100, true),
            (vec![3 * 1024 * 1024 + 511, 700], limit + 3, false),
            (vec![2_097_407], limit - 1, true),
            (vec![5_000_191, 1_500_031], limit + 100, true),
            (vec![1_048_831], limit + 200, false),
            (vec![70_000, 9_000_447], limit + 64, true),
        ];
        for (i, (first, total, term)) in hist.into_iter().enumerate() {
            if cfg.mine(8 + i as u64) && (cfg.thorough || i < 3) {
                check_inbound_history(&mut rep, &first, total, term, 1 << 20, limit, step, label, 0);
            }
        }
        // outbound at the production limit is practically unreachable (quadratic re-serialisation);
        // one large-but-affordable message checks the growth path at scale
        if cfg.mine(7) {
            check_outbound(&mut rep, 0, 3_000_000, limit, step, label);
        }
        // growth-step boundaries far below the limit, both directions
        let n = cfg.n(400, 6_000);
        for _ in 0..n {
            let k = rng.range(1, 40);
            let total = k * step + rng.range(0, 6) - 3;
            let chunks = match rng.below(4) {
                0 => vec![total],
                1 => vec![1],
                2 => vec![255, 256, 257],
                _ => vec![rng.range(1, 600), rng.range(1, 600)],
            };
            check_inbound(&mut rep, total.max(50), true, &chunks, limit, step, label);
            let pos = if rng.chance(1, 2) { 0 } else { rng.range(FILLER_MIN + 1, 3000) };
            let len = (k * step + rng.range(0, 6)).saturating_sub(3 + pos % step).max(FILLER_MIN);
            check_outbound(&mut rep, pos, len, limit, step, label);
        }
        return rep;
    }

    // ---- small limit: sweeps -------------------------------------------------------------------
    if miri {
        for (i, total) in [limit - 2, limit - 1, limit, limit + step - 1, limit + step, limit + 2 * step].into_iter().enumerate() {
            if cfg.mine(i as u64) {
                check_inbound(&mut rep, total, true, &[total], limit, step, label);
                check_inbound(&mut rep, total, false, &[4096], limit, step, label);
            }
        }
        // (outbound at the limit is left to the native and ASan layers: encoding restarts at every growth step, which
        // is quadratic in the message size - a single 64 KiB message takes an interpreter longer than a shard may run)
        for (i, d) in [-2isize, 2].into_iter().enumerate() {
            if cfg.mine(i as u64) {
                let len = (2048isize + d) as usize;
                check_outbound(&mut rep, 0, len, limit, step, label);
            }
        }
        return rep;
    }
    // inbound: every wire size; chunkings by size class to keep the sweep affordable
    let top = limit + 2 * step + 2;
    let stride = if cfg.thorough { 1 } else { 1 };
    let mut total = FRAME_FIXED + 1;
    while total <= top {
        if cfg.mine(total as u64) {
            let near_step = total % step <= 2 || total % step >= step - 2;
            let near_limit = total + 2 * step + 8 >= limit;
            check_inbound(&mut rep, total, true, &[total], limit, step, label);
            if near_step || near_limit || cfg.thorough {
                check_inbound(&mut rep, total, true, &[255, 256, 257], limit, step, label);
                check_inbound(&mut rep, total, false, &[total], limit, step, label);
                let r = [rng.range(1, 700), rng.range(1, 70), rng.range(1, 5000)];
                check_inbound(&mut rep, total, true, &r, limit, step, label);
            }
            if near_limit && (cfg.thorough || total % 7 == 0) {
                check_inbound(&mut rep, total, true, &[1], limit, step, label);
                check_inbound(&mut rep, total, false, &[1, 2, 3], limit, step, label);
            }
        }
        total += stride;
    }
    rep.sample(8, || json!({"direction": "inbound", "wire_bytes": "1..=limit+2*step+2 (every size)", "limit": limit, "chunkings": ["whole", "255/256/257", "random", "1-byte near the limit"]}));
    // connections with a past (lowered limit): earlier messages of assorted sizes, then a frame around the limit
    for _ in 0..cfg.n(600, 20_000) {
        let nf = rng.range(1, 3);
        let first: Vec<usize> = (0..nf).map(|_| *rng.pick(&[41usize, 255, 256, 1000, 4097, 20_001, 33_023, 60_000, 65_000])).map(|l| l.min(limit - 2)).collect();
        let total = match rng.below(5) {
            0 => limit + 3 + rng.below(300),
            1 => limit - 1 - rng.below(3),
            2 => limit + rng.below(3),
            3 => limit + step + rng.below(600),
            _ => rng.range(FRAME_FIXED + 2, limit),
        };
        let chunk = *rng.pick(&[1usize << 20, 4096, 257, 1000]);
        check_inbound_history(&mut rep, &first, total, rng.chance(2, 3), chunk, limit, step, label, rng.below(3) as u8);
    }
    // a long past (lowered limit): dozens of messages that add up to several times the limit - each of them, or some,
    // followed by a stray terminator - then a frame around the limit: what a connection has carried in total must not
    // count against the next frame
    for _ in 0..cfg.n(160, 6000) {
        let nf = rng.range(30, 90);
        let first: Vec<usize> = (0..nf).map(|_| rng.range(600, 4200).min(limit - 2)).collect();
        let total = match rng.below(4) {
            0 => limit - 1 - rng.below(3),
            1 => limit + step + rng.below(600),
            _ => rng.range(FRAME_FIXED + 2, limit),
        };
        let chunk = *rng.pick(&[1usize << 20, 4096, 257, 1000]);
        rep.count("inbound_long_history_cases");
        check_inbound_history(&mut rep, &first, total, true, chunk, limit, step, label, rng.below(3) as u8);
    }
    // inbound bursts: small frames in front of a big one, chunked across the frame boundaries
    let nb = cfg.n(1500, 40_000);
    for _ in 0..nb {
        let nsmall = rng.range(1, 4);
        let small_len = *rng.pick(&[41usize, 100, 254, 255, 256, 300, 700]);
        let total = match rng.below(6) {
            0 => limit + step + rng.range(0, 2 * step),
            1 => limit + 2 * step + rng.range(0, 3000),
            2 => limit - rng.range(1, 3 * step),
            3 => limit.saturating_sub(nsmall * (small_len + 1) + rng.range(1, 600)),
            4 => limit + rng.range(0, step),
            _ => rng.range(FRAME_FIXED + 2, limit),
        };
        let chunks = match rng.below(5) {
            0 => vec![usize::MAX / 2],
            1 => vec![4096],
            2 => vec![1000, 37],
            3 => vec![rng.range(200, 9000), rng.range(1, 300)],
            _ => vec![255, 256, 257],
        };
        check_inbound_burst(&mut rep, nsmall, small_len, total.max(FRAME_FIXED + 2), rng.chance(1, 2), &chunks, limit, step, label);
    }
    // outbound: (pos, len) with pos+len+1 within +-3 of every multiple of the step, and the whole
    // last 2 KiB before the limit (quick); all end positions (thorough)
    let mut idx = 0u64;
    let mut ends: Vec<usize> = Vec::new();
    let mut m = step;
    while m <= limit + 2 * step {
        for d in -3isize..=3 {
            ends.push((m as isize + d) as usize);
        }
        m += step;
    }
    for e in limit - 2048..=limit + 2 * step + 4 {
        ends.push(e);
    }
    if cfg.thorough {
        ends.extend((FILLER_MIN + 2..limit).step_by(5));
    }
    ends.sort_unstable();
    ends.dedup();
    for end in ends {
        idx += 1;
        if !cfg.mine(idx) {
            continue;
        }
        // three start positions: empty buffer, a small prefix, and a prefix that leaves a short tail
        let mut starts = vec![0usize];
        if end > 2000 {
            starts.push(rng.range(FILLER_MIN + 1, 900));
            starts.push(end - 1 - rng.range(FILLER_MIN, 600));
        }
        for pos in starts {
            if end < pos + 1 + FILLER_MIN {
                continue;
            }
            let len = end - 1 - pos;
            if pos != 0 && pos < FILLER_MIN + 1 {
                continue;
            }
            check_outbound(&mut rep, pos, len, limit, step, label);
        }
    }
    rep.sample(8, || json!({"direction": "outbound", "end_positions": "every multiple of 256 +-3 and the last 2 KiB before the limit .. limit+2*step", "limit": limit}));
    rep
}

//! Server world shared by C08, C09, C10 and C18: `Server::run` over the virtual listener with a
//! deterministic test service, driven step by step by a schedule that is plain data.
//!
//! Everything the oracles use is recorded at the boundary: bytes written to each client's
//! scripted socket, the service's own log of `handle()` invocations, and the schedule events with
//! the logical tick at which each was applied. Nothing inside the server loop is hooked.

use futures_util::Stream;
use serde::{Deserialize, Serialize};
use serde_json::{json, Value};
use std::{
    cell::RefCell,
    collections::{BTreeMap, VecDeque},
    pin::Pin,
    rc::Rc,
    task::{Context, Poll},
};
use vnet::{new_listener, new_wire, ListenRef, Rx, WireRef};
use zlink_core::{service::MethodReply, Call, Reply, ReplyError, Server, Service};

// ---------------------------------------------------------------------------------------------
// protocol of the test service

#[derive(Debug, Deserialize, Serialize, Clone, PartialEq)]
#[serde(tag = "method", content = "parameters")]
pub enum M<'a> {
    #[serde(rename = "t.Echo")]
    Echo { client: u32, seq: u32, payload: &'a str },
    #[serde(rename = "t.Fail")]
    Fail { client: u32, seq: u32 },
    #[serde(rename = "t.Sub")]
    Sub { client: u32, seq: u32 },
    /// answered with a reply that cannot be encoded
    #[serde(rename = "t.Poison")]
    Poison { client: u32, seq: u32 },
}

/// A value whose encoding always fails (a path that is not valid UTF-8, a map with a key JSON cannot spell ...).
#[derive(Debug)]
pub struct Unencodable;
impl Serialize for Unencodable {
    fn serialize<S: serde::Serializer>(&self, _: S) -> Result<S::Ok, S::Error> {
        Err(serde::ser::Error::custom("this value has no encoding"))
    }
}

#[derive(Debug, Serialize)]
pub struct EchoReply<'s> {
    pub client: u32,
    pub seq: u32,
    pub payload: &'s str,
    #[serde(skip_serializing_if = "Option::is_none")]
    pub attachment: Option<Unencodable>,
}

#[derive(Debug, Serialize, Clone)]
pub struct Item {
    pub client: u32,
    pub seq: u32,
    pub n: u32,
}

#[derive(Debug, ReplyError, PartialEq, Clone)]
#[zlink(interface = "t", crate = "zlink_core")]
pub enum E {
    Failed { client: u32, seq: u32 },
}

#[derive(Debug, Clone, Copy, PartialEq, Eq, Hash)]
pub enum Kind {
    Echo,
    Fail,
    Sub,
    /// the service decides on a reply that cannot be encoded: the call cannot be answered. Whatever the server does
    /// then (zlink gives the connection up), no later answer may take this call's place.
    Poison,
}

/// A call as the harness scripts it.
#[derive(Debug, Clone, PartialEq)]
pub struct CallSpec {
    pub kind: Kind,
    pub seq: u32,
    pub oneway: bool,
    pub more: bool,
    pub payload: String,
}

impl CallSpec {
    pub fn bytes(&self, client: u32) -> Vec<u8> {
        let m = match self.kind {
            Kind::Echo => M::Echo { client, seq: self.seq, payload: &self.payload },
            Kind::Fail => M::Fail { client, seq: self.seq },
            Kind::Sub => M::Sub { client, seq: self.seq },
            Kind::Poison => M::Poison { client, seq: self.seq },
        };
        let c = Call::new(m).set_oneway(self.oneway).set_more(self.more);
        let mut b = serde_json::to_vec(&c).unwrap();
        b.push(0);
        b
    }
    pub fn short(&self) -> String {
        format!(
            "{}{}{}#{}",
            match self.kind {
                Kind::Echo => "echo",
                Kind::Fail => "fail",
                Kind::Sub => "sub",
                Kind::Poison => "poison",
            },
            if self.oneway { "/oneway" } else { "" },
            if self.more { "/more" } else { "" },
            self.seq
        )
    }
}

// ---------------------------------------------------------------------------------------------
// controllable reply stream

thread_local! {
    /// mirror of `Shared::clock` for code that cannot borrow `Shared` (the streams)
    pub static NOW: std::cell::Cell<u64> = const { std::cell::Cell::new(0) };
}

#[derive(Debug, Default)]
pub struct StreamSt {
    pub queue: VecDeque<(u32, Option<bool>)>,
    pub closed: bool,
    pub attached: bool,
    pub dropped: bool,
    pub polls: u64,
    pub taken: u64,
    pub waker: vnet::WakeSlot,
    /// the stream has answered `Ready(None)`
    pub finished: bool,
    /// logical time at which the server took the stream's latest item
    pub last_taken_tick: u64,
    /// polls made after that (the `Stream` contract leaves their outcome open: `futures::stream::unfold` panics,
    /// other streams stay pending for ever; a server must not rely on a reply stream being fused)
    pub polled_after_end: u64,
}
pub type StreamRef = Rc<RefCell<StreamSt>>;

#[derive(Debug)]
pub struct CtlStream {
    client: u32,
    seq: u32,
    st: StreamRef,
}

impl Stream for CtlStream {
    type Item = Reply<Item>;
    fn poll_next(self: Pin<&mut Self>, cx: &mut Context<'_>) -> Poll<Option<Self::Item>> {
        let mut st = self.st.borrow_mut();
        st.polls += 1;
        if st.finished {
            st.polled_after_end += 1;
            return Poll::Ready(None);
        }
        if let Some((n, c)) = st.queue.pop_front() {
            st.taken += 1;
            st.last_taken_tick = NOW.with(|c| c.get());
            return Poll::Ready(Some(
                Reply::new(Some(Item { client: self.client, seq: self.seq, n })).set_continues(c),
            ));
        }
        if st.closed {
            st.finished = true;
            Poll::Ready(None)
        } else {
            st.waker.register(cx);
            Poll::Pending
        }
    }
}

impl Drop for CtlStream {
    fn drop(&mut self) {
        self.st.borrow_mut().dropped = true;
    }
}

// ---------------------------------------------------------------------------------------------
// schedule

#[derive(Debug, Clone, PartialEq)]
pub enum Ev {
    Nop,
    /// Release connection `c` to the listener.
    Accept(usize),
    /// Deliver the next scripted chunk of connection `c` to its socket.
    Deliver(usize),
    /// Orderly end of stream on `c`.
    Eof(usize),
    /// Transport read error on `c`.
    RdErr(usize),
    /// The service-side stream (client, seq) produces item `n` with the given continues flag.
    Item { client: u32, seq: u32, n: u32, continues: Option<bool> },
    /// The service-side stream (client, seq) ends.
    Close { client: u32, seq: u32 },
    Multi(Vec<Ev>),
}

#[derive(Debug, Clone, Copy, PartialEq, Eq)]
pub enum Mode {
    /// Apply, then poll the server until it is quiescent.
    Quiesce,
    /// Apply without polling (happens "at the same time" as the next step).
    Batch,
    /// Applied by the service from inside the next `handle()` invocation, i.e. while the server
    /// is busy with a call (demoted to `Quiesce` if the server goes quiescent first).
    InHandle,
}

#[derive(Debug, Clone, PartialEq)]
pub struct Step {
    pub ev: Ev,
    pub mode: Mode,
}

pub fn ev_json(e: &Ev) -> Value {
    match e {
        Ev::Nop => json!("nop"),
        Ev::Accept(c) => json!({"accept": c}),
        Ev::Deliver(c) => json!({"deliver": c}),
        Ev::Eof(c) => json!({"eof": c}),
        Ev::RdErr(c) => json!({"rderr": c}),
        Ev::Item { client, seq, n, continues } => json!({"item": [client, seq, n, continues]}),
        Ev::Close { client, seq } => json!({"close": [client, seq]}),
        Ev::Multi(v) => json!({"multi": v.iter().map(ev_json).collect::<Vec<_>>()}),
    }
}

pub fn ev_from_json(v: &Value) -> Ev {
    if v.as_str() == Some("nop") {
        return Ev::Nop;
    }
    let o = v.as_object().expect("event object");
    let (k, x) = o.iter().next().expect("event kind");
    let u = |x: &Value| x.as_u64().unwrap() as usize;
    match k.as_str() {
        "accept" => Ev::Accept(u(x)),
        "deliver" => Ev::Deliver(u(x)),
        "eof" => Ev::Eof(u(x)),
        "rderr" => Ev::RdErr(u(x)),
        "item" => Ev::Item { client: u(&x[0]) as u32, seq: u(&x[1]) as u32, n: u(&x[2]) as u32, continues: x[3].as_bool() },
        "close" => Ev::Close { client: u(&x[0]) as u32, seq: u(&x[1]) as u32 },
        "multi" => Ev::Multi(x.as_array().unwrap().iter().map(ev_from_json).collect()),
        _ => panic!("unknown event {k}"),
    }
}

pub fn steps_json(steps: &[Step]) -> Value {
    json!(steps
        .iter()
        .map(|s| json!([ev_json(&s.ev), match s.mode { Mode::Quiesce => "q", Mode::Batch => "b", Mode::InHandle => "h" }]))
        .collect::<Vec<_>>())
}

pub fn steps_from_json(v: &Value) -> Vec<Step> {
    v.as_array()
        .unwrap()
        .iter()
        .map(|s| Step {
            ev: ev_from_json(&s[0]),
            mode: match s[1].as_str().unwrap() {
                "q" => Mode::Quiesce,
                "b" => Mode::Batch,
                _ => Mode::InHandle,
            },
        })
        .collect()
}

// ---------------------------------------------------------------------------------------------
// world

#[derive(Debug, Clone, Default)]
pub struct ConnCfg {
    /// Chunks delivered by successive `Deliver` events.
    pub chunks: Vec<Vec<u8>>,
    pub fail_write_at: Option<usize>,
    pub write_pending_polls: usize,
    pub read_err_kind: u8,
    pub write_err_kind: u8,
}

#[derive(Debug, Clone, Default)]
pub struct WorldCfg {
    pub conns: Vec<ConnCfg>,
    pub steps: Vec<Step>,
    /// Wake-driven execution: after its first poll the server future is polled again only when the
    /// waker it was given has fired (as a runtime would), instead of "until nothing changes".
    pub wake: bool,
    /// Record only the last quiescent point (long histories with thousands of connections).
    pub lean: bool,
    /// Cooperative budget (0 = none): every poll of the server future may make this many transport operations; then
    /// every transport answers `Pending` until the next poll (see `vnet::Wire::coop`).
    pub coop: u32,
    /// The service's `handle()` suspends this many times (yields to the executor) before it answers: while it is
    /// suspended the server future is pending with a call taken off its connection and not yet answered.
    pub handle_yields: u8,
}

#[derive(Debug, Clone, PartialEq)]
pub struct LogEntry {
    pub tick: u64,
    pub client: u32,
    pub seq: u32,
    pub kind: Kind,
    pub oneway: bool,
    pub more: bool,
    /// number of completed writes (= framed messages) per connection when this `handle()` started
    /// (empty in lean recordings)
    pub frames_written: Vec<u32>,
}

#[derive(Debug, Clone)]
pub struct Checkpoint {
    pub tick: u64,
    /// index of the last step applied before this quiescent point
    pub step: usize,
    pub written: Vec<usize>,
    /// bytes pushed to each connection's transport so far
    pub pushed: Vec<usize>,
    /// bytes zlink took from each connection's transport so far
    pub delivered: Vec<usize>,
    pub released: Vec<bool>,
    /// did zlink drop the connection's read half (i.e. close the connection) by now
    pub dropped: Vec<bool>,
    pub log_len: usize,
    pub polls: usize,
}

#[derive(Debug)]
pub struct Shared {
    pub clock: u64,
    pub wires: Vec<WireRef>,
    pub scripts: Vec<VecDeque<Vec<u8>>>,
    pub pushed: Vec<usize>,
    /// bytes pushed, per connection, as a flat copy (what the peer has sent so far)
    pub sent: Vec<Vec<u8>>,
    pub released: Vec<bool>,
    pub listener: ListenRef,
    pub streams: BTreeMap<(u32, u32), StreamRef>,
    pub log: Vec<LogEntry>,
    pub sched: VecDeque<Step>,
    /// (tick, event, applied from inside handle())
    pub applied: Vec<(u64, Ev, bool)>,
    pub steps_done: usize,
    pub lean: bool,
    pub handle_yields: u8,
}

impl Shared {
    pub fn stream(&mut self, client: u32, seq: u32) -> StreamRef {
        self.streams.entry((client, seq)).or_default().clone()
    }

    pub fn apply(&mut self, ev: &Ev, in_handle: bool) {
        self.clock += 1;
        NOW.with(|c| c.set(self.clock));
        self.applied.push((self.clock, ev.clone(), in_handle));
        self.apply_inner(ev);
    }

    fn apply_inner(&mut self, ev: &Ev) {
        match ev {
            Ev::Nop => {}
            Ev::Accept(c) => {
                if !self.released[*c] {
                    self.released[*c] = true;
                    self.listener.borrow_mut().release(self.wires[*c].clone());
                }
            }
            Ev::Deliver(c) => {
                if let Some(chunk) = self.scripts[*c].pop_front() {
                    self.pushed[*c] += chunk.len();
                    self.sent[*c].extend_from_slice(&chunk);
                    self.wires[*c].borrow_mut().push_bytes(&chunk);
                }
            }
            Ev::Eof(c) => self.wires[*c].borrow_mut().push(Rx::Eof),
            Ev::RdErr(c) => self.wires[*c].borrow_mut().push(Rx::Err),
            Ev::Item { client, seq, n, continues } => {
                let st = self.stream(*client, *seq);
                let mut st = st.borrow_mut();
                if !st.closed {
                    st.queue.push_back((*n, *continues));
                    st.waker.fire();
                }
            }
            Ev::Close { client, seq } => {
                let st = self.stream(*client, *seq);
                let mut st = st.borrow_mut();
                st.closed = true;
                st.waker.fire();
            }
            Ev::Multi(v) => {
                for e in v {
                    self.apply_inner(e);
                }
            }
        }
    }
}

pub type SharedRef = Rc<RefCell<Shared>>;

/// Suspends once and asks to be polled again.
pub struct YieldOnce(pub bool);
impl std::future::Future for YieldOnce {
    type Output = ();
    fn poll(mut self: Pin<&mut Self>, cx: &mut Context<'_>) -> Poll<()> {
        if self.0 {
            Poll::Ready(())
        } else {
            self.0 = true;
            cx.waker().wake_by_ref();
            Poll::Pending
        }
    }
}

#[derive(Debug)]
pub struct Svc {
    pub sh: SharedRef,
    last: String,
}

impl Service for Svc {
    type MethodCall<'de> = M<'de>;
    type ReplyParams<'ser> = EchoReply<'ser>;
    type ReplyStreamParams = Item;
    type ReplyStream = CtlStream;
    type ReplyError<'ser> = E;

    async fn handle<'ser>(
        &'ser mut self,
        call: Call<Self::MethodCall<'_>>,
    ) -> MethodReply<Self::ReplyParams<'ser>, Self::ReplyStream, Self::ReplyError<'ser>> {
        let (client, seq, kind) = match call.method() {
            M::Echo { client, seq, .. } => (*client, *seq, Kind::Echo),
            M::Fail { client, seq } => (*client, *seq, Kind::Fail),
            M::Sub { client, seq } => (*client, *seq, Kind::Sub),
            M::Poison { client, seq } => (*client, *seq, Kind::Poison),
        };
        {
            let mut sh = self.sh.borrow_mut();
            sh.clock += 1;
            NOW.with(|c| c.set(sh.clock));
            let tick = sh.clock;
            let frames_written = if sh.lean { Vec::new() } else { sh.wires.iter().map(|w| w.borrow().writes.len() as u32).collect() };
            sh.log.push(LogEntry { tick, client, seq, kind, oneway: call.oneway(), more: call.more(), frames_written });
            // traffic that arrives while the server is busy with this call
            if matches!(sh.sched.front(), Some(Step { mode: Mode::InHandle, .. })) {
                let st = sh.sched.pop_front().unwrap();
                sh.steps_done += 1;
                sh.apply(&st.ev, true);
            }
        }
        let yields = self.sh.borrow().handle_yields;
        for _ in 0..yields {
            YieldOnce(false).await;
        }
        match call.method() {
            M::Echo { client, seq, payload } => {
                self.last.clear();
                self.last.push_str(payload);
                MethodReply::Single(Some(EchoReply { client: *client, seq: *seq, payload: &self.last, attachment: None }))
            }
            M::Poison { client, seq } => {
                self.last.clear();
                MethodReply::Single(Some(EchoReply { client: *client, seq: *seq, payload: &self.last, attachment: Some(Unencodable) }))
            }
            M::Fail { client, seq } => MethodReply::Error(E::Failed { client: *client, seq: *seq }),
            M::Sub { client, seq } => {
                let st = self.sh.borrow_mut().stream(*client, *seq);
                st.borrow_mut().attached = true;
                MethodReply::Multi(CtlStream { client: *client, seq: *seq, st })
            }
        }
    }
}

#[derive(Debug, Default)]
pub struct WorldOut {
    pub writes: Vec<Vec<Vec<u8>>>,
    pub written: Vec<Vec<u8>>,
    pub write_calls: Vec<usize>,
    pub log: Vec<LogEntry>,
    pub checkpoints: Vec<Checkpoint>,
    pub applied: Vec<(u64, Ev, bool)>,
    /// `Some(description)` if the server future completed (it never should).
    pub server_exit: Option<String>,
    /// a poll loop that never reached quiescence within the cap (harness-level anomaly)
    pub no_quiescence: bool,
    pub streams: BTreeMap<(u32, u32), (bool, bool, u64, usize)>, // attached, dropped, taken, left in queue
    pub warns: Vec<String>,
    pub total_polls: usize,
    /// wake-driven mode: number of times the server's waker fired
    pub wakes: u64,
    /// service-side reply streams that were polled again after they had answered `Ready(None)`: (client, seq), polls
    pub polled_after_end: Vec<((u32, u32), u64)>,
    /// per service-side stream: logical time at which its latest item was taken by the server (0 = none taken)
    pub last_taken: BTreeMap<(u32, u32), u64>,
}

fn progress_sig(sh: &Shared) -> (usize, usize, usize, usize, u64, usize, usize) {
    let mut delivered = 0;
    let mut wcalls = 0;
    let mut dropped = 0;
    let mut wpolls = 0;
    for w in &sh.wires {
        let w = w.borrow();
        delivered += w.bytes_delivered;
        wcalls += w.write_calls;
        wpolls += w.write_polls;
        dropped += w.read_half_dropped as usize + w.write_half_dropped as usize;
    }
    let taken: u64 = sh.streams.values().map(|s| {
        let s = s.borrow();
        s.taken + s.dropped as u64 * 1000 + s.attached as u64 * 100_000
    }).sum();
    (delivered, wcalls, sh.log.len(), sh.listener.borrow().accepted, taken, dropped, wpolls)
}

/// Run the real server against the scripted world. Panics propagate to the caller
/// (wrap in `vnet::catch`).
/// `run_world` with panics caught and with a watchdog: the world runs on a worker thread; a run that has not come
/// back after 40 s (and then another 120 s - runs take well under a millisecond) is reported as
/// `Err("HANG: ...")`: some poll of the server future never returned. The worker is then abandoned (it cannot be
/// stopped) and a fresh one is used for the next case. Inline under Miri (no threads needed there: Miri cases are
/// few and a hang shows as the shard's own time limit).
pub fn run_world_caught(cfg: WorldCfg) -> Result<WorldOut, String> {
    use std::sync::mpsc;
    use std::time::Duration;
    if cfg!(miri) {
        return vnet::catch(|| run_world(&cfg));
    }
    if HUNG.load(std::sync::atomic::Ordering::Relaxed) {
        return Err("SKIPPED: an earlier case of this run never came back".into());
    }
    struct Worker {
        tx: mpsc::Sender<WorldCfg>,
        rx: mpsc::Receiver<Result<WorldOut, String>>,
    }
    thread_local! {
        static WORKER: RefCell<Option<Worker>> = const { RefCell::new(None) };
    }
    fn spawn() -> Worker {
        let (tx, wrx) = mpsc::channel::<WorldCfg>();
        let (wtx, rx) = mpsc::channel();
        std::thread::Builder::new()
            .stack_size(32 << 20)
            .spawn(move || {
                while let Ok(c) = wrx.recv() {
                    if wtx.send(vnet::catch(|| run_world(&c))).is_err() {
                        break;
                    }
                }
            })
            .expect("spawn world worker");
        Worker { tx, rx }
    }
    WORKER.with(|w| {
        let mut w = w.borrow_mut();
        if w.is_none() {
            *w = Some(spawn());
        }
        if w.as_ref().unwrap().tx.send(cfg.clone()).is_err() {
            *w = Some(spawn());
            let _ = w.as_ref().unwrap().tx.send(cfg);
        }
        let first = w.as_ref().unwrap().rx.recv_timeout(Duration::from_secs(40));
        match first {
            Ok(r) => r,
            Err(mpsc::RecvTimeoutError::Disconnected) => {
                *w = None;
                Err("the worker thread running the server died".into())
            }
            Err(mpsc::RecvTimeoutError::Timeout) => match w.as_ref().unwrap().rx.recv_timeout(Duration::from_secs(120)) {
                Ok(r) => r,
                Err(_) => {
                    *w = None;
                    HUNG.store(true, std::sync::atomic::Ordering::Relaxed);
                    Err("HANG: a poll of Server::run has not returned for 160 s (cases take less than a millisecond)".into())
                }
            },
        }
    })
}

static HUNG: std::sync::atomic::AtomicBool = std::sync::atomic::AtomicBool::new(false);

/// Report a world that did not produce an outcome (panic, or a poll that never returned; after such a hang the
/// remaining cases of the run are skipped - each would cost minutes - and counted).
pub fn world_failure(rep: &mut vnet::Report, prop: &str, p: &str, detail: String, replay: Value) {
    if p.starts_with("SKIPPED:") {
        rep.count("cases_skipped_after_a_hang");
    } else if p.starts_with("HANG:") {
        rep.violation(&format!("{prop}/a-poll-of-the-server-never-returns"), format!("{p}; {detail}"), replay);
    } else {
        rep.violation(&format!("{prop}/panic-in-server"), format!("panic: {p}; {detail}"), replay);
    }
}

pub fn run_world(cfg: &WorldCfg) -> WorldOut {
    let n = cfg.conns.len();
    let (listener, lref) = new_listener();
    let budget: Option<Rc<std::cell::Cell<u32>>> = if cfg.coop > 0 { Some(Rc::new(std::cell::Cell::new(cfg.coop))) } else { None };
    let refill = || {
        if let Some(b) = &budget {
            b.set(cfg.coop);
        }
    };
    let wires: Vec<WireRef> = (0..n)
        .map(|i| {
            let w = new_wire(i as u32);
            {
                let mut wb = w.borrow_mut();
                wb.fail_write_at = cfg.conns[i].fail_write_at;
                wb.write_pending_polls = cfg.conns[i].write_pending_polls;
                wb.err_kind = cfg.conns[i].read_err_kind;
                wb.write_err_kind = cfg.conns[i].write_err_kind;
                wb.coop = budget.clone();
            }
            w
        })
        .collect();
    let sh: SharedRef = Rc::new(RefCell::new(Shared {
        clock: 0,
        wires: wires.clone(),
        scripts: cfg.conns.iter().map(|c| c.chunks.iter().cloned().collect()).collect(),
        pushed: vec![0; n],
        sent: vec![Vec::new(); n],
        released: vec![false; n],
        listener: lref,
        streams: BTreeMap::new(),
        log: Vec::new(),
        sched: cfg.steps.iter().cloned().collect(),
        applied: Vec::new(),
        steps_done: 0,
        lean: cfg.lean,
        handle_yields: cfg.handle_yields,
    }));
    let _ = vnet::trace::take();
    NOW.with(|c| c.set(0));
    let server = Server::new(listener, Svc { sh: sh.clone(), last: String::new() });
    let mut out = WorldOut::default();
    let flag = vnet::WakeFlag::new();
    {
        let fut = server.run();
        let mut fut = core::pin::pin!(fut);
        let mut done = false;
        if cfg.wake {
            // the runtime polls a freshly spawned task once
            out.total_polls += 1;
            refill();
            if let Poll::Ready(r) = flag.poll(fut.as_mut()) {
                out.server_exit = Some(format!("{r:?}"));
                done = true;
            }
        }
        loop {
            let step = {
                let mut s = sh.borrow_mut();
                match s.sched.pop_front() {
                    Some(st) => {
                        s.steps_done += 1;
                        Some(st)
                    }
                    None => None,
                }
            };
            let Some(step) = step else { break };
            sh.borrow_mut().apply(&step.ev, false);
            if step.mode == Mode::Batch && !sh.borrow().sched.is_empty() {
                continue;
            }
            // poll to quiescence
            let mut polls = 0;
            if !done && cfg.wake {
                // a runtime polls the task again exactly when its waker has fired
                while flag.is_set() {
                    polls += 1;
                    out.total_polls += 1;
                    refill();
                    if let Poll::Ready(r) = flag.poll(fut.as_mut()) {
                        out.server_exit = Some(format!("{r:?}"));
                        done = true;
                        break;
                    }
                    if polls > 10_000 {
                        out.no_quiescence = true;
                        break;
                    }
                }
            } else if !done {
                loop {
                    let before = progress_sig(&sh.borrow());
                    polls += 1;
                    out.total_polls += 1;
                    refill();
                    match flag.poll(fut.as_mut()) {
                        Poll::Ready(r) => {
                            out.server_exit = Some(format!("{r:?}"));
                            done = true;
                            break;
                        }
                        Poll::Pending => {}
                    }
                    let after = progress_sig(&sh.borrow());
                    // (a task that woke itself - a service that yields inside handle() - wants another poll even
                    // though nothing observable has changed yet)
                    if after == before && !flag.is_set() {
                        break;
                    }
                    if polls > 10_000 {
                        out.no_quiescence = true;
                        break;
                    }
                }
            }
            if cfg.lean && !sh.borrow().sched.is_empty() && !done {
                continue;
            }
            let s = sh.borrow();
            out.checkpoints.push(Checkpoint {
                tick: s.clock,
                step: s.steps_done,
                written: s.wires.iter().map(|w| w.borrow().writes.iter().map(|x| x.len()).sum()).collect(),
                pushed: s.pushed.clone(),
                delivered: s.wires.iter().map(|w| w.borrow().bytes_delivered).collect(),
                released: s.released.clone(),
                dropped: s.wires.iter().map(|w| w.borrow().read_half_dropped).collect(),
                log_len: s.log.len(),
                polls,
            });
            if done {
                break;
            }
        }
        // stream states while the server is still alive
        for (k, st) in &sh.borrow().streams {
            let st = st.borrow();
            out.streams.insert(*k, (st.attached, st.dropped, st.taken, st.queue.len()));
            if st.polled_after_end > 0 {
                out.polled_after_end.push((*k, st.polled_after_end));
            }
            if st.taken > 0 {
                out.last_taken.insert(*k, st.last_taken_tick);
            }
        }
    }
    // the server future (and with it every connection) is dropped here
    let s = sh.borrow();
    let flag_wakes = flag.wakes.load(std::sync::atomic::Ordering::SeqCst);
    for w in &s.wires {
        let w = w.borrow();
        out.writes.push(w.writes.clone());
        out.written.push(w.written());
        out.write_calls.push(w.write_calls);
    }
    out.log = s.log.clone();
    out.applied = s.applied.clone();
    out.wakes = flag_wakes;
    out.warns = vnet::trace::take().into_iter().map(|(_, s)| s).collect();
    out
}

// ---------------------------------------------------------------------------------------------
// reference model

/// The answer frames connection `client` is owed for `calls` (complete calls that reached the
/// server, in order), given what the service-side streams produced. Returns (frames, parked):
/// `parked` is true when the connection is still behind an open stream after the last frame.
pub fn expected_frames(
    client: u32,
    calls: &[CallSpec],
    produced: &BTreeMap<(u32, u32), (Vec<(u32, Option<bool>)>, bool)>,
) -> (Vec<Value>, bool) {
    let mut out = Vec::new();
    for c in calls {
        match c.kind {
            Kind::Echo => {
                if !c.oneway {
                    out.push(json!({"parameters": {"client": client, "seq": c.seq, "payload": c.payload}, "continues": false}));
                }
            }
            Kind::Fail => {
                if !c.oneway {
                    out.push(json!({"error": "t.Failed", "parameters": {"client": client, "seq": c.seq}}));
                }
            }
            Kind::Poison => {
                if !c.oneway {
                    out.push(unanswerable());
                }
            }
            Kind::Sub => {
                if c.oneway {
                    continue;
                }
                let (items, closed) = produced.get(&(client, c.seq)).cloned().unwrap_or_default();
                for (n, cont) in items {
                    let mut f = json!({"parameters": {"client": client, "seq": c.seq, "n": n}});
                    if let Some(b) = cont {
                        f["continues"] = json!(b);
                    }
                    out.push(f);
                }
                if !closed {
                    return (out, true);
                }
            }
        }
    }
    (out, false)
}

/// Place holder in a list of owed answers: the service decided on a reply that cannot be encoded.
pub fn unanswerable() -> Value {
    json!({"__unanswerable__": true})
}

/// Do the frames a connection got match what it is owed? `exact`: everything owed must be there (otherwise a prefix
/// will do). At the place of an unanswerable call the connection either ends (the server gave it up: nothing more
/// may follow) or carries an error frame of the server's own; a later answer must never move up into that place.
pub fn answers_match(actual: &[Value], expected: &[Value], exact: bool) -> bool {
    let mut ai = 0;
    for e in expected {
        if *e == unanswerable() {
            if ai == actual.len() {
                return true;
            }
            if actual[ai].get("error").is_some() && !expected.contains(&actual[ai]) {
                ai += 1;
                continue;
            }
            return false;
        }
        if ai == actual.len() {
            return !exact;
        }
        if actual[ai] != *e {
            return false;
        }
        ai += 1;
    }
    ai == actual.len()
}

/// `continues: false` and an absent `continues` are the same answer.
pub fn normalize(mut v: Value) -> Value {
    if let Some(o) = v.as_object_mut() {
        if o.get("continues") == Some(&Value::Bool(false)) {
            o.remove("continues");
        }
    }
    v
}

/// Parse captured output into frames. Err(description) if the bytes are not `(document NUL)*`.
pub fn parse_output(bytes: &[u8]) -> Result<Vec<Value>, String> {
    let (frames, rest) = vnet::split_frames(bytes);
    if !rest.is_empty() {
        return Err(format!("output ends with an unterminated fragment: {}", vnet::json::show(rest)));
    }
    let mut out = Vec::new();
    for f in frames {
        if f.is_empty() {
            return Err("empty frame (two consecutive NUL bytes) in output".into());
        }
        match serde_json::from_slice::<Value>(f) {
            Ok(v) => out.push(v),
            Err(e) => return Err(format!("output frame is not one JSON document ({e}): {}", vnet::json::show(f))),
        }
    }
    Ok(out)
}

/// What the streams had produced by tick `t` (events applied at ticks <= t).
pub fn produced_until(applied: &[(u64, Ev, bool)], t: u64) -> BTreeMap<(u32, u32), (Vec<(u32, Option<bool>)>, bool)> {
    let mut m: BTreeMap<(u32, u32), (Vec<(u32, Option<bool>)>, bool)> = BTreeMap::new();
    fn walk(m: &mut BTreeMap<(u32, u32), (Vec<(u32, Option<bool>)>, bool)>, e: &Ev) {
        match e {
            Ev::Item { client, seq, n, continues } => {
                let s = m.entry((*client, *seq)).or_default();
                if !s.1 {
                    s.0.push((*n, *continues));
                }
            }
            Ev::Close { client, seq } => m.entry((*client, *seq)).or_default().1 = true,
            Ev::Multi(v) => v.iter().for_each(|e| walk(m, e)),
            _ => {}
        }
    }
    for (tick, e, _) in applied {
        if *tick <= t {
            walk(&mut m, e);
        }
    }
    m
}

/// Enumerate all interleavings of the given chains (each chain keeps its internal order), calling
/// `f` on each; stops early when `f` returns false. Returns the number of interleavings visited.
pub fn interleavings<T: Clone>(chains: &[Vec<T>], f: &mut dyn FnMut(&[T]) -> bool) -> u64 {
    fn rec<T: Clone>(chains: &[Vec<T>], pos: &mut Vec<usize>, cur: &mut Vec<T>, total: usize, f: &mut dyn FnMut(&[T]) -> bool, n: &mut u64) -> bool {
        if cur.len() == total {
            *n += 1;
            return f(cur);
        }
        for i in 0..chains.len() {
            if pos[i] < chains[i].len() {
                cur.push(chains[i][pos[i]].clone());
                pos[i] += 1;
                let go = rec(chains, pos, cur, total, f, n);
                pos[i] -= 1;
                cur.pop();
                if !go {
                    return false;
                }
            }
        }
        true
    }
    let total = chains.iter().map(|c| c.len()).sum();
    let mut n = 0;
    rec(chains, &mut vec![0; chains.len()], &mut Vec::new(), total, f, &mut n);
    n
}

/// Number of interleavings of chains with the given lengths (saturating).
pub fn count_interleavings(lens: &[usize]) -> u64 {
    let mut total: u64 = 1;
    let mut placed = 0u64;
    for &l in lens {
        for k in 1..=l as u64 {
            placed += 1;
            total = total.saturating_mul(placed) / k;
            if total > u64::MAX / 1024 {
                return u64::MAX;
            }
        }
    }
    total
}

/// A random interleaving of the chains.
pub fn random_interleaving<T: Clone>(chains: &[Vec<T>], rng: &mut vnet::Rng) -> Vec<T> {
    let mut pos = vec![0; chains.len()];
    let total: usize = chains.iter().map(|c| c.len()).sum();
    let mut out = Vec::with_capacity(total);
    while out.len() < total {
        // weight by remaining length so that every interleaving is equally likely
        let rem: usize = chains.iter().zip(&pos).map(|(c, p)| c.len() - p).sum();
        let mut k = rng.below(rem);
        for i in 0..chains.len() {
            let r = chains[i].len() - pos[i];
            if k < r {
                out.push(chains[i][pos[i]].clone());
                pos[i] += 1;
                break;
            }
            k -= r;
        }
    }
    out
}

// ---------------------------------------------------------------------------------------------
// scenarios (what the monitors generate, replay and hash)

#[derive(Debug, Clone, Default, PartialEq)]
pub struct ConnScn {
    /// Well-formed calls (used by the reference model). Ignored for the wire when `raw` is set.
    pub calls: Vec<CallSpec>,
    /// Raw bytes instead of `calls` (faulty clients).
    pub raw: Option<Vec<u8>>,
    /// Cut positions of the byte stream into `Deliver` chunks.
    pub cuts: Vec<usize>,
    pub fail_write_at: Option<usize>,
    pub write_pending_polls: usize,
    pub faulty: bool,
    /// which error kind an injected read error produces (see `vnet::Wire::err_kind`)
    pub read_err_kind: u8,
    /// which error kind a failing write produces (see `vnet::Wire::write_err_kind`)
    pub write_err_kind: u8,
    /// Stray terminators: `(k, m)` = `m` extra NUL bytes (empty frames) directly behind the frame of call `k`.
    /// An empty frame is not a message; zlink skips it. (A server that ended the connection there would be
    /// within the property as well, see `check_reference`.)
    pub stray: Vec<(usize, usize)>,
}

/// Number of complete non-empty frames in `bytes` (empty frames - stray terminators - carry no call).
pub fn complete_frames(bytes: &[u8]) -> usize {
    (0..bytes.len()).filter(|p| bytes[*p] == 0 && *p > 0 && bytes[*p - 1] != 0).count()
}

impl ConnScn {
    pub fn stream(&self, client: u32) -> Vec<u8> {
        match &self.raw {
            Some(r) => r.clone(),
            None => {
                let mut v = Vec::new();
                for (k, c) in self.calls.iter().enumerate() {
                    v.extend(c.bytes(client));
                    for (at, m) in &self.stray {
                        if *at == k {
                            v.extend(std::iter::repeat(0u8).take(*m));
                        }
                    }
                }
                v
            }
        }
    }
    pub fn chunks(&self, client: u32) -> Vec<Vec<u8>> {
        vnet::chunks_at(&self.stream(client), &self.cuts)
    }
}

#[derive(Debug, Clone, Default, PartialEq)]
pub struct Scenario {
    pub conns: Vec<ConnScn>,
    pub steps: Vec<Step>,
    /// run wake-driven (see `WorldCfg::wake`)
    pub wake: bool,
    /// see `WorldCfg::lean`
    pub lean: bool,
    /// see `WorldCfg::coop`
    pub coop: u32,
    /// see `WorldCfg::handle_yields`
    pub handle_yields: u8,
}

pub fn hexs(b: &[u8]) -> String {
    b.iter().map(|x| format!("{x:02x}")).collect()
}
pub fn unhexs(s: &str) -> Vec<u8> {
    (0..s.len() / 2).map(|i| u8::from_str_radix(&s[2 * i..2 * i + 2], 16).unwrap()).collect()
}

impl Scenario {
    pub fn world(&self) -> WorldCfg {
        WorldCfg {
            conns: self
                .conns
                .iter()
                .enumerate()
                .map(|(i, c)| ConnCfg { chunks: c.chunks(i as u32), fail_write_at: c.fail_write_at, write_pending_polls: c.write_pending_polls, read_err_kind: c.read_err_kind, write_err_kind: c.write_err_kind })
                .collect(),
            steps: self.steps.clone(),
            wake: self.wake,
            lean: self.lean,
            coop: self.coop,
            handle_yields: self.handle_yields,
        }
    }

    pub fn to_json(&self, monitor: &str) -> Value {
        json!({
            "monitor": monitor,
            "conns": self.conns.iter().map(|c| json!({
                "calls": c.calls.iter().map(|k| json!([match k.kind { Kind::Echo => "echo", Kind::Fail => "fail", Kind::Sub => "sub", Kind::Poison => "poison" }, k.seq, k.oneway, k.more, k.payload])).collect::<Vec<_>>(),
                "raw": c.raw.as_ref().map(|r| hexs(r)),
                "raw_text": c.raw.as_ref().map(|r| vnet::json::show(r)),
                "cuts": c.cuts, "fail_write_at": c.fail_write_at, "wpp": c.write_pending_polls, "faulty": c.faulty, "rek": c.read_err_kind, "wek": c.write_err_kind, "stray": c.stray,
            })).collect::<Vec<_>>(),
            "steps": steps_json(&self.steps),
            "wake": self.wake,
            "lean": self.lean,
            "coop": self.coop,
            "handle_yields": self.handle_yields,
        })
    }

    pub fn from_json(v: &Value) -> Scenario {
        Scenario {
            conns: v["conns"].as_array().unwrap().iter().map(|c| ConnScn {
                calls: c["calls"].as_array().unwrap().iter().map(|k| CallSpec {
                    kind: match k[0].as_str().unwrap() { "echo" => Kind::Echo, "fail" => Kind::Fail, "poison" => Kind::Poison, _ => Kind::Sub },
                    seq: k[1].as_u64().unwrap() as u32,
                    oneway: k[2].as_bool().unwrap(),
                    more: k[3].as_bool().unwrap(),
                    payload: k[4].as_str().unwrap().to_string(),
                }).collect(),
                raw: c["raw"].as_str().map(unhexs),
                cuts: c["cuts"].as_array().unwrap().iter().map(|x| x.as_u64().unwrap() as usize).collect(),
                fail_write_at: c["fail_write_at"].as_u64().map(|x| x as usize),
                write_pending_polls: c["wpp"].as_u64().unwrap_or(0) as usize,
                faulty: c["faulty"].as_bool().unwrap_or(false),
                read_err_kind: c["rek"].as_u64().unwrap_or(0) as u8,
                write_err_kind: c["wek"].as_u64().unwrap_or(0) as u8,
                stray: c["stray"].as_array().map_or(Vec::new(), |a| a.iter().map(|x| (x[0].as_u64().unwrap() as usize, x[1].as_u64().unwrap() as usize)).collect()),
            }).collect(),
            steps: steps_from_json(&v["steps"]),
            wake: v["wake"].as_bool().unwrap_or(false),
            lean: v["lean"].as_bool().unwrap_or(false),
            coop: v["coop"].as_u64().unwrap_or(0) as u32,
            handle_yields: v["handle_yields"].as_u64().unwrap_or(0) as u8,
        }
    }

    pub fn hash(&self) -> u64 {
        let mut h = vnet::fnv(b"scn");
        for (i, c) in self.conns.iter().enumerate() {
            h = vnet::fnv_mix(h, vnet::fnv(&c.stream(i as u32)));
            for x in &c.cuts {
                h = vnet::fnv_mix(h, *x as u64);
            }
            h = vnet::fnv_mix(h, c.fail_write_at.map_or(u64::MAX, |x| x as u64));
            h = vnet::fnv_mix(h, c.write_pending_polls as u64 + ((c.read_err_kind as u64) << 8) + ((c.write_err_kind as u64) << 12));
        }
        if self.wake {
            h = vnet::fnv_mix(h, 0x77616b65);
        }
        if self.coop > 0 {
            h = vnet::fnv_mix(h, 0x636f6f70 + self.coop as u64);
        }
        if self.handle_yields > 0 {
            h = vnet::fnv_mix(h, 0x7969656c + self.handle_yields as u64);
        }
        vnet::fnv_mix(h, vnet::fnv(format!("{:?}", self.steps).as_bytes()))
    }

    pub fn describe(&self) -> String {
        let mut s = String::new();
        if self.wake {
            s.push_str("[wake-driven] ");
        }
        if self.handle_yields > 0 {
            s.push_str(&format!("[the service suspends {} time(s) in every handle()] ", self.handle_yields));
        }
        if self.coop > 0 {
            s.push_str(&format!("[cooperative budget: {} transport operations per poll] ", self.coop));
        }
        for (i, c) in self.conns.iter().enumerate() {
            s.push_str(&format!(
                "conn{i}{}: {} cuts={:?}{}{}; ",
                if c.faulty { "(faulty)" } else { "" },
                match &c.raw {
                    Some(r) => format!("raw[{}]", vnet::json::show(&r[..r.len().min(120)])),
                    None => format!("[{}]", c.calls.iter().map(|k| k.short()).collect::<Vec<_>>().join(" ")),
                },
                c.cuts,
                c.fail_write_at.map_or(String::new(), |k| format!(" fail_write_at={k}(error kind {})", c.write_err_kind)) + &(if c.stray.is_empty() { String::new() } else { format!(" stray-terminators(behind call index, count)={:?}", c.stray) }),
                if c.write_pending_polls > 0 { format!(" wpp={}", c.write_pending_polls) } else { String::new() },
            ));
        }
        s.push_str("steps: ");
        for st in &self.steps {
            s.push_str(&format!("{}{} ", ev_json(&st.ev), match st.mode { Mode::Quiesce => "", Mode::Batch => "+", Mode::InHandle => "^" }));
        }
        s
    }
}

/// Payload without characters that need escaping (the service borrows it as `&str`).
pub fn payload(rng: &mut vnet::Rng) -> String {
    let len = match rng.below(10) {
        0 => 0,
        1..=5 => rng.range(1, 12),
        6 | 7 => rng.range(13, 120),
        8 => rng.range(180, 300),
        _ => rng.range(300, 900),
    };
    const ALPHA: &[u8] = b"abcdefghijklmnopqrstuvwxyz0123456789 _-.:,;{}[]'";
    let mut s: String = (0..len).map(|_| *rng.pick(ALPHA) as char).collect();
    if rng.chance(1, 6) {
        s.push('é');
    }
    s
}

pub fn random_cuts(rng: &mut vnet::Rng, len: usize, max: usize) -> Vec<usize> {
    if len < 2 || max == 0 {
        return vec![];
    }
    let k = rng.range(0, max.min(len - 1));
    let mut cuts: Vec<usize> = (0..k).map(|_| rng.range(1, len - 1)).collect();
    cuts.sort_unstable();
    cuts.dedup();
    cuts
}

/// Cut positions at every frame boundary (after each NUL except the last).
pub fn frame_cuts(stream: &[u8]) -> Vec<usize> {
    stream.iter().enumerate().filter(|(i, b)| **b == 0 && *i + 1 < stream.len()).map(|(i, _)| i + 1).collect()
}

// ---------------------------------------------------------------------------------------------
// reference-model oracle shared by C08 (no streams) and C10 (with streams)

fn frame_id(v: &Value) -> Option<(u32, u32, Option<u32>)> {
    let p = v.get("parameters")?;
    Some((p.get("client")?.as_u64()? as u32, p.get("seq")?.as_u64()? as u32, p.get("n").and_then(|n| n.as_u64()).map(|n| n as u32)))
}

/// Name the way `actual` differs from `expected` for connection `i`.
fn classify(prop: &str, i: usize, scn: &Scenario, actual: &[Value], expected: &[Value]) -> String {
    let calls = &scn.conns[i].calls;
    for f in actual {
        match frame_id(f) {
            Some((client, seq, _)) => {
                if client as usize != i {
                    return format!("{prop}/frame-of-another-client-on-this-connection");
                }
                if calls.iter().any(|c| c.seq == seq && c.oneway) {
                    return format!("{prop}/oneway-call-answered");
                }
            }
            None => return format!("{prop}/frame-is-not-an-answer-of-the-service"),
        }
    }
    let ids = |v: &[Value]| v.iter().map(|f| frame_id(f)).collect::<Vec<_>>();
    let (a, e) = (ids(actual), ids(expected));
    let mut seen = std::collections::HashSet::new();
    if a.iter().any(|x| !seen.insert(*x)) {
        return format!("{prop}/answer-delivered-twice");
    }
    if a.len() < e.len() && a[..] == e[..a.len()] {
        return format!("{prop}/owed-answer-missing");
    }
    if a.len() > e.len() && a[..e.len()] == e[..] {
        return format!("{prop}/more-answers-than-owed");
    }
    let mut sa = a.clone();
    let mut se = e.clone();
    sa.sort();
    se.sort();
    if sa == se && a != e {
        return format!("{prop}/answers-out-of-order");
    }
    if a == e {
        return format!("{prop}/answer-content-differs-from-what-the-service-decided");
    }
    format!("{prop}/answers-differ-from-reference")
}

/// Checks every connection that is not marked faulty against the sequential reference model:
/// final output, output at every quiescent point (prefix; equality when everything the peer sent
/// so far ends on a frame boundary), service log. Returns violations as (signature, detail).
pub fn check_reference(prop: &str, scn: &Scenario, out: &WorldOut, stats: &mut BTreeMap<String, u64>) -> Vec<(String, String)> {
    let mut v = Vec::new();
    if let Some(e) = &out.server_exit {
        v.push((format!("{prop}/server-future-completed"), format!("Server::run returned {e}")));
        return v;
    }
    if out.no_quiescence {
        v.push((format!("{prop}/server-never-quiescent"), "10000 polls without reaching a point where nothing changes".into()));
        return v;
    }
    // A reply stream that has ended must be left alone: what a second poll does is up to the stream (unfold panics,
    // others never answer again), so the connection behind it would never take calls again.
    if let Some(((client, seq), n)) = out.polled_after_end.first() {
        v.push((format!("{prop}/reply-stream-polled-again-after-it-ended"), format!("the stream answering call #{seq} of conn{client} was polled {n} more time(s) after it had returned None")));
    }
    let final_tick = u64::MAX;
    for (i, c) in scn.conns.iter().enumerate() {
        if c.faulty || c.fail_write_at.is_some() {
            continue;
        }
        let client = i as u32;
        // --- final output
        let actual = match parse_output(&out.written[i]) {
            Ok(a) => a,
            Err(e) => {
                v.push((format!("{prop}/output-is-not-document-NUL-framed"), format!("conn{i}: {e}")));
                continue;
            }
        };
        let released_ever = out.applied.iter().any(|(_, e, _)| ev_has(e, &Ev::Accept(i)));
        let stream = c.stream(client);
        let chunks = c.chunks(client);
        let delivered_events = out.applied.iter().map(|(_, e, _)| ev_count(e, &Ev::Deliver(i))).sum::<usize>().min(chunks.len());
        let sent_len: usize = chunks[..delivered_events].iter().map(|x| x.len()).sum();
        let sent = &stream[..sent_len];
        let complete = complete_frames(sent);
        // A peer that sends stray terminators (empty frames) is served by zlink as if they were not there. Ending
        // the connection at the empty frame would be within the property too: if the server closed such a
        // connection, only "a prefix of what is owed, in order" is demanded of it.
        let closed_on_stray = !c.stray.is_empty() && out.checkpoints.last().map_or(false, |cp| cp.dropped[i]);
        let on_boundary = (sent.is_empty() || sent.last() == Some(&0)) && !closed_on_stray;
        let produced = produced_until(&out.applied, final_tick);
        let (mut expected, _parked) = if released_ever {
            expected_frames(client, &c.calls[..complete.min(c.calls.len())], &produced)
        } else {
            (Vec::new(), false)
        };
        let actual_n: Vec<Value> = actual.iter().cloned().map(normalize).collect();
        expected = expected.into_iter().map(normalize).collect();
        if on_boundary {
            if !answers_match(&actual_n, &expected, true) {
                let sig = classify(prop, i, scn, &actual_n, &expected);
                v.push((sig, format!("conn{i} final output {} ; expected {}", Value::Array(actual_n.clone()), Value::Array(expected.clone()))));
                continue;
            }
        } else if !answers_match(&actual_n, &expected, false) {
            let sig = classify(prop, i, scn, &actual_n, &expected);
            v.push((sig, format!("conn{i} final output {} is not a prefix of {}", Value::Array(actual_n.clone()), Value::Array(expected.clone()))));
            continue;
        }
        *stats.entry("answers_checked".into()).or_insert(0) += actual_n.len() as u64;
        // --- every write is whole frames, one message per write
        for w in &out.writes[i] {
            if w.last() != Some(&0) || w.iter().filter(|b| **b == 0).count() != 1 {
                v.push((format!("{prop}/a-write-is-not-exactly-one-framed-message"), format!("conn{i}: write {}", vnet::json::show(w))));
                break;
            }
        }
        // --- quiescent points
        for cp in &out.checkpoints {
            let wlen = cp.written[i];
            let at = match parse_output(&out.written[i][..wlen]) {
                Ok(a) => a.into_iter().map(normalize).collect::<Vec<_>>(),
                Err(e) => {
                    v.push((format!("{prop}/output-is-not-document-NUL-framed"), format!("conn{i} at tick {}: {e}", cp.tick)));
                    break;
                }
            };
            let pushed = &stream[..cp.pushed[i]];
            let complete = complete_frames(pushed);
            let boundary = pushed.is_empty() || pushed.last() == Some(&0);
            let prod = produced_until(&out.applied, cp.tick);
            let (exp, _) = if cp.released[i] { expected_frames(client, &c.calls[..complete.min(c.calls.len())], &prod) } else { (Vec::new(), false) };
            let exp: Vec<Value> = exp.into_iter().map(normalize).collect();
            let is_prefix = answers_match(&at, &exp, false);
            if !is_prefix {
                v.push((format!("{prop}/output-at-quiescent-point-is-not-a-prefix-of-what-is-owed"), format!("conn{i} at tick {} (step {}): output {} ; owed so far {}", cp.tick, cp.step, Value::Array(at), Value::Array(exp))));
                break;
            }
            if boundary && !answers_match(&at, &exp, true) && !(closed_on_stray && cp.dropped[i]) {
                v.push((format!("{prop}/complete-call-left-unanswered-at-quiescent-point"), format!("conn{i} at tick {} (step {}): output {} ; owed so far {}", cp.tick, cp.step, Value::Array(at), Value::Array(exp))));
                break;
            }
            *stats.entry("quiescent_points_checked".into()).or_insert(0) += 1;
        }
        // --- service log: this client's calls exactly once, in order
        let seen: Vec<(u32, Kind, bool, bool)> = out.log.iter().filter(|l| l.client == client).map(|l| (l.seq, l.kind, l.oneway, l.more)).collect();
        // calls parked behind a stream that never closed are not handled
        let mut want = Vec::new();
        for k in &c.calls[..if released_ever { complete.min(c.calls.len()) } else { 0 }] {
            want.push((k.seq, k.kind, k.oneway, k.more));
            if k.kind == Kind::Sub && !k.oneway && !produced.get(&(client, k.seq)).map_or(false, |p| p.1) {
                break;
            }
        }
        // (behind a call that could not be answered the connection may have been given up: the calls behind it are then
        // never handled)
        let poison_at = want.iter().position(|w| w.1 == Kind::Poison && !w.2);
        let ok = match poison_at {
            Some(p) if seen.len() > p && seen.len() <= want.len() => seen[..] == want[..seen.len()],
            _ => {
                if on_boundary {
                    seen == want
                } else {
                    seen.len() <= want.len() && seen[..] == want[..seen.len()]
                }
            }
        };
        if !ok {
            v.push((format!("{prop}/service-did-not-see-each-call-exactly-once-in-order"), format!("conn{i}: service saw {seen:?}, client sent {want:?}")));
        }
    }
    v
}

/// Bounded progress for answers (C08 "a call that expects a reply gets one", C18 "a flooding client cannot starve
/// the others"): the answer to a call that the service has handled must be on its way to the client before a
/// number of further `handle()` invocations that depends on the number of connections, not on how long another
/// client keeps the server busy. (The pinned tree writes the answer before it looks at the next call; a server that
/// holds answers back while anybody has calls buffered starves the client that is waiting for its one reply.)
pub fn reply_latency(prop: &str, scn: &Scenario, out: &WorldOut, stats: &mut BTreeMap<String, u64>) -> Vec<(String, String)> {
    let mut v = Vec::new();
    let bound = 3 * (scn.conns.len() + 1) + 6;
    for (k, l) in out.log.iter().enumerate() {
        let c = l.client as usize;
        if l.frames_written.is_empty() || l.oneway || l.kind == Kind::Sub || l.kind == Kind::Poison || c >= scn.conns.len() || scn.conns[c].faulty || scn.conns[c].fail_write_at.is_some() {
            continue;
        }
        let Some(later) = out.log.get(k + bound) else { continue };
        *stats.entry("answers_checked_for_latency".into()).or_insert(0) += 1;
        if later.frames_written.get(c).copied().unwrap_or(0) <= l.frames_written[c] {
            v.push((
                format!("{prop}/answer-held-back-while-other-calls-are-served"),
                format!("call #{} of conn{c} was handled at tick {}; {bound} calls later (tick {}) nothing had been written to conn{c} yet", l.seq, l.tick, later.tick),
            ));
            break;
        }
    }
    v
}

/// Bounded progress for stream items under sustained load (C10 "every item is delivered", C18 "a flooding
/// client cannot starve the others"): an item that a service-side stream produced while calls keep coming
/// must reach its client after a number of further `handle()` invocations that is bounded by the shape of
/// the configuration, not by the length of the flood. The bound is deliberately generous (three times what
/// a round-robin over streams and connections needs, plus a constant), so that only "waits until the calls
/// stop" is flagged, not a particular scheduling policy.
pub fn stream_latency(prop: &str, scn: &Scenario, out: &WorldOut, stats: &mut BTreeMap<String, u64>) -> Vec<(String, String)> {
    let mut v = Vec::new();
    if out.server_exit.is_some() || out.no_quiescence || scn.lean {
        return v;
    }
    let n = scn.conns.len();
    let produced = produced_until(&out.applied, u64::MAX);
    let nstreams = out.streams.values().filter(|s| s.0).count();
    // ticks of transitions (accepts, closures, stream starts and ends)
    let mut transitions: Vec<u64> = Vec::new();
    fn walk<'a>(e: &'a Ev, f: &mut dyn FnMut(&'a Ev)) {
        match e {
            Ev::Multi(v) => v.iter().for_each(|e| walk(e, f)),
            _ => f(e),
        }
    }
    for (tick, ev, _) in &out.applied {
        walk(ev, &mut |e| {
            if matches!(e, Ev::Accept(_) | Ev::Eof(_) | Ev::RdErr(_) | Ev::Close { .. }) {
                transitions.push(*tick);
            }
        });
    }
    for l in &out.log {
        if l.kind == Kind::Sub && !l.oneway {
            transitions.push(l.tick);
        }
    }
    for (i, c) in scn.conns.iter().enumerate() {
        if c.faulty || c.fail_write_at.is_some() || c.raw.is_some() {
            continue;
        }
        let client = i as u32;
        // frame index of every item in this connection's output (answers of earlier calls come first)
        let mut frame_idx = 0u32;
        for call in &c.calls {
            match call.kind {
                // (stream latency is not judged on connections with unanswerable calls: C08 only)
                Kind::Poison => break,
                Kind::Echo | Kind::Fail => {
                    if !call.oneway {
                        frame_idx += 1;
                    }
                }
                Kind::Sub => {
                    if call.oneway {
                        continue;
                    }
                    let Some(sub_tick) = out.log.iter().find(|l| l.client == client && l.seq == call.seq).map(|l| l.tick) else { break };
                    let (items, closed) = produced.get(&(client, call.seq)).cloned().unwrap_or_default();
                    // tick at which each item was produced
                    let mut item_ticks = Vec::new();
                    for (tick, ev, _) in &out.applied {
                        walk(ev, &mut |e| {
                            if let Ev::Item { client: cl, seq, .. } = e {
                                if *cl == client && *seq == call.seq && item_ticks.len() < items.len() {
                                    item_ticks.push(*tick);
                                }
                            }
                        });
                    }
                    for (j, t) in item_ticks.iter().enumerate() {
                        let fi = frame_idx + j as u32;
                        let t0 = (*t).max(sub_tick);
                        // handle() invocations that started after the item existed and still did not see it written
                        let later: Vec<&LogEntry> = out.log.iter().filter(|l| l.tick > t0 && !l.frames_written.is_empty()).collect();
                        let waited = later.iter().take_while(|l| l.frames_written[i] <= fi).count();
                        // earlier items of the same stream that were not yet written at t0
                        let at_t0 = out.log.iter().filter(|l| l.tick <= t0 && !l.frames_written.is_empty()).last().map_or(0, |l| l.frames_written[i]);
                        let ahead = (fi.saturating_sub(at_t0.max(frame_idx))) as usize;
                        let t_end = later.get(waited).map_or(u64::MAX, |l| l.tick);
                        let t_in = transitions.iter().filter(|x| **x >= t0 && **x <= t_end).count();
                        let bound = 3 * ((ahead + 1) * (nstreams + 1) + n * (t_in + 1)) + 6;
                        *stats.entry("stream_items_timed".into()).or_insert(0) += 1;
                        let mx = stats.entry("max_handle_calls_an_item_waited".into()).or_insert(0);
                        *mx = (*mx).max(waited as u64);
                        if waited > 0 {
                            *stats.entry("stream_items_produced_under_load".into()).or_insert(0) += 1;
                        }
                        if waited > bound {
                            v.push((
                                format!("{prop}/stream-item-not-delivered-while-calls-keep-coming"),
                                format!("item {j} of conn{i}'s stream (call #{}) existed from tick {t0}; {waited} further handle() invocations started before it was written (bound {bound}: {ahead} items ahead, {nstreams} streams, {n} connections, {t_in} transitions)", call.seq),
                            ));
                            return v;
                        }
                    }
                    frame_idx += items.len() as u32;
                    if !closed {
                        break;
                    }
                }
            }
        }
    }
    v
}

fn ev_has(e: &Ev, x: &Ev) -> bool {
    ev_count(e, x) > 0
}
fn ev_count(e: &Ev, x: &Ev) -> usize {
    match e {
        Ev::Multi(v) => v.iter().map(|e| ev_count(e, x)).sum(),
        _ => (e == x) as usize,
    }
}

use serde_json::Value;

#[derive(Debug, Clone)]
pub struct Cfg {
    pub thorough: bool,
    pub seed: u64,
    pub shard: usize,
    pub shards: usize,
    pub out: Option<String>,
    pub replay: Option<Value>,
    /// Scale factor for sampled workloads (layers such as Miri pass a small one).
    pub budget: Option<u64>,
    /// native | miri | asan: lets monitors size themselves.
    pub layer: String,
    /// monitor-specific `--key value` options
    pub opts: std::collections::BTreeMap<String, String>,
}

impl Cfg {
    pub fn parse(args: &[String]) -> Cfg {
        let mut c = Cfg {
            thorough: false,
            seed: 1,
            shard: 0,
            shards: 1,
            out: None,
            replay: None,
            budget: None,
            layer: "native".into(),
            opts: Default::default(),
        };
        let mut i = 0;
        while i < args.len() {
            let a = args[i].as_str();
            let v = args.get(i + 1).cloned().unwrap_or_default();
            match a {
                "--tier" => c.thorough = v == "thorough",
                "--seed" => c.seed = v.parse().expect("seed"),
                "--shard" => {
                    let (a, b) = v.split_once('/').expect("i/n");
                    c.shard = a.parse().unwrap();
                    c.shards = b.parse().unwrap();
                }
                "--out" => c.out = Some(v),
                "--replay" => {
                    let s = std::fs::read_to_string(&v).expect("read replay file");
                    let j: Value = serde_json::from_str(&s).expect("replay json");
                    // The driver wraps the monitor's replay object; accept both.
                    c.replay = Some(j.get("replay").cloned().unwrap_or(j));
                }
                "--budget" => c.budget = Some(v.parse().expect("budget")),
                "--layer" => c.layer = v,
                _ if a.starts_with("--") => {
                    c.opts.insert(a[2..].to_string(), v);
                }
                _ => panic!("unknown option {a}"),
            }
            i += 2;
        }
        c
    }

    /// Pick the sample budget: explicit `--budget`, else by tier.
    pub fn n(&self, quick: u64, thorough: u64) -> u64 {
        let total = self.budget.unwrap_or(if self.thorough { thorough } else { quick });
        // per-shard share
        (total / self.shards as u64).max(1)
    }

    /// The sample budget over all shards (not divided).
    pub fn total(&self, quick: u64, thorough: u64) -> u64 {
        self.budget.unwrap_or(if self.thorough { thorough } else { quick })
    }

    pub fn rng(&self, stream: u64) -> vnet::Rng {
        vnet::Rng::derive(
            self.seed,
            stream.wrapping_mul(1_000_003) ^ (self.shard as u64).wrapping_mul(0x9E37),
        )
    }

    pub fn opt(&self, k: &str) -> Option<&str> {
        self.opts.get(k).map(|s| s.as_str())
    }

    /// Does index `i` of an enumerated space belong to this shard?
    pub fn mine(&self, i: u64) -> bool {
        (i % self.shards as u64) as usize == self.shard
    }
}

//! C10 — streaming replies are delivered in order and the connection resumes afterwards.

use crate::cfg::Cfg;
use crate::srv::*;
use serde_json::json;
use vnet::{Report, Rng};

pub struct Built {
    pub scn: Scenario,
    pub chains: Vec<Vec<Ev>>,
}

pub fn build(rng: &mut Rng, nconn: usize, max_calls: usize, allow_write_fail: bool) -> Built {
    build_cuts(rng, nconn, max_calls, allow_write_fail, false)
}

/// `fragment`: cut the byte streams at arbitrary positions instead of frame boundaries (a call then
/// reaches the server in several reads, with other events in between).
pub fn build_cuts(rng: &mut Rng, nconn: usize, max_calls: usize, allow_write_fail: bool, fragment: bool) -> Built {
    let mut scn = Scenario::default();
    let mut chains = Vec::new();
    let failing = if allow_write_fail && rng.chance(1, 3) { Some(rng.below(nconn)) } else { None };
    for i in 0..nconn {
        let client = i as u32;
        let n = rng.range(1, max_calls);
        let mut has_stream = false;
        let calls: Vec<CallSpec> = (0..n)
            .map(|j| {
                let kind = match rng.below(6) {
                    0 => Kind::Fail,
                    1 | 2 | 3 => Kind::Sub,
                    _ => Kind::Echo,
                };
                has_stream |= kind == Kind::Sub;
                CallSpec {
                    kind,
                    seq: 1 + j as u32,
                    oneway: rng.chance(1, 10),
                    // a streaming method called without the `more` flag is still answered by the service with a stream
                    more: if kind == Kind::Sub { !rng.chance(1, 6) } else { rng.chance(1, 10) },
                    payload: payload(rng).chars().take(30).collect(),
                }
            })
            .collect();
        let mut c = ConnScn { calls, ..Default::default() };
        let stream = c.stream(client);
        let fc = frame_cuts(&stream);
        c.cuts = if fragment {
            random_cuts(rng, stream.len(), 4)
        } else {
            match rng.below(3) {
                0 => vec![],
                1 => fc,
                _ => fc.into_iter().filter(|_| rng.chance(1, 2)).collect(),
            }
        };
        chains.push(vec![Ev::Accept(i)]);
        chains.push((0..c.chunks(client).len()).map(|_| Ev::Deliver(i)).collect());
        let mut nwrites_before_items = 0;
        for k in &c.calls {
            if k.kind != Kind::Sub {
                if !k.oneway {
                    nwrites_before_items += 1;
                }
                continue;
            }
            let nitems = rng.below(5);
            let mut s: Vec<Ev> = (0..nitems)
                .map(|n| Ev::Item {
                    client,
                    seq: k.seq,
                    n: n as u32,
                    continues: if n + 1 == nitems && rng.chance(1, 2) { *rng.pick(&[Some(false), None]) } else if rng.chance(1, 8) { *rng.pick(&[Some(false), None]) } else { Some(true) },
                })
                .collect();
            let ends = rng.chance(3, 4);
            if ends {
                s.push(Ev::Close { client, seq: k.seq });
            }
            if !s.is_empty() {
                chains.push(s);
            }
            if failing == Some(i) && c.fail_write_at.is_none() && nitems > 0 && !k.oneway {
                c.fail_write_at = Some(nwrites_before_items + rng.below(nitems));
                c.write_err_kind = rng.below(5) as u8;
            }
            if !k.oneway {
                nwrites_before_items += nitems;
            }
            if !ends && !k.oneway {
                break;
            }
        }
        let _ = has_stream;
        scn.conns.push(c);
    }
    Built { scn, chains }
}

fn check(scn: &Scenario, rep: &mut Report) {
    let res = run_world_caught(scn.world());
    rep.eval(scn.hash());
    let out = match res {
        Err(p) => {
            world_failure(rep, "C10", &p, format!("{}", scn.describe()), scn.to_json("c10"));
            return;
        }
        Ok(o) => o,
    };
    rep.add("stream_items_taken", out.streams.values().map(|s| s.2).sum::<u64>());
    rep.add("streams_attached", out.streams.values().filter(|s| s.0).count() as u64);
    rep.add("handle_invocations", out.log.len() as u64);
    if scn.coop > 0 {
        rep.count("cases_under_a_cooperative_budget");
    }
    if scn.wake {
        rep.count("wake_driven_cases");
        rep.add("wake_driven_waker_firings", out.wakes);
    }
    let mut stats = std::collections::BTreeMap::new();
    let mut vs = check_reference("C10", scn, &out, &mut stats);
    vs.extend(stream_latency("C10", scn, &out, &mut stats));
    for (k, n) in stats {
        if k.starts_with("max_") {
            rep.max(&k, n);
        } else {
            rep.add(&k, n);
        }
    }
    if out.server_exit.is_none() {
        for (i, c) in scn.conns.iter().enumerate() {
            let client = i as u32;
            let produced = produced_until(&out.applied, u64::MAX);
            if let Some(k) = c.fail_write_at {
                rep.count("clients_unwritable_mid_stream");
                // once the failing write was attempted the subscription (and connection) must be gone and
                // nothing more may be attempted on it
                if out.write_calls[i] > k {
                    if out.write_calls[i] > k + 1 {
                        vs.push(("C10/writes-continue-after-the-client-became-unwritable".into(), format!("conn{i}: {} write calls, the one with index {k} failed", out.write_calls[i])));
                    }
                    if let Some(cp) = out.checkpoints.last() {
                        if !cp.dropped[i] {
                            vs.push(("C10/unwritable-client-not-dropped".into(), format!("conn{i} still held by the server after its write failed")));
                        }
                    }
                }
                continue;
            }
            // a subscription of a writable client that has not ended must still be alive
            for call in &c.calls {
                if call.kind == Kind::Sub && !call.oneway {
                    if let Some((attached, dropped, _, left)) = out.streams.get(&(client, call.seq)) {
                        let closed = produced.get(&(client, call.seq)).map_or(false, |p| p.1);
                        if *attached && !closed && *dropped {
                            vs.push(("C10/open-subscription-of-a-writable-client-dropped".into(), format!("conn{i} stream of call #{} was dropped although it never ended", call.seq)));
                        }
                        if *attached && *left > 0 && !*dropped {
                            vs.push(("C10/produced-stream-item-left-undelivered-at-quiescence".into(), format!("conn{i} stream of call #{}: {left} item(s) still queued", call.seq)));
                        }
                    }
                }
            }
        }
    }
    if vs.is_empty() {
        rep.count("cases_ok");
    }
    for (sig, detail) in vs {
        rep.violation(&sig, format!("{detail}; scenario: {}", scn.describe()), scn.to_json("c10"));
    }
}

pub fn run(cfg: &Cfg) -> Report {
    let mut rep = Report::new("C10", "c10");
    if let Some(r) = &cfg.replay {
        let scn = Scenario::from_json(r);
        check(&scn, &mut rep);
        rep.notes.push(format!("{:?}", run_world_caught(scn.world())));
        return rep;
    }
    let miri = cfg.layer == "miri";
    let mut rng = cfg.rng(101);
    let mut orders = std::collections::HashSet::new();
    // (1) all event orders for small configurations
    let n_small = if miri { cfg.n(2, 8) } else { cfg.n(400, 8000) };
    for k in 0..n_small {
        let nconn = rng.range(1, 2);
        let mut b = build(&mut rng, nconn, 2, k % 3 == 0);
        b.scn.wake = k % 2 == 1;
        let total = count_interleavings(&b.chains.iter().map(|c| c.len()).collect::<Vec<_>>());
        let cap = if miri { 6 } else { 3000 };
        if total <= cap {
            let chains = b.chains.clone();
            interleavings(&chains, &mut |order| {
                b.scn.steps = order.iter().map(|e| Step { ev: e.clone(), mode: Mode::Quiesce }).collect();
                orders.insert(vnet::fnv(format!("{:?}", b.scn.steps).as_bytes()));
                check(&b.scn, &mut rep);
                true
            });
            rep.count("configs_all_orders");
        } else {
            for _ in 0..(if miri { 3 } else { 300 }) {
                let order = random_interleaving(&b.chains, &mut rng);
                b.scn.steps = order.into_iter().map(|e| Step { ev: e, mode: Mode::Quiesce }).collect();
                orders.insert(vnet::fnv(format!("{:?}", b.scn.steps).as_bytes()));
                check(&b.scn, &mut rep);
            }
            rep.count("configs_sampled_orders");
        }
        if k % 30 == 0 {
            rep.sample(4, || json!({"kind": "small", "scenario": b.scn.describe()}));
        }
    }
    // (2) random: up to 3 connections, batched and in-handle arrivals
    let n_rand = if miri { cfg.n(2, 8) } else { cfg.n(400_000, 12_000_000) };
    for k in 0..n_rand {
        let nconn = rng.range(1, 3);
        let mut b = build_cuts(&mut rng, nconn, 4, true, k % 4 == 3);
        b.scn.wake = rng.chance(1, 3);
        // every fifth scenario under a cooperative budget: after a few transport operations per poll every transport
        // answers `Pending` until the server task has yielded (what tokio's sockets do after 128 operations)
        if rng.chance(1, 5) {
            b.scn.coop = rng.range(1, 9) as u32;
        }
        // every sixth scenario: the service suspends inside handle() (an arrival or a stream item may become ready meanwhile)
        if rng.chance(1, 6) {
            b.scn.handle_yields = rng.range(1, 2) as u8;
        }
        let order = random_interleaving(&b.chains, &mut rng);
        let style = rng.below(3);
        b.scn.steps = order
            .into_iter()
            .map(|e| Step {
                ev: e,
                mode: if style == 0 {
                    Mode::Quiesce
                } else {
                    match rng.below(4) {
                        0 => Mode::Batch,
                        1 => Mode::InHandle,
                        _ => Mode::Quiesce,
                    }
                },
            })
            .collect();
        orders.insert(vnet::fnv(format!("{:?}", b.scn.steps).as_bytes()));
        check(&b.scn, &mut rep);
        if k % 5000 == 1 {
            rep.sample(8, || json!({"kind": "random", "scenario": b.scn.describe()}));
        }
    }
    // (3) open streams next to a client that keeps the server busy with a long burst of calls
    let n_flood = if miri { 0 } else { cfg.n(1200, 40_000) };
    for k in 0..n_flood {
        let scn = crate::c18::build_flood(&mut rng);
        rep.count("streams_under_flood_cases");
        check(&scn, &mut rep);
        if k < 2 {
            rep.sample(10, || json!({"kind": "streams-under-flood", "scenario": scn.describe().chars().take(900).collect::<String>()}));
        }
    }
    // (4) a busy stream next to a caller: one client's stream has tens or hundreds of items ready at once; in the same
    // instant another client's call arrives. "While the stream is open other clients are still served": the call
    // must be handled before more than a handful of those items have gone out (bounded progress; the bound is three
    // rounds over the connections plus a constant, so that only "the stream is drained first" is flagged).
    let n_busy = if miri { cfg.n(1, 4) } else { cfg.n(3000, 120_000) };
    for k in 0..n_busy {
        let nconn = rng.range(2, 4);
        let streamer = rng.below(nconn);
        let mut scn = Scenario::default();
        for i in 0..nconn {
            let calls = if i == streamer {
                vec![CallSpec { kind: Kind::Sub, seq: 1, oneway: false, more: true, payload: String::new() }]
            } else {
                (0..rng.range(1, 3)).map(|j| CallSpec { kind: if rng.chance(1, 5) { Kind::Fail } else { Kind::Echo }, seq: 1 + j as u32, oneway: rng.chance(1, 6), more: false, payload: payload(&mut rng).chars().take(20).collect() }).collect()
            };
            scn.conns.push(ConnScn { calls, ..Default::default() });
        }
        let nitems = if miri { 12 } else { rng.range(40, 300) };
        let mut steps: Vec<Step> = Vec::new();
        let mut order: Vec<usize> = (0..nconn).collect();
        rng.shuffle(&mut order);
        for i in &order {
            steps.push(Step { ev: Ev::Accept(*i), mode: Mode::Quiesce });
        }
        steps.push(Step { ev: Ev::Deliver(streamer), mode: Mode::Quiesce });
        let burst_step = steps.len();
        let mut burst: Vec<Ev> = (0..nitems).map(|n| Ev::Item { client: streamer as u32, seq: 1, n: n as u32, continues: Some(true) }).collect();
        let mut callers: Vec<usize> = (0..nconn).filter(|i| *i != streamer).collect();
        rng.shuffle(&mut callers);
        let ncallers = rng.range(1, callers.len());
        for c in &callers[..ncallers] {
            burst.insert(rng.below(burst.len() + 1), Ev::Deliver(*c));
        }
        steps.push(Step { ev: Ev::Multi(burst), mode: Mode::Quiesce });
        if rng.chance(1, 2) {
            steps.push(Step { ev: Ev::Close { client: streamer as u32, seq: 1 }, mode: Mode::Quiesce });
        }
        for c in &callers[ncallers..] {
            steps.push(Step { ev: Ev::Deliver(*c), mode: Mode::Quiesce });
        }
        scn.steps = steps;
        scn.wake = k % 2 == 1;
        rep.count("busy_stream_next_to_a_caller_cases");
        check(&scn, &mut rep);
        // the bounded-progress verdict, from the service log: frames the streaming client had been sent when the
        // first call of each caller of the burst was handled, minus those it had before the burst
        if let Ok(out) = run_world_caught(scn.world()) {
            let before = out.checkpoints.iter().filter(|cp| cp.step <= burst_step).last().map(|cp| out.written[streamer][..cp.written[streamer]].iter().filter(|b| **b == 0).count()).unwrap_or(0);
            let bound = 3 * (nconn + 1) + 6;
            for c in &callers[..ncallers] {
                if let Some(l) = out.log.iter().find(|l| l.client == *c as u32 && l.seq == 1) {
                    let sent = l.frames_written.get(streamer).copied().unwrap_or(0) as usize;
                    rep.evaluations += 1;
                    rep.max("max_items_of_a_busy_stream_sent_before_a_waiting_call_was_handled", sent.saturating_sub(before) as u64);
                    if sent.saturating_sub(before) > bound {
                        rep.violation(
                            "C10/other-clients-not-served-while-a-busy-stream-is-open",
                            format!("conn{c}'s call arrived together with {nitems} items of conn{streamer}'s stream; when it was handled {} of them had already been sent (bound {bound}); scenario: {}", sent - before, scn.describe().chars().take(500).collect::<String>()),
                            scn.to_json("c10"),
                        );
                    }
                }
            }
        }
    }
    rep.add("distinct_event_orders", orders.len() as u64);
    rep
}

//! C07 — receiving is cancel-safe.
//!
//! Schedule = chunking of the stream + `Pending` read events before chunks + the subset of
//! suspension points at which the pending receive future is dropped and re-created.
//! Oracle = the C01 reference sequence.

use crate::c01::{frames_from_json, frames_json};
use crate::cfg::Cfg;
use crate::frames::*;
use serde_json::{json, Value};
use vnet::{chunks_at, fnv, fnv_mix, new_wire, Report, Rng, Rx, VSocket};
use zlink_core::{Call, Connection};

#[derive(Clone)]
pub struct Case {
    pub frames: Vec<Frame>,
    pub cuts: Vec<usize>,
    /// Number of `Pending` events before each chunk (same length as the chunk list; missing = 0).
    pub pendings: Vec<u8>,
    /// Cancel decision per suspension point ordinal (beyond the end: `default_cancel`).
    pub cancel: Vec<bool>,
    pub default_cancel: bool,
    /// Use `call_method` for the first receive (reply targets only).
    pub via_call_method: bool,
}

impl Case {
    fn replay(&self) -> Value {
        json!({"monitor": "c07", "frames": frames_json(&self.frames), "cuts": self.cuts,
               "pendings": self.pendings, "cancel": self.cancel, "default_cancel": self.default_cancel,
               "via_call_method": self.via_call_method})
    }
    fn hash(&self) -> u64 {
        let mut h = fnv(&stream_of(&self.frames));
        for f in &self.frames {
            h = fnv_mix(h, f.target as u64);
        }
        for c in &self.cuts {
            h = fnv_mix(h, *c as u64);
        }
        for p in &self.pendings {
            h = fnv_mix(h, *p as u64 + 1000);
        }
        for c in &self.cancel {
            h = fnv_mix(h, *c as u64 + 7);
        }
        fnv_mix(h, self.default_cancel as u64 * 2 + self.via_call_method as u64)
    }
}

pub struct Exec {
    pub actual: Vec<Outcome>,
    pub expected: Vec<Outcome>,
    pub suspensions: usize,
    pub cancels: usize,
}

pub fn execute(case: &Case, states: &mut std::collections::HashSet<(usize, usize, usize)>) -> Exec {
    let stream = stream_of(&case.frames);
    let wire = new_wire(0);
    {
        let mut w = wire.borrow_mut();
        for (i, c) in chunks_at(&stream, &case.cuts).into_iter().enumerate() {
            for _ in 0..case.pendings.get(i).copied().unwrap_or(0) {
                w.push(Rx::Pending);
            }
            w.push(Rx::Bytes(c));
        }
        w.push(Rx::Eof);
    }
    let mut conn = Connection::new(VSocket(wire.clone()));
    let mut expected: Vec<Outcome> = case.frames.iter().map(|f| reference(f.target, &f.bytes)).collect();
    expected.push(Outcome::Eof);
    let n = case.frames.len();
    let mut actual = Vec::new();
    let mut suspensions = 0usize;
    let mut cancels = 0usize;
    let mut ordinal = 0usize;
    let mut decide = |c: &Case, cancels: &mut usize| {
        let d = c.cancel.get(ordinal).copied().unwrap_or(c.default_cancel);
        ordinal += 1;
        if d {
            *cancels += 1;
        }
        d
    };
    let total_pending: usize = case.pendings.iter().map(|p| *p as usize).sum();
    let max_polls = total_pending + 8;
    for j in 0..n + 3 {
        let target = if j < n { case.frames[j].target } else { Target::CallValue };
        let o = if j == 0 && case.via_call_method && target == Target::ReplyStrictA {
            // call_method = send + receive; abandoning it during the receive phase and then
            // receiving directly must still return the reply.
            let call = Call::new(MA::U);
            let mut polls = 0;
            let first = {
              let fut = conn.call_method::<_, PStrict, EA>(&call);
              let mut fut = core::pin::pin!(fut);
              loop {
                polls += 1;
                if polls > max_polls {
                    break Some(Outcome::Stalled);
                }
                match vnet::poll_once(fut.as_mut()) {
                    core::task::Poll::Ready(r) => break Some(canon_reply_result(r)),
                    core::task::Poll::Pending => {
                        suspensions += 1;
                        if decide(case, &mut cancels) {
                            break None;
                        }
                    }
                }
              }
            };
            match first {
                Some(o) => o,
                None => {
                    let mut c = || decide(case, &mut cancels);
                    receive_cancelling(&mut conn, target, &mut c, &mut suspensions, max_polls)
                }
            }
        } else {
            let mut c = || decide(case, &mut cancels);
            receive_cancelling(&mut conn, target, &mut c, &mut suspensions, max_polls)
        };
        #[cfg(zlink_verif)]
        states.insert(conn.read().verif_state());
        let _ = &states;
        let stop = o == Outcome::Eof || o == Outcome::Stalled;
        actual.push(o);
        if stop {
            break;
        }
    }
    Exec { actual, expected, suspensions, cancels }
}

fn check(case: &Case, rep: &mut Report, states: &mut std::collections::HashSet<(usize, usize, usize)>) {
    let res = vnet::catch(|| execute(case, states));
    match res {
        Err(p) => {
            rep.eval(case.hash());
            rep.violation("C07/panic-in-receive", format!("panic: {p}"), case.replay())
        }
        Ok(x) => {
            if x.cancels > 0 {
                rep.eval(case.hash());
            } else {
                // not a cancellation case: counted but not as a distinct non-trivial one
                rep.evaluations += 1;
                rep.count("cases_without_cancellation");
            }
            rep.add("suspension_points", x.suspensions as u64);
            rep.add("cancellations", x.cancels as u64);
            rep.max("max_cancellations_in_one_case", x.cancels as u64);
            let m = x.actual.len().max(x.expected.len());
            if let Some(j) = (0..m).find(|&j| x.actual.get(j) != x.expected.get(j)) {
                let e = x.expected.get(j).map(|o| o.class()).unwrap_or("none");
                let a = x.actual.get(j).map(|o| o.class()).unwrap_or("none");
                let how = if case.via_call_method { "call_method" } else { "receive" };
                rep.violation(
                    &format!("C07/{how}-with-cancellations:expected-{e}-got-{a}"),
                    format!(
                        "receive #{j}: expected {:?}, got {:?}; {} cancellations at {} suspension points; stream={} cuts={:?} pendings={:?}",
                        x.expected.get(j), x.actual.get(j), x.cancels, x.suspensions,
                        vnet::json::show(&stream_of(&case.frames)), case.cuts, case.pendings
                    ),
                    case.replay(),
                );
            }
        }
    }
}

/// (4) mixed consumers: the replies a peer sends are taken off one connection by a random sequence of
/// `receive_reply`, `call_method` and chains (whose reply stream is polled with `next()`), every one of
/// which may be abandoned at any suspension point — after which the *next* operation, of whatever kind,
/// carries on. Whatever was abandoned, the replies obtained, in order, are the replies sent.
fn mixed_case(seed: u64) -> (Result<(), (String, String)>, usize, usize) {
    use crate::c06::{call_for, canon_item, Kind as K6, Rep, Tagged, EC, MC};
    use futures_util::StreamExt;
    let mut rng = Rng::new(seed);
    let n = rng.range(2, 12);
    let reps: Vec<Rep> = (0..n)
        .map(|i| Rep { tag: 500 + i as u32, is_error: rng.chance(1, 6), continues: *rng.pick(&[None, None, Some(false)]), pad: if rng.chance(1, 5) { rng.range(200, 600) } else { rng.below(7) } })
        .collect();
    let stream: Vec<u8> = reps.iter().flat_map(|r| r.bytes()).collect();
    let cuts = random_cuts(&mut rng, stream.len(), 10);
    let wire = new_wire(0);
    {
        let mut w = wire.borrow_mut();
        for c in chunks_at(&stream, &cuts) {
            for _ in 0..rng.below(3) {
                w.push(Rx::Pending);
            }
            w.push(Rx::Bytes(c));
        }
        w.push(Rx::Eof);
    }
    let expected: Vec<String> = reps.iter().map(|r| r.canon()).collect();
    let mut got: Vec<String> = Vec::new();
    let mut conn = Connection::new(VSocket(wire.clone()));
    let mut ops_log: Vec<String> = Vec::new();
    let (mut suspensions, mut cancels) = (0usize, 0usize);
    let p_cancel = *rng.pick(&[2usize, 3, 5]);
    let mut guard = 0;
    while got.len() < n {
        guard += 1;
        if guard > 400 {
            return (Err(("C07/mixed-operations:no-progress".into(), format!("400 operations, {} of {n} replies; ops {:?}", got.len(), ops_log))), suspensions, cancels);
        }
        match rng.below(4) {
            0 | 1 => {
                // plain receive_reply, possibly abandoned
                let fut = conn.receive_reply::<Tagged, EC>();
                let mut fut = core::pin::pin!(fut);
                loop {
                    match vnet::poll_once(fut.as_mut()) {
                        core::task::Poll::Ready(r) => {
                            ops_log.push("receive_reply".into());
                            got.push(canon_item(&r));
                            break;
                        }
                        core::task::Poll::Pending => {
                            suspensions += 1;
                            if rng.chance(1, p_cancel) {
                                cancels += 1;
                                ops_log.push("receive_reply(abandoned)".into());
                                break;
                            }
                        }
                    }
                }
            }
            2 => {
                let call = call_for(K6::Plain, 7);
                let fut = conn.call_method::<MC, Tagged, EC>(&call);
                let mut fut = core::pin::pin!(fut);
                loop {
                    match vnet::poll_once(fut.as_mut()) {
                        core::task::Poll::Ready(r) => {
                            ops_log.push("call_method".into());
                            got.push(canon_item(&r));
                            break;
                        }
                        core::task::Poll::Pending => {
                            suspensions += 1;
                            if rng.chance(1, p_cancel) {
                                cancels += 1;
                                ops_log.push("call_method(abandoned)".into());
                                break;
                            }
                        }
                    }
                }
            }
            _ => {
                // a chain of k plain calls; its stream is polled item by item and may be given up at any point
                let k = rng.range(1, 3).min(n - got.len());
                let mut chain = conn.chain_call::<MC, Tagged, EC>(&call_for(K6::Plain, 0)).expect("enqueue");
                for i in 1..k {
                    chain = chain.append(&call_for(K6::Plain, i as u32)).expect("enqueue");
                }
                let Some(Ok(st)) = vnet::block_on(chain.send(), 4) else {
                    return (Err(("inconclusive".into(), "virtual write did not complete".into())), suspensions, cancels);
                };
                let mut st = core::pin::pin!(st);
                let mut yielded = 0;
                'chain: while yielded < k {
                    let fut = st.next();
                    let mut fut = core::pin::pin!(fut);
                    loop {
                        match vnet::poll_once(fut.as_mut()) {
                            core::task::Poll::Ready(Some(r)) => {
                                got.push(canon_item(&r));
                                yielded += 1;
                                break;
                            }
                            core::task::Poll::Ready(None) => break 'chain,
                            core::task::Poll::Pending => {
                                suspensions += 1;
                                if rng.chance(1, p_cancel) {
                                    cancels += 1;
                                    if rng.chance(1, 2) {
                                        // give the whole stream up; a later operation takes the replies
                                        ops_log.push(format!("chain({k}) given up after {yielded}"));
                                        break 'chain;
                                    }
                                    // only this `next()` future is dropped
                                    break;
                                }
                            }
                        }
                    }
                }
                ops_log.push(format!("chain({k}) yielded {yielded}"));
            }
        }
        let m = got.len();
        if got[..] != expected[..m.min(expected.len())] {
            return (
                Err((
                    "C07/mixed-operations:replies-obtained-differ-from-replies-sent".into(),
                    format!("after operations {ops_log:?}: obtained {got:?}, the peer sent {expected:?}; cuts {cuts:?}; {cancels} abandonments"),
                )),
                suspensions,
                cancels,
            );
        }
    }
    // everything consumed: end of stream
    let fin = vnet::block_on(conn.receive_reply::<Tagged, EC>(), 8);
    if !matches!(fin, Some(Err(zlink_core::Error::UnexpectedEof))) {
        return (Err(("C07/mixed-operations:no-end-of-stream-after-the-last-reply".into(), format!("{:?}; ops {ops_log:?}", fin.map(|r| canon_item(&r))))), suspensions, cancels);
    }
    (Ok(()), suspensions, cancels)
}

fn random_cuts(rng: &mut Rng, len: usize, max: usize) -> Vec<usize> {
    if len < 2 {
        return vec![];
    }
    let k = rng.range(0, max.min(len - 1));
    let mut cuts: Vec<usize> = (0..k).map(|_| rng.range(1, len - 1)).collect();
    cuts.sort_unstable();
    cuts.dedup();
    cuts
}

fn small_stream(rng: &mut Rng, max_frames: usize, big: bool) -> Vec<Frame> {
    let n = rng.range(1, max_frames);
    (0..n)
        .map(|_| {
            if big && rng.chance(1, 3) {
                let k = rng.range(1, 3);
                let len = (256 * k + rng.range(0, 4)) - 2;
                let t = *rng.pick(&TARGETS);
                exact_frame(rng, t, len)
            } else {
                gen_frame(rng, None)
            }
        })
        .collect()
}

pub fn run(cfg: &Cfg) -> Report {
    let mut rep = Report::new("C07", "c07");
    let mut states = std::collections::HashSet::new();
    if let Some(r) = cfg.replay.as_ref().filter(|r| r.get("mixed_seed").is_none()) {
        let case = Case {
            frames: frames_from_json(&r["frames"]),
            cuts: r["cuts"].as_array().unwrap().iter().map(|c| c.as_u64().unwrap() as usize).collect(),
            pendings: r["pendings"].as_array().unwrap().iter().map(|c| c.as_u64().unwrap() as u8).collect(),
            cancel: r["cancel"].as_array().unwrap().iter().map(|c| c.as_bool().unwrap()).collect(),
            default_cancel: r["default_cancel"].as_bool().unwrap(),
            via_call_method: r["via_call_method"].as_bool().unwrap_or(false),
        };
        check(&case, &mut rep, &mut states);
        let x = execute(&case, &mut states);
        rep.notes.push(format!("replay: actual={:?} expected={:?}", x.actual, x.expected));
        return rep;
    }
    if let Some(seed) = cfg.replay.as_ref().and_then(|r| r["mixed_seed"].as_u64()) {
        let (r, _, _) = mixed_case(seed);
        rep.eval(seed);
        if let Err((sig, d)) = r {
            rep.violation(&sig, d, json!({"monitor": "c07", "mixed_seed": seed}));
        }
        return rep;
    }
    let miri = cfg.layer == "miri";

    // (1) exhaustive: every subset of suspension points for streams with <= B of them
    let bound = if miri { if cfg.thorough { 8 } else { 5 } } else if cfg.thorough { 14 } else { 12 };
    let mut rng = cfg.rng(71);
    let n_ex = if miri { cfg.n(8, 32) } else { cfg.n(16, 200) };
    let mut idx = 0u64;
    for s in 0..n_ex {
        // Build a stream whose schedule has exactly `bound` suspension points when nothing is
        // cancelled (a cancelled poll consumed its Pending marker, so the count is schedule-stable).
        let frames = small_stream(&mut rng, 3, s % 2 == 1);
        let stream = stream_of(&frames);
        let cuts = random_cuts(&mut rng, stream.len(), bound);
        let nchunks = cuts.len() + 1;
        let mut pendings = vec![0u8; nchunks];
        let mut left = bound;
        // spread `bound` pendings over the chunks (0..=2 each, remainder on the last)
        for p in pendings.iter_mut() {
            let k = rng.range(0, 2.min(left));
            *p = k as u8;
            left -= k;
        }
        *pendings.last_mut().unwrap() += left as u8;
        let via = s % 4 == 3 && frames[0].target == Target::ReplyStrictA;
        for mask in 0u32..(1u32 << bound) {
            idx += 1;
            if !cfg.mine(idx) {
                continue;
            }
            let cancel: Vec<bool> = (0..bound).map(|b| mask >> b & 1 == 1).collect();
            let case = Case { frames: frames.clone(), cuts: cuts.clone(), pendings: pendings.clone(), cancel, default_cancel: false, via_call_method: via };
            check(&case, &mut rep, &mut states);
            rep.count("exhaustive_subset_cases");
        }
        if s < 3 {
            rep.sample(4, || json!({"stream": vnet::json::show(&stream), "cuts": cuts, "pendings_before_chunks": pendings, "suspension_points": bound, "cancel_subsets": 1u64 << bound}));
        }
    }

    // (2) every k-th suspension cancelled, for every k; all cancelled; random subsets
    let mut rng = cfg.rng(72);
    let n_rand = if miri { cfg.n(16, 200) } else { cfg.n(3_000, 300_000) };
    for i in 0..n_rand {
        let frames = small_stream(&mut rng, 6, i % 3 == 0);
        let stream = stream_of(&frames);
        let cuts = random_cuts(&mut rng, stream.len(), 24);
        let pendings: Vec<u8> = (0..cuts.len() + 1).map(|_| rng.below(3) as u8).collect();
        let total: usize = pendings.iter().map(|p| *p as usize).sum();
        let via = rng.chance(1, 5);
        let mk = |cancel: Vec<bool>, default_cancel: bool| Case { frames: frames.clone(), cuts: cuts.clone(), pendings: pendings.clone(), cancel, default_cancel, via_call_method: via };
        check(&mk(vec![], true), &mut rep, &mut states); // cancel at every point
        check(&mk(vec![], false), &mut rep, &mut states); // never cancel (control)
        for k in 2..=total.min(if miri { 3 } else { 12 }) {
            let cancel: Vec<bool> = (0..total).map(|p| p % k == k - 1).collect();
            check(&mk(cancel, false), &mut rep, &mut states);
        }
        for _ in 0..(if miri { 1 } else { 4 }) {
            let cancel: Vec<bool> = (0..total).map(|_| rng.chance(1, 2)).collect();
            check(&mk(cancel, false), &mut rep, &mut states);
        }
    }
    // (3) long pipelined bursts (17..120 small frames buffered at once or in a few big chunks): a receive
    // abandoned at ANY point where it returns Pending - also one the transport did not cause (a cooperative
    // yield inside the library) - must lose nothing
    let mut rng = cfg.rng(73);
    for i in 0..(if miri { cfg.n(2, 8) } else { cfg.n(400, 40_000) }) {
        let n = if miri { rng.range(17, 24) } else { rng.range(17, if i % 4 == 0 { 120 } else { 48 }) };
        let frames: Vec<Frame> = (0..n).map(|_| gen_frame(&mut rng, None)).collect();
        let stream = stream_of(&frames);
        let cuts = match i % 4 {
            0 => vec![],
            1 => (1..).map(|k| k * 1000).take_while(|c| *c < stream.len()).collect(),
            2 => random_cuts(&mut rng, stream.len(), 3),
            _ => random_cuts(&mut rng, stream.len(), 12),
        };
        let pendings: Vec<u8> = (0..cuts.len() + 1).map(|_| rng.below(2) as u8).collect();
        let mk = |cancel: Vec<bool>, default_cancel: bool| Case { frames: frames.clone(), cuts: cuts.clone(), pendings: pendings.clone(), cancel, default_cancel, via_call_method: false };
        check(&mk(vec![], true), &mut rep, &mut states);
        check(&mk(vec![], false), &mut rep, &mut states);
        let cancel: Vec<bool> = (0..64).map(|_| rng.chance(1, 2)).collect();
        check(&mk(cancel, true), &mut rep, &mut states);
        rep.count("long_burst_streams");
        rep.max("max_frames_in_one_burst", n as u64);
    }
    // (4) mixed consumers
    let n_mixed = if miri { cfg.n(8, 64) } else { cfg.n(60_000, 3_000_000) };
    for i in 0..n_mixed {
        let seed = cfg.seed.wrapping_mul(0x9E37_79B9).wrapping_add((cfg.shard as u64) << 40).wrapping_add(i) ^ 0x07;
        let res = vnet::catch(|| mixed_case(seed));
        rep.count("mixed_consumer_cases");
        match res {
            Err(p) => {
                rep.eval(seed);
                rep.violation("C07/panic-in-receive", format!("mixed operations: panic: {p}"), json!({"monitor": "c07", "mixed_seed": seed}));
            }
            Ok((r, susp, canc)) => {
                if canc > 0 {
                    rep.eval(seed);
                } else {
                    rep.evaluations += 1;
                }
                rep.add("suspension_points", susp as u64);
                rep.add("cancellations", canc as u64);
                match r {
                    Ok(()) => {}
                    Err((sig, d)) if sig == "inconclusive" => rep.inconclusive.push(d),
                    Err((sig, d)) => rep.violation(&sig, d, json!({"monitor": "c07", "mixed_seed": seed})),
                }
            }
        }
    }
    rep.add("distinct_hook_states(read_pos,msg_pos,buf_len)", states.len() as u64);
    rep
}

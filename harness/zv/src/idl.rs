//! IDL machinery shared by C13 / C14 (and the C15 corpus generator): the harness' own description
//! tree, a grammar-driven generator, a renderer with random legal layout, an independent
//! tokenizer + recogniser for the Varlink grammar, and a deep comparer against zlink's tree.

use serde_json::{json, Value};
use vnet::Rng;
use zlink_core::idl;

#[derive(Debug, Clone, PartialEq)]
pub enum GTy {
    Bool,
    Int,
    Float,
    Str,
    Object,
    Optional(Box<GTy>),
    Array(Box<GTy>),
    Map(Box<GTy>),
    Custom(String),
    Enum(Vec<GVariant>),
    Struct(Vec<GField>),
}

#[derive(Debug, Clone, PartialEq)]
pub struct GField {
    pub name: String,
    pub comments: Vec<String>,
    pub ty: GTy,
}

#[derive(Debug, Clone, PartialEq)]
pub struct GVariant {
    pub name: String,
    pub comments: Vec<String>,
}

#[derive(Debug, Clone, PartialEq)]
pub enum GBody {
    Struct(Vec<GField>),
    Enum(Vec<GVariant>),
}

#[derive(Debug, Clone, PartialEq)]
pub enum GMember {
    Type { name: String, comments: Vec<String>, body: GBody },
    Method { name: String, comments: Vec<String>, inputs: Vec<GField>, outputs: Vec<GField> },
    Error { name: String, comments: Vec<String>, fields: Vec<GField> },
}

#[derive(Debug, Clone, PartialEq)]
pub struct GIface {
    pub name: String,
    pub comments: Vec<String>,
    pub members: Vec<GMember>,
}

// ---------------------------------------------------------------------------------------------
// generator

pub struct GenCfg {
    pub max_members: usize,
    pub max_depth: usize,
    /// comments at interface / member / direct field / parameter / variant level
    pub comments: bool,
    /// comments also inside inline types (not compared; acceptance only)
    pub deep_comments: bool,
    /// one comment line in eight ends in white space (a Markdown line break, a tab, U+3000, U+00A0): descriptions
    /// built with the constructors may carry such texts, and what is rendered must come back as it was
    pub trailing_blanks: bool,
    /// allow a reference to a custom type defined in the same interface
    pub custom_refs: bool,
}

const LOWER: &[u8] = b"abcdefghijklmnopqrstuvwxyz";
const UPPER: &[u8] = b"ABCDEFGHIJKLMNOPQRSTUVWXYZ";
const DIGIT: &[u8] = b"0123456789";

fn alnum(rng: &mut Rng) -> char {
    match rng.below(3) {
        0 => *rng.pick(LOWER) as char,
        1 => *rng.pick(UPPER) as char,
        _ => *rng.pick(DIGIT) as char,
    }
}

/// Mostly short names; now and then a long one (so that rendered lines get wide).
fn name_len(rng: &mut Rng) -> usize {
    if rng.chance(1, 14) {
        rng.range(12, 34)
    } else {
        rng.below(8)
    }
}

/// Length of a list of variants / fields: mostly `lo..=hi`, now and then long (8..24) so that the rendered
/// list is wider than any plausible line width.
fn list_len(rng: &mut Rng, lo: usize, hi: usize) -> usize {
    if rng.chance(1, 12) {
        rng.range(8, 24)
    } else {
        rng.range(lo, hi)
    }
}

/// `[A-Z][A-Za-z0-9]*`
pub fn type_name(rng: &mut Rng) -> String {
    let mut s = String::new();
    s.push(*rng.pick(UPPER) as char);
    for _ in 0..name_len(rng) {
        s.push(alnum(rng));
    }
    // never a primitive keyword (those start lowercase anyway)
    s
}

/// `[A-Za-z](_?[A-Za-z0-9])*`
pub fn field_name(rng: &mut Rng) -> String {
    let mut s = String::new();
    s.push(if rng.chance(1, 4) { *rng.pick(UPPER) } else { *rng.pick(LOWER) } as char);
    for _ in 0..name_len(rng) {
        if rng.chance(1, 5) {
            s.push('_');
        }
        s.push(alnum(rng));
    }
    s
}

/// `[A-Za-z]([-]*[A-Za-z0-9])*(\.[A-Za-z0-9]([-]*[A-Za-z0-9])*)+`
pub fn interface_name(rng: &mut Rng) -> String {
    let mut s = String::new();
    let segs = rng.range(2, 4);
    for k in 0..segs {
        if k > 0 {
            s.push('.');
        }
        s.push(if k == 0 { (if rng.chance(1, 2) { *rng.pick(LOWER) } else { *rng.pick(UPPER) }) as char } else { alnum(rng) });
        for _ in 0..rng.below(6) {
            while rng.chance(1, 6) {
                s.push('-');
            }
            s.push(alnum(rng));
        }
    }
    s
}

pub fn comment_text(rng: &mut Rng) -> String {
    const WORDS: &[&str] = &["the", "value", "of", "x", "(a: int)", "type", "method", "error", "->", "#", "interface", "a,b", "?", "[]", "ünï", ":", "TODO", "-", "\"q\"", "1.2",
        "(", ")", "((", "(1", "2)", "[", "]", "[string", "{", "}", ":-)", ";", "\\", "'", "type T (", "method M(", "error E (", "interface x.y", "-> (", "(a:", "##", "\u{1F600}"];
    // now and then a long legend / ASCII-art style line: dozens of brackets that are never closed
    let n = if rng.chance(1, 12) { rng.range(20, 90) } else { rng.below(5) };
    if n >= 20 && rng.chance(1, 2) {
        let w = *rng.pick(&["(", "((", "(1", "[", "method M(", "{", ")", "-> ("]);
        return (0..n).map(|_| w).collect::<Vec<_>>().join(" ");
    }
    (0..n).map(|_| *rng.pick(WORDS)).collect::<Vec<_>>().join(" ")
}

thread_local! {
    static TRAILING_BLANKS: std::cell::Cell<bool> = const { std::cell::Cell::new(false) };
}

fn comments(rng: &mut Rng, on: bool) -> Vec<String> {
    if !on || !rng.chance(1, 3) {
        return vec![];
    }
    let k = if rng.chance(1, 10) { rng.range(3, 8) } else { rng.range(1, 2) };
    (0..k)
        .map(|_| {
            let mut t = comment_text(rng);
            if TRAILING_BLANKS.with(|c| c.get()) && !t.is_empty() && rng.chance(1, 8) {
                t.push_str(*rng.pick(&["  ", " ", "\t", "\u{3000}", " \u{a0}", " \t "]));
            }
            t
        })
        .collect()
}

fn unique(rng: &mut Rng, used: &mut Vec<String>, f: fn(&mut Rng) -> String) -> String {
    loop {
        let n = f(rng);
        if !used.contains(&n) && !["bool", "int", "float", "string", "object"].contains(&n.as_str()) {
            used.push(n.clone());
            return n;
        }
    }
}

pub fn gen_ty(rng: &mut Rng, depth: usize, cfg: &GenCfg, customs: &[String], optional_ok: bool) -> GTy {
    let leaf = depth == 0 || rng.chance(2, 5);
    if leaf {
        return match rng.below(if cfg.custom_refs && !customs.is_empty() { 6 } else { 5 }) {
            0 => GTy::Bool,
            1 => GTy::Int,
            2 => GTy::Float,
            3 => GTy::Str,
            4 => GTy::Object,
            _ => GTy::Custom(rng.pick(customs).clone()),
        };
    }
    match rng.below(if optional_ok { 5 } else { 4 }) {
        0 => GTy::Array(Box::new(gen_ty(rng, depth - 1, cfg, customs, true))),
        1 => GTy::Map(Box::new(gen_ty(rng, depth - 1, cfg, customs, true))),
        2 => {
            let mut used = vec![];
            let n = list_len(rng, 1, 4);
            GTy::Enum((0..n).map(|_| GVariant { name: unique(rng, &mut used, field_name), comments: comments(rng, cfg.deep_comments) }).collect())
        }
        3 if rng.chance(1, 30) => {
            // a wide object whose fields are themselves small inline objects / enums (what nesting derived types
            // produces): dozens of inline types inside one member type, none of them deep
            let n = rng.range(20, 70);
            let mut used = vec![];
            GTy::Struct(
                (0..n)
                    .map(|k| {
                        let mut u2 = vec![];
                        let inner = match k % 3 {
                            0 => GTy::Struct(vec![GField { name: unique(rng, &mut u2, field_name), comments: vec![], ty: GTy::Int }]),
                            1 => GTy::Optional(Box::new(GTy::Struct(vec![GField { name: unique(rng, &mut u2, field_name), comments: vec![], ty: GTy::Array(Box::new(GTy::Str)) }]))),
                            _ => GTy::Enum((0..2).map(|_| GVariant { name: unique(rng, &mut u2, field_name), comments: vec![] }).collect()),
                        };
                        GField { name: unique(rng, &mut used, field_name), comments: vec![], ty: inner }
                    })
                    .collect(),
            )
        }
        3 => {
            let n = rng.below(2) + 1;
            GTy::Struct(gen_fields(rng, depth - 1, cfg, customs, n, cfg.deep_comments))
        }
        _ => GTy::Optional(Box::new(gen_ty(rng, depth - 1, cfg, customs, false))),
    }
}

fn gen_fields(rng: &mut Rng, depth: usize, cfg: &GenCfg, customs: &[String], n: usize, with_comments: bool) -> Vec<GField> {
    let mut used = vec![];
    (0..n)
        .map(|_| GField { name: unique(rng, &mut used, field_name), comments: comments(rng, with_comments), ty: gen_ty(rng, depth, cfg, customs, true) })
        .collect()
}

pub fn gen_iface(rng: &mut Rng, cfg: &GenCfg) -> GIface {
    TRAILING_BLANKS.with(|c| c.set(cfg.trailing_blanks));
    let n = rng.range(0, cfg.max_members);
    let mut names = vec![];
    let kinds: Vec<usize> = (0..n).map(|_| rng.below(3)).collect();
    // Names are unique within a kind; a type, a method and an error may share one (`type Status`, `method Status`,
    // `error Status` are three different members): every fifth member takes a name that another kind already uses.
    let mut by_kind: [Vec<String>; 3] = [Vec::new(), Vec::new(), Vec::new()];
    let member_names: Vec<String> = kinds
        .iter()
        .map(|k| {
            let borrowed: Vec<String> = (0..3).filter(|o| o != k).flat_map(|o| by_kind[o].iter().cloned()).filter(|n| !by_kind[*k].contains(n)).collect();
            let name = if !borrowed.is_empty() && rng.chance(1, 5) { rng.pick(&borrowed).clone() } else { unique(rng, &mut names, type_name) };
            by_kind[*k].push(name.clone());
            name
        })
        .collect();
    let customs: Vec<String> = kinds.iter().zip(&member_names).filter(|(k, _)| **k == 0).map(|(_, n)| n.clone()).collect();
    let mut members = Vec::new();
    for (k, name) in kinds.iter().zip(member_names) {
        let depth = rng.range(0, cfg.max_depth);
        let cm = comments(rng, cfg.comments);
        members.push(match k {
            0 => {
                if rng.chance(1, 3) {
                    let mut used = vec![];
                    let nv = list_len(rng, 1, 5);
                    GMember::Type { name, comments: cm, body: GBody::Enum((0..nv).map(|_| GVariant { name: unique(rng, &mut used, field_name), comments: comments(rng, cfg.comments) }).collect()) }
                } else {
                    let nf = list_len(rng, 0, 4);
                    GMember::Type { name, comments: cm, body: GBody::Struct(gen_fields(rng, depth, cfg, &customs, nf, cfg.comments)) }
                }
            }
            1 => {
                let (ni, no) = (list_len(rng, 0, 3), rng.range(0, 3));
                GMember::Method { name, comments: cm, inputs: gen_fields(rng, depth, cfg, &customs, ni, cfg.comments), outputs: gen_fields(rng, depth, cfg, &customs, no, cfg.comments) }
            }
            _ => {
                let nf = rng.range(0, 3);
                GMember::Error { name, comments: cm, fields: gen_fields(rng, depth, cfg, &customs, nf, cfg.comments) }
            }
        });
    }
    GIface { name: interface_name(rng), comments: comments(rng, cfg.comments), members }
}

// ---------------------------------------------------------------------------------------------
// renderer with random legal layout

pub struct Layout<'r> {
    pub rng: &'r mut Rng,
    /// 0 = canonical single spaces, 1 = random spaces/tabs/newlines between tokens
    pub wild: bool,
}

impl Layout<'_> {
    /// optional whitespace between two tokens
    fn ows(&mut self, out: &mut String) {
        if !self.wild {
            return;
        }
        for _ in 0..self.rng.below(3) {
            out.push(*self.rng.pick(&[' ', ' ', '\t', '\n', '\r']));
        }
    }
    /// mandatory whitespace
    fn mws(&mut self, out: &mut String) {
        if !self.wild {
            out.push(' ');
            return;
        }
        out.push(*self.rng.pick(&[' ', '\t', '\n', '\r']));
        self.ows(out);
    }
    /// comments on their own lines; leaves the cursor at the start of a line
    fn comments(&mut self, out: &mut String, cs: &[String], indent: &str) {
        for c in cs {
            if !out.is_empty() && !out.ends_with('\n') {
                out.push('\n');
            }
            out.push_str(indent);
            out.push('#');
            if !c.is_empty() || self.rng.chance(1, 2) {
                out.push(' ');
            }
            out.push_str(c);
            out.push('\n');
        }
    }
}

pub fn render_ty(t: &GTy, l: &mut Layout, out: &mut String) {
    match t {
        GTy::Bool => out.push_str("bool"),
        GTy::Int => out.push_str("int"),
        GTy::Float => out.push_str("float"),
        GTy::Str => out.push_str("string"),
        GTy::Object => out.push_str("object"),
        GTy::Optional(i) => {
            out.push('?');
            render_ty(i, l, out);
        }
        GTy::Array(i) => {
            out.push_str("[]");
            render_ty(i, l, out);
        }
        GTy::Map(i) => {
            out.push_str("[string]");
            render_ty(i, l, out);
        }
        GTy::Custom(n) => out.push_str(n),
        GTy::Enum(vs) => render_variants(vs, l, out),
        GTy::Struct(fs) => render_fields(fs, l, out),
    }
}

fn render_variants(vs: &[GVariant], l: &mut Layout, out: &mut String) {
    out.push('(');
    for (i, v) in vs.iter().enumerate() {
        if i > 0 {
            l.ows(out);
            out.push(',');
        }
        l.ows(out);
        l.comments(out, &v.comments, "  ");
        out.push_str(&v.name);
    }
    l.ows(out);
    out.push(')');
}

pub fn render_fields(fs: &[GField], l: &mut Layout, out: &mut String) {
    out.push('(');
    for (i, f) in fs.iter().enumerate() {
        if i > 0 {
            l.ows(out);
            out.push(',');
        }
        l.ows(out);
        l.comments(out, &f.comments, "  ");
        out.push_str(&f.name);
        l.ows(out);
        out.push(':');
        l.ows(out);
        render_ty(&f.ty, l, out);
    }
    l.ows(out);
    out.push(')');
}

pub fn render(i: &GIface, l: &mut Layout) -> String {
    let mut out = String::new();
    if l.wild && l.rng.chance(1, 3) {
        out.push_str("\n \t\n");
    }
    l.comments(&mut out, &i.comments, "");
    out.push_str("interface");
    l.mws(&mut out);
    out.push_str(&i.name);
    for m in &i.members {
        // the line of the interface name / of the previous member ends: LF, CR LF or a lone CR, after blanks or not
        if l.wild {
            out.push_str(*l.rng.pick(&["\n", "\n", "\r\n", " \n", "\t \r\n", "\r"]));
        } else {
            out.push('\n');
        }
        if l.wild {
            for _ in 0..l.rng.below(3) {
                out.push_str(*l.rng.pick(&["\n", " \n", "\t\n", "\r\n", "\r\n", "\r"]));
            }
        } else {
            out.push('\n');
        }
        match m {
            GMember::Type { name, comments, body } => {
                l.comments(&mut out, comments, "");
                out.push_str("type");
                l.mws(&mut out);
                out.push_str(name);
                l.ows(&mut out);
                match body {
                    GBody::Struct(fs) => render_fields(fs, l, &mut out),
                    GBody::Enum(vs) => render_variants(vs, l, &mut out),
                }
            }
            GMember::Method { name, comments, inputs, outputs } => {
                l.comments(&mut out, comments, "");
                out.push_str("method");
                l.mws(&mut out);
                out.push_str(name);
                l.ows(&mut out);
                render_fields(inputs, l, &mut out);
                l.ows(&mut out);
                out.push_str("->");
                l.ows(&mut out);
                render_fields(outputs, l, &mut out);
            }
            GMember::Error { name, comments, fields } => {
                l.comments(&mut out, comments, "");
                out.push_str("error");
                l.mws(&mut out);
                out.push_str(name);
                l.ows(&mut out);
                render_fields(fields, l, &mut out);
            }
        }
    }
    if l.wild {
        for _ in 0..l.rng.below(3) {
            out.push_str(*l.rng.pick(&["\n", " ", "\t"]));
        }
    } else {
        out.push('\n');
    }
    out
}

// ---------------------------------------------------------------------------------------------
// independent tokenizer and recogniser

#[derive(Debug, Clone, PartialEq, Eq, Hash)]
pub enum Tok {
    Word(String),
    LParen,
    RParen,
    Colon,
    Comma,
    Arrow,
    Question,
    ArrayPrefix,
    MapPrefix,
}

/// Tokenize; whitespace and `#...` comments are dropped wherever they occur. Err on an illegal
/// character. Words are maximal runs of `[A-Za-z0-9_.-]` (a `-` directly followed by `>` ends the word).
pub fn tokenize(text: &str) -> Result<Vec<Tok>, String> {
    let b = text.as_bytes();
    let mut i = 0;
    let mut out = Vec::new();
    while i < b.len() {
        let c = b[i];
        match c {
            b' ' | b'\t' | b'\n' | b'\r' => i += 1,
            b'#' => {
                while i < b.len() && b[i] != b'\n' {
                    i += 1;
                }
            }
            b'(' => {
                out.push(Tok::LParen);
                i += 1;
            }
            b')' => {
                out.push(Tok::RParen);
                i += 1;
            }
            b':' => {
                out.push(Tok::Colon);
                i += 1;
            }
            b',' => {
                out.push(Tok::Comma);
                i += 1;
            }
            b'?' => {
                out.push(Tok::Question);
                i += 1;
            }
            b'-' if b.get(i + 1) == Some(&b'>') => {
                out.push(Tok::Arrow);
                i += 2;
            }
            b'[' => {
                if b[i..].starts_with(b"[]") {
                    out.push(Tok::ArrayPrefix);
                    i += 2;
                } else if b[i..].starts_with(b"[string]") {
                    out.push(Tok::MapPrefix);
                    i += 8;
                } else {
                    return Err(format!("illegal '[' at byte {i}"));
                }
            }
            _ if c.is_ascii_alphanumeric() || c == b'_' || c == b'.' || c == b'-' => {
                let s = i;
                while i < b.len() && (b[i].is_ascii_alphanumeric() || b[i] == b'_' || b[i] == b'.' || (b[i] == b'-' && b.get(i + 1) != Some(&b'>'))) {
                    i += 1;
                }
                out.push(Tok::Word(text[s..i].to_string()));
            }
            _ => {
                let ch = text[i..].chars().next().unwrap();
                if ch.is_whitespace() {
                    // the grammar's end-of-line class includes U+2028 / U+2029; how other Unicode white
                    // space is treated is not judged (zlink trims it at the ends of the text)
                    i += ch.len_utf8();
                } else {
                    return Err(format!("illegal character {ch:?} at byte {i}"));
                }
            }
        }
    }
    Ok(out)
}

pub fn is_type_name(s: &str) -> bool {
    let b = s.as_bytes();
    !b.is_empty() && b[0].is_ascii_uppercase() && b.iter().all(|c| c.is_ascii_alphanumeric())
}

pub fn is_field_name(s: &str) -> bool {
    let b = s.as_bytes();
    if b.is_empty() || !b[0].is_ascii_alphabetic() {
        return false;
    }
    let mut prev_us = false;
    for &c in &b[1..] {
        if c == b'_' {
            if prev_us {
                return false;
            }
            prev_us = true;
        } else if c.is_ascii_alphanumeric() {
            prev_us = false;
        } else {
            return false;
        }
    }
    !prev_us
}

pub fn is_interface_name(s: &str) -> bool {
    let segs: Vec<&str> = s.split('.').collect();
    if segs.len() < 2 {
        return false;
    }
    for (k, seg) in segs.iter().enumerate() {
        let b = seg.as_bytes();
        if b.is_empty() {
            return false;
        }
        let first_ok = if k == 0 { b[0].is_ascii_alphabetic() } else { b[0].is_ascii_alphanumeric() };
        if !first_ok || !b[b.len() - 1].is_ascii_alphanumeric() {
            return false;
        }
        if !b.iter().all(|c| c.is_ascii_alphanumeric() || *c == b'-') {
            return false;
        }
    }
    true
}

struct P<'a> {
    t: &'a [Tok],
    i: usize,
}

impl P<'_> {
    fn peek(&self) -> Option<&Tok> {
        self.t.get(self.i)
    }
    fn eat(&mut self, t: &Tok) -> Result<(), String> {
        if self.peek() == Some(t) {
            self.i += 1;
            Ok(())
        } else {
            Err(format!("expected {t:?} at token {}, found {:?}", self.i, self.peek()))
        }
    }
    fn word(&mut self) -> Result<String, String> {
        match self.peek() {
            Some(Tok::Word(w)) => {
                let w = w.clone();
                self.i += 1;
                Ok(w)
            }
            o => Err(format!("expected a word at token {}, found {o:?}", self.i)),
        }
    }
    fn ty(&mut self, optional_ok: bool) -> Result<(), String> {
        match self.peek() {
            Some(Tok::Question) => {
                if !optional_ok {
                    return Err("`??` is not a type".into());
                }
                self.i += 1;
                self.ty(false)
            }
            Some(Tok::ArrayPrefix) | Some(Tok::MapPrefix) => {
                self.i += 1;
                self.ty(true)
            }
            Some(Tok::Word(w)) => {
                let ok = ["bool", "int", "float", "string", "object"].contains(&w.as_str()) || is_type_name(w);
                if !ok {
                    return Err(format!("{w:?} is neither a primitive nor a type name"));
                }
                self.i += 1;
                Ok(())
            }
            Some(Tok::LParen) => self.body(true),
            o => Err(format!("expected a type at token {}, found {o:?}", self.i)),
        }
    }
    /// `( )`, `( name : type , ... )` or (if `enum_ok`) `( name , ... )`; never mixed
    fn body(&mut self, enum_ok: bool) -> Result<(), String> {
        self.eat(&Tok::LParen)?;
        if self.peek() == Some(&Tok::RParen) {
            self.i += 1;
            return Ok(());
        }
        let mut typed: Option<bool> = None;
        loop {
            let n = self.word()?;
            if !is_field_name(&n) {
                return Err(format!("{n:?} is not a field name"));
            }
            let this_typed = if self.peek() == Some(&Tok::Colon) {
                self.i += 1;
                self.ty(true)?;
                true
            } else {
                false
            };
            if !this_typed && !enum_ok {
                return Err(format!("field {n:?} has no type"));
            }
            if typed.is_some() && typed != Some(this_typed) {
                return Err("mixed struct / enum body".into());
            }
            typed = Some(this_typed);
            match self.peek() {
                Some(Tok::Comma) => self.i += 1,
                Some(Tok::RParen) => {
                    self.i += 1;
                    return Ok(());
                }
                o => return Err(format!("expected `,` or `)` at token {}, found {o:?}", self.i)),
            }
        }
    }
}

/// Does the text belong to the Varlink interface grammar at the token / structure level?
/// Layout (where comments and line breaks are) is deliberately not judged.
pub fn recognise(text: &str) -> Result<(), String> {
    let toks = tokenize(text)?;
    let mut p = P { t: &toks, i: 0 };
    p.eat(&Tok::Word("interface".into()))?;
    let n = p.word()?;
    if !is_interface_name(&n) {
        return Err(format!("{n:?} is not an interface name"));
    }
    while p.peek().is_some() {
        let kw = p.word()?;
        let name = p.word()?;
        if !is_type_name(&name) {
            return Err(format!("{name:?} is not a member name"));
        }
        match kw.as_str() {
            "type" => p.body(true)?,
            "error" => p.body(false)?,
            "method" => {
                p.body(false)?;
                p.eat(&Tok::Arrow)?;
                p.body(false)?;
            }
            _ => return Err(format!("unknown member keyword {kw:?}")),
        }
    }
    Ok(())
}

/// Token sequence with the members regrouped the way zlink's `Display` orders them (types, then
/// methods, then errors; stable within a kind), so that input and rendered output are comparable.
pub fn canonical_tokens(text: &str) -> Result<Vec<Tok>, String> {
    let toks = tokenize(text)?;
    let mut head = Vec::new();
    let mut groups: [Vec<Tok>; 3] = [vec![], vec![], vec![]];
    let mut depth = 0i32;
    let mut cur: Option<usize> = None;
    for (k, t) in toks.iter().enumerate() {
        if depth == 0 && k >= 2 {
            if let Tok::Word(w) = t {
                // a member keyword is followed by a name and then `(`
                let starts = matches!(toks.get(k + 2), Some(Tok::LParen)) || toks.get(k + 1).is_none() || !matches!(toks.get(k + 1), Some(Tok::LParen));
                match w.as_str() {
                    "type" if starts => cur = Some(0),
                    "method" if starts => cur = Some(1),
                    "error" if starts => cur = Some(2),
                    _ => {}
                }
            }
        }
        match t {
            Tok::LParen => depth += 1,
            Tok::RParen => depth -= 1,
            _ => {}
        }
        match cur {
            None => head.push(t.clone()),
            Some(g) => groups[g].push(t.clone()),
        }
    }
    for g in groups {
        head.extend(g);
    }
    Ok(head)
}

// ---------------------------------------------------------------------------------------------
// deep comparison: harness tree vs zlink tree (accessors only)

fn cmp_comments<'a>(got: impl Iterator<Item = &'a idl::Comment<'a>>, want: &[String], at: &str, strict: bool) -> Result<(), String> {
    if !strict {
        return Ok(());
    }
    let got: Vec<&str> = got.map(|c| c.content()).collect();
    let want: Vec<&str> = want.iter().map(|s| s.as_str()).collect();
    if got != want {
        return Err(format!("{at}: comments {got:?}, expected {want:?}"));
    }
    Ok(())
}

pub fn cmp_ty(got: &idl::Type<'_>, want: &GTy, at: &str) -> Result<(), String> {
    use idl::Type as T;
    match (got, want) {
        (T::Bool, GTy::Bool) | (T::Int, GTy::Int) | (T::Float, GTy::Float) | (T::String, GTy::Str) | (T::ForeignObject, GTy::Object) => Ok(()),
        (T::Optional(i), GTy::Optional(w)) => cmp_ty(i.inner(), w, &format!("{at}?")),
        (T::Array(i), GTy::Array(w)) => cmp_ty(i.inner(), w, &format!("{at}[]")),
        (T::Map(i), GTy::Map(w)) => cmp_ty(i.inner(), w, &format!("{at}[string]")),
        (T::Custom(n), GTy::Custom(w)) if n == w => Ok(()),
        (T::Enum(vs), GTy::Enum(w)) => {
            let got: Vec<&str> = vs.iter().map(|v| v.name()).collect();
            let want: Vec<&str> = w.iter().map(|v| v.name.as_str()).collect();
            if got == want {
                Ok(())
            } else {
                Err(format!("{at}: inline enum variants {got:?}, expected {want:?}"))
            }
        }
        (T::Object(fs), GTy::Struct(w)) => cmp_fields(fs.iter(), w, at, false),
        _ => Err(format!("{at}: type {got}, expected {want:?}")),
    }
}

pub fn cmp_fields<'a, 'b: 'a>(got: impl Iterator<Item = &'a idl::Field<'b>>, want: &[GField], at: &str, strict_comments: bool) -> Result<(), String> {
    let got: Vec<&idl::Field<'_>> = got.collect();
    if got.len() != want.len() || got.iter().zip(want).any(|(g, w)| g.name() != w.name) {
        return Err(format!("{at}: fields {:?}, expected {:?}", got.iter().map(|f| f.name()).collect::<Vec<_>>(), want.iter().map(|f| f.name.as_str()).collect::<Vec<_>>()));
    }
    for (g, w) in got.iter().zip(want) {
        let a = format!("{at}.{}", w.name);
        cmp_comments(g.comments(), &w.comments, &a, strict_comments)?;
        cmp_ty(g.ty(), &w.ty, &a)?;
    }
    Ok(())
}

/// Compare a parsed / constructed zlink interface with the harness tree: names, types, order
/// within each member kind, comments at interface / member / direct field / parameter / variant level.
pub fn cmp_iface(got: &idl::Interface<'_>, want: &GIface) -> Result<(), String> {
    if got.name() != want.name {
        return Err(format!("interface name {:?}, expected {:?}", got.name(), want.name));
    }
    cmp_comments(got.comments(), &want.comments, "interface", true)?;
    let types: Vec<&GMember> = want.members.iter().filter(|m| matches!(m, GMember::Type { .. })).collect();
    let methods: Vec<&GMember> = want.members.iter().filter(|m| matches!(m, GMember::Method { .. })).collect();
    let errors: Vec<&GMember> = want.members.iter().filter(|m| matches!(m, GMember::Error { .. })).collect();
    let gt: Vec<&idl::CustomType<'_>> = got.custom_types().collect();
    let gm: Vec<&idl::Method<'_>> = got.methods().collect();
    let ge: Vec<&idl::Error<'_>> = got.errors().collect();
    let names = |v: &[&GMember]| -> Vec<String> {
        v.iter()
            .map(|m| match m {
                GMember::Type { name, .. } | GMember::Method { name, .. } | GMember::Error { name, .. } => name.clone(),
            })
            .collect()
    };
    if gt.iter().map(|t| t.name().to_string()).collect::<Vec<_>>() != names(&types) {
        return Err(format!("custom types {:?}, expected {:?}", gt.iter().map(|t| t.name()).collect::<Vec<_>>(), names(&types)));
    }
    if gm.iter().map(|t| t.name().to_string()).collect::<Vec<_>>() != names(&methods) {
        return Err(format!("methods {:?}, expected {:?}", gm.iter().map(|t| t.name()).collect::<Vec<_>>(), names(&methods)));
    }
    if ge.iter().map(|t| t.name().to_string()).collect::<Vec<_>>() != names(&errors) {
        return Err(format!("errors {:?}, expected {:?}", ge.iter().map(|t| t.name()).collect::<Vec<_>>(), names(&errors)));
    }
    for (g, w) in gt.iter().zip(&types) {
        let GMember::Type { name, comments, body } = w else { unreachable!() };
        let at = format!("type {name}");
        match (g, body) {
            (idl::CustomType::Object(o), GBody::Struct(fs)) => {
                cmp_comments(o.comments(), comments, &at, true)?;
                cmp_fields(o.fields(), fs, &at, true)?;
            }
            (idl::CustomType::Enum(e), GBody::Enum(vs)) => {
                cmp_comments(e.comments(), comments, &at, true)?;
                let gv: Vec<&idl::EnumVariant<'_>> = e.variants().collect();
                if gv.len() != vs.len() || gv.iter().zip(vs).any(|(g, w)| g.name() != w.name) {
                    return Err(format!("{at}: variants {:?}, expected {:?}", gv.iter().map(|v| v.name()).collect::<Vec<_>>(), vs.iter().map(|v| v.name.as_str()).collect::<Vec<_>>()));
                }
                for (g, w) in gv.iter().zip(vs) {
                    cmp_comments(g.comments(), &w.comments, &format!("{at}.{}", w.name), true)?;
                }
            }
            // an empty `()` body denotes a struct without fields
            _ => return Err(format!("{at}: struct/enum kind differs: parsed {g}")),
        }
    }
    for (g, w) in gm.iter().zip(&methods) {
        let GMember::Method { name, comments, inputs, outputs } = w else { unreachable!() };
        let at = format!("method {name}");
        cmp_comments(g.comments(), comments, &at, true)?;
        cmp_fields(g.inputs(), inputs, &format!("{at} in"), true)?;
        cmp_fields(g.outputs(), outputs, &format!("{at} out"), true)?;
    }
    for (g, w) in ge.iter().zip(&errors) {
        let GMember::Error { name, comments, fields } = w else { unreachable!() };
        let at = format!("error {name}");
        cmp_comments(g.comments(), comments, &at, true)?;
        cmp_fields(g.fields(), fields, &at, true)?;
    }
    Ok(())
}

// ---------------------------------------------------------------------------------------------
// building zlink descriptions through the public constructors (owned form)

pub fn build_ty<'a>(t: &'a GTy) -> idl::Type<'a> {
    use idl::{Type as T, TypeRef};
    match t {
        GTy::Bool => T::Bool,
        GTy::Int => T::Int,
        GTy::Float => T::Float,
        GTy::Str => T::String,
        GTy::Object => T::ForeignObject,
        GTy::Optional(i) => T::Optional(TypeRef::new_owned(build_ty(i))),
        GTy::Array(i) => T::Array(TypeRef::new_owned(build_ty(i))),
        GTy::Map(i) => T::Map(TypeRef::new_owned(build_ty(i))),
        GTy::Custom(n) => T::Custom(n),
        GTy::Enum(vs) => T::Enum(idl::List::from(vs.iter().map(build_variant).collect::<Vec<_>>())),
        GTy::Struct(fs) => T::Object(idl::List::from(fs.iter().map(build_field).collect::<Vec<_>>())),
    }
}

fn build_comments<'a>(cs: &'a [String]) -> Vec<idl::Comment<'a>> {
    cs.iter().map(|c| idl::Comment::new(c)).collect()
}

pub fn build_variant<'a>(v: &'a GVariant) -> idl::EnumVariant<'a> {
    idl::EnumVariant::new_owned(&v.name, build_comments(&v.comments))
}

pub fn build_field<'a>(f: &'a GField) -> idl::Field<'a> {
    idl::Field::new_owned(&f.name, build_ty(&f.ty), build_comments(&f.comments))
}

pub fn build_iface<'a>(i: &'a GIface) -> idl::Interface<'a> {
    let mut methods = Vec::new();
    let mut types = Vec::new();
    let mut errors = Vec::new();
    for m in &i.members {
        match m {
            GMember::Type { name, comments, body } => types.push(match body {
                GBody::Struct(fs) => idl::CustomType::from(idl::CustomObject::new_owned(name, fs.iter().map(build_field).collect(), build_comments(comments))),
                GBody::Enum(vs) => idl::CustomType::from(idl::CustomEnum::new_owned(name, vs.iter().map(build_variant).collect(), build_comments(comments))),
            }),
            GMember::Method { name, comments, inputs, outputs } => methods.push(idl::Method::new_owned(name, inputs.iter().map(build_field).collect(), outputs.iter().map(build_field).collect(), build_comments(comments))),
            GMember::Error { name, comments, fields } => errors.push(idl::Error::new_owned(name, fields.iter().map(build_field).collect(), build_comments(comments))),
        }
    }
    idl::Interface::new_owned(&i.name, methods, types, errors, build_comments(&i.comments))
}

pub fn iface_json(i: &GIface) -> Value {
    json!(format!("{i:?}"))
}

// ---------------------------------------------------------------------------------------------
// zlink tree -> harness tree (accessors only; comments wherever zlink exposes them)

pub fn from_ty(t: &idl::Type<'_>) -> GTy {
    use idl::Type as T;
    match t {
        T::Bool => GTy::Bool,
        T::Int => GTy::Int,
        T::Float => GTy::Float,
        T::String => GTy::Str,
        T::ForeignObject => GTy::Object,
        T::Optional(i) => GTy::Optional(Box::new(from_ty(i.inner()))),
        T::Array(i) => GTy::Array(Box::new(from_ty(i.inner()))),
        T::Map(i) => GTy::Map(Box::new(from_ty(i.inner()))),
        T::Custom(n) => GTy::Custom(n.to_string()),
        T::Enum(vs) => GTy::Enum(vs.iter().map(from_variant).collect()),
        T::Object(fs) => GTy::Struct(fs.iter().map(from_field).collect()),
    }
}

fn from_comments<'a>(cs: impl Iterator<Item = &'a idl::Comment<'a>>) -> Vec<String> {
    cs.map(|c| c.content().to_string()).collect()
}

pub fn from_variant(v: &idl::EnumVariant<'_>) -> GVariant {
    GVariant { name: v.name().to_string(), comments: from_comments(v.comments()) }
}

pub fn from_field(f: &idl::Field<'_>) -> GField {
    GField { name: f.name().to_string(), comments: from_comments(f.comments()), ty: from_ty(f.ty()) }
}

/// Members come out grouped by kind (types, methods, errors), which is all zlink records.
pub fn from_iface(i: &idl::Interface<'_>) -> GIface {
    let mut members = Vec::new();
    for t in i.custom_types() {
        members.push(match t {
            idl::CustomType::Object(o) => GMember::Type { name: o.name().to_string(), comments: from_comments(o.comments()), body: GBody::Struct(o.fields().map(from_field).collect()) },
            idl::CustomType::Enum(e) => GMember::Type { name: e.name().to_string(), comments: from_comments(e.comments()), body: GBody::Enum(e.variants().map(from_variant).collect()) },
        });
    }
    for m in i.methods() {
        members.push(GMember::Method { name: m.name().to_string(), comments: from_comments(m.comments()), inputs: m.inputs().map(from_field).collect(), outputs: m.outputs().map(from_field).collect() });
    }
    for e in i.errors() {
        members.push(GMember::Error { name: e.name().to_string(), comments: from_comments(e.comments()), fields: e.fields().map(from_field).collect() });
    }
    GIface { name: i.name().to_string(), comments: from_comments(i.comments()), members }
}

/// Remove every comment (for token-level comparisons).
/// Remove the comments inside inline types (fields of inline structs, variants of inline enums): the
/// properties speak of comments on the interface, its members and their direct fields, parameters and variants.
#[allow(dead_code)]
pub fn strip_comments_inside_inline_types(i: &mut GIface) {
    fn ty(t: &mut GTy) {
        match t {
            GTy::Optional(i) | GTy::Array(i) | GTy::Map(i) => ty(i),
            GTy::Enum(vs) => vs.iter_mut().for_each(|v| v.comments.clear()),
            GTy::Struct(fs) => fs.iter_mut().for_each(|f| {
                f.comments.clear();
                ty(&mut f.ty)
            }),
            _ => {}
        }
    }
    for m in &mut i.members {
        match m {
            GMember::Type { body: GBody::Struct(fs), .. } => fs.iter_mut().for_each(|f| ty(&mut f.ty)),
            GMember::Type { .. } => {}
            GMember::Method { inputs, outputs, .. } => inputs.iter_mut().chain(outputs.iter_mut()).for_each(|f| ty(&mut f.ty)),
            GMember::Error { fields, .. } => fields.iter_mut().for_each(|f| ty(&mut f.ty)),
        }
    }
}

pub fn strip_comments(i: &mut GIface) {
    fn ty(t: &mut GTy) {
        match t {
            GTy::Optional(i) | GTy::Array(i) | GTy::Map(i) => ty(i),
            GTy::Enum(vs) => vs.iter_mut().for_each(|v| v.comments.clear()),
            GTy::Struct(fs) => fields(fs),
            _ => {}
        }
    }
    fn fields(fs: &mut [GField]) {
        for f in fs {
            f.comments.clear();
            ty(&mut f.ty);
        }
    }
    i.comments.clear();
    for m in &mut i.members {
        match m {
            GMember::Type { comments, body, .. } => {
                comments.clear();
                match body {
                    GBody::Struct(fs) => fields(fs),
                    GBody::Enum(vs) => vs.iter_mut().for_each(|v| v.comments.clear()),
                }
            }
            GMember::Method { comments, inputs, outputs, .. } => {
                comments.clear();
                fields(inputs);
                fields(outputs);
            }
            GMember::Error { comments, fields: fs, .. } => {
                comments.clear();
                fields(fs);
            }
        }
    }
}

//! C01 — inbound framing is independent of how the transport fragments the stream.
//!
//! Oracle: split the stream at NUL; receive j (with the target type chosen for frame j) must equal
//! `serde_json::from_slice` on frame j; receive n+1 must report end-of-stream.

use crate::cfg::Cfg;
use crate::frames::*;
use serde_json::{json, Value};
use vnet::{chunks_at, fnv, fnv_mix, new_wire, Report, Rng, Rx, VSocket};
use zlink_core::Connection;

pub struct Case {
    pub frames: Vec<Frame>,
    pub cuts: Vec<usize>,
}

pub fn hex(b: &[u8]) -> String {
    b.iter().map(|x| format!("{x:02x}")).collect()
}
pub fn unhex(s: &str) -> Vec<u8> {
    (0..s.len() / 2)
        .map(|i| u8::from_str_radix(&s[2 * i..2 * i + 2], 16).unwrap())
        .collect()
}

pub fn frames_json(frames: &[Frame]) -> Value {
    json!(frames
        .iter()
        .map(|f| json!({"hex": hex(&f.bytes), "text": vnet::json::show(&f.bytes), "target": f.target.name(), "kind": f.kind}))
        .collect::<Vec<_>>())
}

pub fn frames_from_json(v: &Value) -> Vec<Frame> {
    v.as_array()
        .unwrap()
        .iter()
        .map(|f| Frame {
            bytes: unhex(f["hex"].as_str().unwrap()),
            target: Target::from_name(f["target"].as_str().unwrap()),
            kind: "replayed",
        })
        .collect()
}

impl Case {
    fn replay(&self) -> Value {
        json!({"monitor": "c01", "frames": frames_json(&self.frames), "cuts": self.cuts})
    }
    fn hash(&self) -> u64 {
        let mut h = fnv(&stream_of(&self.frames));
        for f in &self.frames {
            h = fnv_mix(h, f.target as u64);
        }
        for c in &self.cuts {
            h = fnv_mix(h, *c as u64);
        }
        h
    }
}

/// Execute one case against the real connection. Returns (actual, expected) outcome lists, both
/// of length n+1 unless zlink produced extra results (then actual is longer, capped at n+3).
pub fn execute(case: &Case, states: &mut std::collections::HashSet<(usize, usize, usize)>) -> (Vec<Outcome>, Vec<Outcome>) {
    let stream = stream_of(&case.frames);
    let wire = new_wire(0);
    {
        let mut w = wire.borrow_mut();
        for c in chunks_at(&stream, &case.cuts) {
            w.push(Rx::Bytes(c));
        }
        w.push(Rx::Eof);
    }
    let mut conn = Connection::new(VSocket(wire.clone()));
    let mut expected: Vec<Outcome> = case
        .frames
        .iter()
        .map(|f| reference(f.target, &f.bytes))
        .collect();
    expected.push(Outcome::Eof);
    let n = case.frames.len();
    let mut actual = Vec::new();
    for j in 0..n + 3 {
        let target = if j < n {
            case.frames[j].target
        } else {
            Target::CallValue
        };
        let o = receive(&mut conn, target, 4);
        #[cfg(zlink_verif)]
        states.insert(conn.read().verif_state());
        let _ = &states;
        let stop = o == Outcome::Eof || o == Outcome::Stalled;
        actual.push(o);
        if stop {
            break;
        }
    }
    (actual, expected)
}

fn first_mismatch(actual: &[Outcome], expected: &[Outcome]) -> Option<usize> {
    let m = actual.len().max(expected.len());
    (0..m).find(|&j| actual.get(j) != expected.get(j))
}

fn check(case: &Case, rep: &mut Report, states: &mut std::collections::HashSet<(usize, usize, usize)>) {
    let res = vnet::catch(|| execute(case, states));
    rep.eval(case.hash());
    rep.add("frames_received", case.frames.len() as u64);
    rep.max("max_chunks", case.cuts.len() as u64 + 1);
    for f in &case.frames {
        rep.count(&format!("kind.{}", f.kind));
    }
    match res {
        Err(p) => rep.violation(
            "C01/panic-in-receive",
            format!("panic: {p}"),
            case.replay(),
        ),
        Ok((actual, expected)) => {
            if let Some(j) = first_mismatch(&actual, &expected) {
                let n = case.frames.len();
                let kind = |i: usize| if i < n { case.frames[i].kind } else { "end" };
                let prev = if j == 0 { "start" } else { kind(j - 1) };
                let prev_ref = if j == 0 { "-" } else { expected[j - 1].class() };
                let e = expected.get(j).map(|o| o.class()).unwrap_or("none");
                let a = actual.get(j).map(|o| o.class()).unwrap_or("none");
                let _ = (prev, kind(j));
                let sig = format!("C01/frame-after-{prev_ref}-result:expected-{e}-got-{a}");
                rep.violation(
                    &sig,
                    format!(
                        "receive #{j}: expected {:?}, got {:?}; stream={} cuts={:?}",
                        expected.get(j),
                        actual.get(j),
                        vnet::json::show(&stream_of(&case.frames)),
                        case.cuts
                    ),
                    case.replay(),
                );
            }
        }
    }
}

fn tiny_streams() -> Vec<Vec<Frame>> {
    let f = |b: &[u8], t: Target, kind: &'static str| Frame {
        bytes: b.to_vec(),
        target: t,
        kind,
    };
    use Target::*;
    vec![
        vec![f(b"{}", CallValue, "valid"), f(b"[]", CallValue, "wrong-shape"), f(b"{\"a\":1}", CallValue, "valid")],
        vec![f(b"{} ", CallValue, "ws-after"), f(b"{\"b\":2}", CallValue, "valid")],
        vec![f(b"{x", CallValue, "truncated-doc"), f(b"{}", CallValue, "valid"), f(b" {}", CallValue, "ws-before")],
        vec![f(b"{}{}", CallValue, "trailing-garbage"), f(b"{\"c\":3}", CallValue, "valid")],
        vec![f(b"\n{}\r", ReplyStrictA, "ws-around"), f(b"7", ReplyStrictA, "wrong-shape"), f(b"{}", ReplyStrictA, "valid")],
        vec![f(b"x", CallA, "garbage"), f(b"y", CallA, "garbage"), f(b"{}", CallValue, "valid"), f(b"z", CallA, "garbage")],
    ]
}

/// Enumerate all subsets of cut positions 1..len-1 (len <= 21).
fn all_compositions(len: usize, mut f: impl FnMut(Vec<usize>)) {
    let bits = len - 1;
    for mask in 0u32..(1u32 << bits) {
        let cuts: Vec<usize> = (0..bits).filter(|b| mask >> b & 1 == 1).map(|b| b + 1).collect();
        f(cuts);
    }
}

fn nul_positions(stream: &[u8]) -> Vec<usize> {
    stream
        .iter()
        .enumerate()
        .filter(|(_, b)| **b == 0)
        .map(|(i, _)| i)
        .collect()
}

fn structured_partitions(stream: &[u8]) -> Vec<Vec<usize>> {
    let len = stream.len();
    let nuls = nul_positions(stream);
    let mut v = vec![
        vec![],
        (1..len).collect::<Vec<_>>(),
        // cut exactly after every NUL (frame per read)
        nuls.iter().map(|p| p + 1).filter(|c| *c < len).collect(),
        // cut just before every NUL
        nuls.iter().copied().filter(|c| *c > 0).collect(),
        // cut one byte after the start of each following frame
        nuls.iter().map(|p| p + 2).filter(|c| *c < len).collect(),
    ];
    // before and after each NUL
    let mut both: Vec<usize> = nuls.iter().flat_map(|p| [*p, p + 1]).filter(|c| *c > 0 && *c < len).collect();
    both.sort_unstable();
    both.dedup();
    v.push(both);
    // fixed chunk sizes around the growth step
    for cs in [2usize, 3, 7, 128, 255, 256, 257, 511, 512, 513] {
        if cs < len {
            v.push((1..).map(|k| k * cs).take_while(|c| *c < len).collect());
        }
    }
    v
}

fn random_cuts(rng: &mut Rng, len: usize) -> Vec<usize> {
    if len < 2 {
        return vec![];
    }
    let k = match rng.below(4) {
        0 => 1,
        1 => 2,
        2 => rng.range(1, 8.min(len - 1)),
        _ => rng.range(1, (len - 1).min(40)),
    };
    let mut cuts: Vec<usize> = (0..k).map(|_| rng.range(1, len - 1)).collect();
    cuts.sort_unstable();
    cuts.dedup();
    cuts
}

fn random_stream(rng: &mut Rng, max_frames: usize, big: bool) -> Vec<Frame> {
    random_stream_k(rng, max_frames, big, 5, true)
}

fn random_stream_k(rng: &mut Rng, max_frames: usize, big: bool, max_k: usize, huge: bool) -> Vec<Frame> {
    let n = rng.range(1, max_frames);
    (0..n)
        .map(|_| {
            if big && rng.chance(1, 2) {
                let k = rng.range(1, max_k);
                let delta = rng.range(0, 6) as isize - 3;
                let len = (256 * k) as isize + delta;
                { let t = *rng.pick(&TARGETS); exact_frame(rng, t, len.max(90) as usize) }
            } else if big && huge && rng.chance(1, 40) {
                let len = rng.range(10_000, 70_000);
                exact_frame(rng, Target::CallA, len)
            } else {
                gen_frame(rng, None)
            }
        })
        .collect()
}

pub fn run(cfg: &Cfg) -> Report {
    let mut rep = Report::new("C01", "c01");
    let mut states = std::collections::HashSet::new();

    if let Some(r) = &cfg.replay {
        let case = Case {
            frames: frames_from_json(&r["frames"]),
            cuts: r["cuts"].as_array().unwrap().iter().map(|c| c.as_u64().unwrap() as usize).collect(),
        };
        check(&case, &mut rep, &mut states);
        let (a, e) = execute(&case, &mut states);
        rep.notes.push(format!("replay: actual={a:?} expected={e:?}"));
        return rep;
    }

    let miri = cfg.layer == "miri";

    // (1) all compositions of tiny streams
    let limit = if miri { 6 } else if cfg.thorough { 20 } else { 15 };
    let mut idx = 0u64;
    for frames in tiny_streams() {
        let stream = stream_of(&frames);
        let mut frames = frames;
        let mut stream = stream;
        while stream.len() > limit && frames.len() > 1 {
            frames.pop();
            stream = stream_of(&frames);
        }
        if stream.len() > limit {
            continue;
        }
        all_compositions(stream.len(), |cuts| {
            idx += 1;
            if cfg.mine(idx) {
                let case = Case { frames: frames.clone(), cuts };
                check(&case, &mut rep, &mut states);
                rep.count("exhaustive_composition_cases");
            }
        });
    }
    if miri {
        // keep Miri small: a handful of random streams with structured partitions
        let mut rng = cfg.rng(11);
        for _ in 0..cfg.n(12, 60) {
            let big = rng.chance(1, 4);
            let frames = random_stream_k(&mut rng, 4, big, 2, false);
            let stream = stream_of(&frames);
            for cuts in [vec![], random_cuts(&mut rng, stream.len()), nul_positions(&stream).iter().map(|p| p + 1).filter(|c| *c < stream.len()).collect()] {
                check(&Case { frames: frames.clone(), cuts }, &mut rep, &mut states);
            }
        }
        finish(&mut rep, &states);
        return rep;
    }

    // (2) every single cut and every pair of cuts for short streams
    let mut rng = cfg.rng(1);
    let n_short = cfg.n(24, 400);
    for _ in 0..n_short {
        let mut frames = random_stream(&mut rng, 4, false);
        while stream_of(&frames).len() > 160 && frames.len() > 1 {
            frames.pop();
        }
        let stream = stream_of(&frames);
        if stream.len() > 160 {
            continue;
        }
        let len = stream.len();
        for a in 1..len {
            check(&Case { frames: frames.clone(), cuts: vec![a] }, &mut rep, &mut states);
            for b in a + 1..len {
                check(&Case { frames: frames.clone(), cuts: vec![a, b] }, &mut rep, &mut states);
            }
        }
        rep.count("streams_with_all_single_and_pair_cuts");
    }

    // (3) structured + random partitions of random streams (small and growth-step sized)
    let mut rng = cfg.rng(2);
    let n_rand = cfg.n(6_000, 600_000);
    for i in 0..n_rand {
        let big = i % 3 == 0;
        let frames = random_stream(&mut rng, if big { 5 } else { 8 }, big);
        let stream = stream_of(&frames);
        if i < 10 {
            rep.sample(6, || json!({"stream": vnet::json::show(&stream), "targets": frames.iter().map(|f| f.target.name()).collect::<Vec<_>>(), "kinds": frames.iter().map(|f| f.kind).collect::<Vec<_>>()}));
        }
        for cuts in structured_partitions(&stream) {
            check(&Case { frames: frames.clone(), cuts }, &mut rep, &mut states);
        }
        for _ in 0..6 {
            let cuts = random_cuts(&mut rng, stream.len());
            check(&Case { frames: frames.clone(), cuts }, &mut rep, &mut states);
        }
    }
    // (4) long pipelined bursts: 17..120 mostly small frames, so that counters, thresholds or
    // batching logic keyed on "many messages buffered at once" are reached
    let mut rng = cfg.rng(3);
    for i in 0..cfg.n(300, 30_000) {
        let n = rng.range(17, if i % 4 == 0 { 120 } else { 48 });
        let frames: Vec<Frame> = (0..n).map(|_| gen_frame(&mut rng, None)).collect();
        let stream = stream_of(&frames);
        let mut parts = vec![vec![], nul_positions(&stream).iter().map(|p| p + 1).filter(|c| *c < stream.len()).collect::<Vec<_>>()];
        for cs in [255usize, 256, 257, 1000, 4096] {
            if cs < stream.len() {
                parts.push((1..).map(|k| k * cs).take_while(|c| *c < stream.len()).collect());
            }
        }
        parts.push(random_cuts(&mut rng, stream.len()));
        for cuts in parts {
            check(&Case { frames: frames.clone(), cuts }, &mut rep, &mut states);
            rep.count("long_burst_cases");
        }
        rep.max("max_frames_in_one_burst", n as u64);
    }
    finish(&mut rep, &states);
    rep
}

fn finish(rep: &mut Report, states: &std::collections::HashSet<(usize, usize, usize)>) {
    rep.add("distinct_hook_states(read_pos,msg_pos,buf_len)", states.len() as u64);
    let maxbuf = states.iter().map(|s| s.2).max().unwrap_or(0);
    rep.max("max_buffer_len_seen", maxbuf as u64);
}

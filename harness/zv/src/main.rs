//! `zv <monitor> [--tier quick|thorough] [--seed N] [--shard i/n] [--out FILE] [--replay FILE]
//!      [--budget N] [--layer native|miri|asan]`
//!
//! One sub-command per monitor. Each prints / writes a JSON report (see `vnet::report`).
//! Exit code: 0 always unless the harness itself failed (2); the driver decides verdicts.

mod cfg;
mod frames;
mod c01;
mod c07;
mod vals;
mod c03;
mod c02;
mod c04;
mod c06;
mod c11;
mod alloc;
mod c17;
mod srv;
mod c08;
mod c09;
mod c10;
mod c18;
mod idl;
mod c13;
mod c14;
mod c05;

use cfg::Cfg;

#[global_allocator]
static GLOBAL: alloc::Counting = alloc::Counting;

fn panic_report(monitor: &str, msg: &str) -> vnet::Report {
    let prop = monitor.to_uppercase();
    let mut r = vnet::Report::new(&prop, monitor);
    if msg.contains("[at /repo/") {
        r.evaluations = 1;
        r.distinct.insert(1);
        r.violation(&format!("{prop}/panic-in-zlink-escaped-the-monitor"), msg.to_string(), serde_json::json!({"monitor": monitor}));
    } else {
        r.inconclusive.push(format!("the monitor itself panicked: {msg}"));
    }
    r
}

fn main() {
    let args: Vec<String> = std::env::args().collect();
    if args.len() < 2 {
        eprintln!("usage: zv <monitor> [options]");
        std::process::exit(2);
    }
    let cfg = Cfg::parse(&args[2..]);
    vnet::trace::install();
    vnet::install_quiet_panic_hook();
    let name = args[1].as_str();
    if name == "noop" {
        return;
    }
    // every leaf source of readiness in this binary is a virtual one: check the wake-up contract on every poll
    vnet::enable_wake_contract_check(true);
    // Monitors catch panics per case; this is the safety net for one that escapes: a panic raised inside
    // /repo sources is a violation, one raised in the harness is a harness defect (inconclusive).
    let report = match vnet::catch(|| match name {
        "c01" => c01::run(&cfg),
        "c07" => c07::run(&cfg),
        "c03" => c03::run(&cfg),
        "c02" => c02::run(&cfg),
        "c04" => c04::run(&cfg),
        "c06" => c06::run(&cfg),
        "c11" => c11::run(&cfg),
        "c17" => c17::run(&cfg),
        "c08" => c08::run(&cfg),
        "c09" => c09::run(&cfg),
        "c10" => c10::run(&cfg),
        "c18" => c18::run(&cfg),
        "c13" => c13::run(&cfg),
        "c14" => c14::run(&cfg),
        "c05" => c05::run(&cfg),
        _ => {
            eprintln!("unknown monitor {name}");
            std::process::exit(2);
        }
    }) {
        Ok(r) => r,
        Err(msg) => panic_report(name, &msg),
    };
    let mut report = report;
    let (breaches, what) = vnet::take_wake_contract_breaches();
    report.add("wake_contract_breaches", breaches);
    if breaches > 0 {
        let prop = name.to_uppercase();
        report.violation(
            &format!("{prop}/future-returned-pending-without-arranging-a-wake-up"),
            format!("{breaches} poll(s) returned Pending although the task's waker neither fired during the poll nor was registered with any source of readiness (under a runtime that task is never polled again): {}", what.join("; ")),
            serde_json::json!({"monitor": name}),
        );
    }
    let js = serde_json::to_string(&report.to_json()).unwrap();
    match &cfg.out {
        Some(p) => std::fs::write(p, js).expect("write report"),
        None => println!("{js}"),
    }
}

//! Shared by all generated modules: value generators, the frame oracle (C12), the error-enum
//! oracle (C05 part c) and the description oracle (C16).
#![allow(dead_code, unused_imports)]

pub use futures_util::{Stream, StreamExt};
pub use serde::{Deserialize, Serialize};
pub use serde_json::{json, Map, Value};
pub use vnet::{new_wire, Report, Rng, Rx, VSocket, WireRef};
pub use zlink_core::{proxy, Connection, ReplyError};

use crate::idl::*;

#[derive(Debug, Serialize, Deserialize, PartialEq, Clone)]
pub struct Out {
    pub v: i64,
    pub s: String,
}

#[derive(Debug, Serialize, Deserialize, PartialEq)]
pub struct OutB<'a> {
    #[serde(borrow)]
    pub s: &'a str,
    pub n: i64,
}

#[derive(Debug, Serialize, Deserialize, PartialEq, Clone)]
pub struct Pt {
    pub x: i64,
    pub y: Option<String>,
}

// ---- values -----------------------------------------------------------------------------------

pub fn iv(rng: &mut Rng) -> i64 {
    match rng.below(6) {
        0 => 0,
        1 => -1,
        2 => i64::MAX,
        3 => i64::MIN,
        _ => rng.next_u64() as i64 >> rng.below(60),
    }
}
pub fn uv(rng: &mut Rng) -> u32 {
    match rng.below(4) {
        0 => 0,
        1 => u32::MAX,
        _ => rng.next_u64() as u32 >> rng.below(30),
    }
}
/// Floats that serde_json's (non-round-trip) parser reads back exactly: dyadic rationals with few
/// digits. Float formatting itself is C03's business.
pub fn fv(rng: &mut Rng) -> f64 {
    match rng.below(5) {
        0 => 0.0,
        1 => -1.5,
        _ => ((rng.next_u64() >> 44) as i64 - (1 << 19)) as f64 / (1u64 << rng.below(7)) as f64,
    }
}
pub fn bv(rng: &mut Rng) -> bool {
    rng.chance(1, 2)
}
pub fn sv(rng: &mut Rng) -> String {
    const PIECES: &[&str] = &["a", "Z", "0", " ", "\"", "\\", "\n", "\t", "é", "日本", "\u{1F600}", "/", "{", "}", "null", "\u{7f}", "\u{1}"];
    let n = match rng.below(8) {
        0 => 0,
        7 => rng.range(200, 400),
        _ => rng.range(1, 12),
    };
    (0..n).map(|_| *rng.pick(PIECES)).collect()
}
/// A string that needs no JSON escaping (so that it can be borrowed from the message).
pub fn svp(rng: &mut Rng) -> String {
    sv(rng).chars().filter(|c| !c.is_control() && *c != '"' && *c != '\\').collect()
}
pub fn osvp(rng: &mut Rng) -> Option<String> {
    if rng.chance(1, 2) {
        Some(svp(rng))
    } else {
        None
    }
}
pub fn osv(rng: &mut Rng) -> Option<String> {
    if rng.chance(1, 2) {
        Some(sv(rng))
    } else {
        None
    }
}
pub fn oiv(rng: &mut Rng) -> Option<i64> {
    if rng.chance(1, 2) {
        Some(iv(rng))
    } else {
        None
    }
}
pub fn obv(rng: &mut Rng) -> Option<bool> {
    if rng.chance(1, 2) {
        Some(bv(rng))
    } else {
        None
    }
}
pub fn viv(rng: &mut Rng) -> Vec<i64> {
    (0..rng.below(4)).map(|_| iv(rng)).collect()
}
pub fn vsv(rng: &mut Rng) -> Vec<String> {
    (0..rng.below(4)).map(|_| sv(rng)).collect()
}
pub fn ptv(rng: &mut Rng) -> Pt {
    Pt { x: iv(rng), y: osv(rng) }
}
pub fn optv(rng: &mut Rng) -> Option<Pt> {
    if rng.chance(1, 2) {
        Some(ptv(rng))
    } else {
        None
    }
}

// ---- C12: the call frame ------------------------------------------------------------------------

/// Mixed into case hashes so that shards (which run the same declarations with different values)
/// count as distinct cases.
pub static SALT: std::sync::atomic::AtomicU64 = std::sync::atomic::AtomicU64::new(0);
fn salt() -> u64 {
    SALT.load(std::sync::atomic::Ordering::Relaxed)
}

pub struct Expect {
    pub method: &'static str,
    /// `None` = the method is declared without arguments
    pub params: Option<Map<String, Value>>,
    /// every declared argument is an `Option`
    pub all_optional: bool,
    pub more: bool,
    pub oneway: bool,
}

fn frame_problem(got: &Value, e: &Expect) -> Option<(&'static str, String)> {
    let Some(o) = got.as_object() else { return Some(("frame-is-not-an-object", got.to_string())) };
    if o.get("method").and_then(|m| m.as_str()) != Some(e.method) {
        return Some(("wrong-method-name", format!("sent {:?}, declared {:?}", o.get("method"), e.method)));
    }
    match (&e.params, o.get("parameters")) {
        (None, None) => {}
        (None, Some(p)) => return Some(("parameters-member-present-for-a-method-without-arguments", p.to_string())),
        (Some(want), None) => {
            if !(want.is_empty() && e.all_optional) {
                return Some(("parameters-member-missing", format!("declared {}", Value::Object(want.clone()))));
            }
        }
        (Some(want), Some(Value::Object(gotp))) => {
            if gotp != want {
                // name the way it differs
                let nulls: Vec<&String> = gotp.iter().filter(|(k, v)| v.is_null() && !want.contains_key(*k)).map(|(k, _)| k).collect();
                let mut g2 = gotp.clone();
                for k in &nulls {
                    g2.remove(*k);
                }
                let gk: Vec<&String> = gotp.keys().collect();
                let wk: Vec<&String> = want.keys().collect();
                let class = if !nulls.is_empty() && &g2 == want {
                    "none-argument-sent-as-null"
                } else if gk != wk && gotp.len() == want.len() && gotp.values().collect::<Vec<_>>() == want.values().collect::<Vec<_>>() {
                    "argument-under-another-name-than-declared"
                } else if gk != wk {
                    "argument-names-differ-from-declared"
                } else {
                    "argument-values-differ"
                };
                return Some((class, format!("sent {} declared {}", Value::Object(gotp.clone()), Value::Object(want.clone()))));
            }
        }
        (Some(_), Some(p)) => return Some(("parameters-is-not-an-object", p.to_string())),
    }
    for (flag, want) in [("more", e.more), ("oneway", e.oneway), ("upgrade", false)] {
        match (o.get(flag), want) {
            (None, false) | (Some(Value::Bool(true)), true) => {}
            (Some(Value::Bool(false)), false) => {}
            (None, true) => return Some((if flag == "more" { "more-flag-missing" } else { "oneway-flag-missing" }, got.to_string())),
            (Some(v), _) => return Some(("flag-set-although-not-annotated", format!("{flag}: {v}"))),
        }
    }
    for k in o.keys() {
        if !["method", "parameters", "more", "oneway", "upgrade"].contains(&k.as_str()) {
            return Some(("unknown-member-in-call", k.clone()));
        }
    }
    None
}

pub use vnet::{warm_up, with_history};

/// The frames captured from the scripted socket must be exactly the expected calls, in one write.
pub fn check_frames(rep: &mut Report, prop: &str, ctx: &str, wire: &WireRef, expect: &[&Expect], outcome: Result<(), String>) {
    rep.eval(vnet::fnv(ctx.as_bytes()) ^ rep.evaluations ^ salt());
    let form = if ctx.contains("[chain_ form]") {
        "chain-start-form"
    } else if ctx.contains("[chain extension") {
        "chain-extension-form"
    } else {
        "plain-form"
    };
    rep.count(&format!("calls.{form}"));
    let replay = json!({"monitor": prop.to_lowercase(), "ctx": ctx});
    if let Err(p) = outcome {
        rep.violation(&format!("{prop}/generated-method-panics"), format!("{ctx}: panic: {p}"), replay);
        return;
    }
    let bytes = wire.borrow().written();
    let (frames, rest) = vnet::split_frames(&bytes);
    if !rest.is_empty() || frames.len() != expect.len() {
        rep.violation(&format!("{prop}/not-exactly-one-call-frame-per-call:{form}"), format!("{ctx}: {} frame(s) + {} stray bytes: {}", frames.len(), rest.len(), vnet::json::show(&bytes)), replay);
        return;
    }
    if wire.borrow().writes.len() != 1 {
        rep.violation(&format!("{prop}/calls-not-sent-in-one-write:{form}"), format!("{ctx}: {} writes", wire.borrow().writes.len()), replay);
        return;
    }
    for (f, e) in frames.iter().zip(expect) {
        match vnet::json::has_duplicate_keys(f) {
            Err(err) => {
                rep.violation(&format!("{prop}/call-frame-is-not-json"), format!("{ctx}: {err}: {}", vnet::json::show(f)), replay);
                return;
            }
            Ok(true) => {
                rep.violation(&format!("{prop}/duplicate-member-in-call-frame"), format!("{ctx}: {}", vnet::json::show(f)), replay);
                return;
            }
            Ok(false) => {}
        }
        let v: Value = serde_json::from_slice(f).unwrap();
        if let Some((class, detail)) = frame_problem(&v, e) {
            rep.violation(&format!("{prop}/{class}:{form}"), format!("{ctx}: {detail}; frame {}", vnet::json::show(f)), replay);
            return;
        }
    }
    rep.count("call_frames_ok");
    if rep.evaluations % 7 == 3 {
        rep.sample(8, || json!({"call": ctx, "captured": vnet::json::show(&bytes)}));
    }
}

// ---- C12: replies -------------------------------------------------------------------------------

/// A scripted reply frame (with NUL) and what it is.
pub fn reply_frame(rng: &mut Rng, iface: &str, unit_out: bool, continues: bool) -> (Vec<u8>, &'static str) {
    let c = if continues { ",\"continues\":true" } else if rng.chance(1, 3) { ",\"continues\":false" } else { "" };
    let (s, what): (String, &'static str) = match rng.below(10) {
        0 if !continues => (format!("{{\"error\":\"{iface}.Failed\",\"parameters\":{{\"code\":{}}}}}", iv(rng)), "declared-error"),
        1 if !continues => (format!("{{\"error\":\"{iface}.Gone\"}}"), "declared-unit-error"),
        2 if !continues => ("{\"error\":\"io.systemd.System\",\"parameters\":{\"errno\":2}}".to_string(), "undeclared-error"),
        3 if !continues => ("{\"error\":\"org.varlink.service.MethodNotFound\",\"parameters\":{\"method\":\"x\"}}".to_string(), "service-error"),
        // a method without outputs ignores the parameters of a reply that is not an error
        4 if !continues => ("{\"parameters\":5}".to_string(), if unit_out { "success-with-ignored-parameters" } else { "wrong-shape" }),
        5 if !continues => (format!("{{\"error\":\"{iface}.Failed\",\"parameters\":{{\"code\":\"nope\"}}}}"), "declared-error-wrong-parameters"),
        // a success reply that carries no parameters although the method declares outputs (a progress tick, a bare
        // end-of-stream marker): still a reply - the caller gets one item for it, which cannot be an error of the method
        6 if !unit_out => (format!("{{{}}}", c.trim_start_matches(',')), "success-without-parameters"),
        _ => {
            if unit_out {
                (format!("{{{}}}", c.trim_start_matches(',')), "success")
            } else {
                let s = sv(rng);
                // both Out and OutB decode from this object only when the string needs no unescaping
                let s: String = s.chars().filter(|ch| ch.is_ascii_alphanumeric() || *ch == ' ').collect();
                (format!("{{\"parameters\":{{\"v\":{},\"n\":{},\"s\":{}}}{c}}}", iv(rng), iv(rng), serde_json::to_string(&s).unwrap()), "success")
            }
        }
    };
    let mut b = s.into_bytes();
    b.push(0);
    (b, what)
}

pub fn stream_frames(rng: &mut Rng, iface: &str, unit_out: bool) -> (Vec<Vec<u8>>, Vec<&'static str>) {
    let n = rng.below(4);
    let mut frames = Vec::new();
    let mut whats = Vec::new();
    for _ in 0..n {
        let (f, w) = reply_frame(rng, iface, unit_out, true);
        frames.push(f);
        whats.push(w);
    }
    let (f, w) = reply_frame(rng, iface, unit_out, false);
    frames.push(f);
    whats.push(w);
    (frames, whats)
}

pub fn compare_reply(rep: &mut Report, prop: &str, ctx: &str, what: &str, frame: &[u8], got: Result<String, String>, want: &str) {
    rep.evaluations += 1;
    rep.count(&format!("replies.{what}"));
    let replay = json!({"monitor": prop.to_lowercase(), "ctx": ctx, "frame": vnet::json::show(frame)});
    match got {
        Err(p) => rep.violation(&format!("{prop}/generated-method-panics"), format!("{ctx}: panic: {p}"), replay),
        Ok(g) => {
            if g != want {
                let class = |s: &str| s.split(':').next().unwrap_or("").to_string();
                rep.violation(
                    &format!("{prop}/reply-mapped-differently-than-the-low-level-receive:{}-vs-{}", class(&g), class(want)),
                    format!("{ctx}: reply {} ({what}): proxy method returned {g}, receive_reply classifies it as {want}", vnet::json::show(frame)),
                    replay,
                );
            } else {
                rep.count("replies_mapped_like_receive_reply");
            }
        }
    }
}

pub fn compare_stream(rep: &mut Report, prop: &str, ctx: &str, whats: &[&'static str], got: Result<Vec<String>, String>) {
    rep.evaluations += 1;
    let replay = json!({"monitor": prop.to_lowercase(), "ctx": ctx, "script": whats});
    match got {
        Err(p) => rep.violation(&format!("{prop}/generated-method-panics"), format!("{ctx}: panic: {p}"), replay),
        Ok(items) => {
            // one item per reply up to the final one; an item that is a connection-level failure ends it too
            let classes: Vec<&str> = items.iter().map(|s| s.split(':').next().unwrap_or("")).collect();
            let want: Vec<&str> = whats
                .iter()
                .map(|w| match *w {
                    "success" | "success-with-ignored-parameters" => "ok",
                    "declared-error" | "declared-unit-error" => "err",
                    // one item, whatever the method makes of a reply without the declared outputs - but not an error
                    // the service never sent
                    "success-without-parameters" => "failure|ok",
                    _ => "failure",
                })
                .collect();
            if classes.len() != want.len() || classes.iter().zip(&want).any(|(c, w)| !w.split('|').any(|x| x == *c)) {
                rep.violation(&format!("{prop}/streaming-method-items-differ-from-replies"), format!("{ctx}: replies {whats:?} -> items {items:?}"), replay);
            } else {
                rep.count("streams_ok");
                rep.add("stream_items", items.len() as u64);
            }
        }
    }
}

// ---- C05 part c: derived error enums -------------------------------------------------------------

/// Decode `$b` as `$E` directly and, if that gives `$value`, also the way a caller gets it: as the error of
/// a reply received on a connection. `Ok(equal)` or `Err(why not recognised)`.
#[macro_export]
macro_rules! decode_both {
    ($E:ty, $b:expr, $value:expr) => {{
        let b: &[u8] = $b;
        match serde_json::from_slice::<$E>(b) {
            Err(x) => Err(format!("decoded directly: {x}")),
            Ok(d) if d != $value => Ok(false),
            Ok(_) => {
                let wire = vnet::new_wire(0);
                {
                    let mut f = b.to_vec();
                    f.push(0);
                    wire.borrow_mut().push(vnet::Rx::Bytes(f));
                }
                let mut conn = zlink_core::Connection::new(vnet::VSocket(wire.clone()));
                let r = vnet::block_on(conn.receive_reply::<serde::de::IgnoredAny, $E>(), 8);
                match r {
                    Some(Ok(Err(d))) => Ok(d == $value),
                    Some(other) => Err(format!("recognised when decoded directly, but receive_reply gives {other:?}")),
                    None => Err("receive_reply stalled".into()),
                }
            }
        }
    }};
}

pub fn check_error_enum<E: Serialize + std::fmt::Debug>(
    rep: &mut Report,
    ctx: &str,
    fq: &str,
    value: &E,
    params: Option<Map<String, Value>>,
    decode_eq: impl Fn(&[u8]) -> Result<bool, String>,
) {
    rep.eval(vnet::fnv(ctx.as_bytes()) ^ rep.evaluations ^ salt());
    let replay = json!({"monitor": "c05", "ctx": ctx});
    let mut want = Map::new();
    want.insert("error".into(), json!(fq));
    if let Some(p) = &params {
        want.insert("parameters".into(), Value::Object(p.clone()));
    }
    let want = Value::Object(want);
    // encode: serde_json
    match serde_json::to_vec(value) {
        Err(e) => {
            rep.violation("C05/derived-error-does-not-serialize", format!("{ctx}: {e}"), replay);
            return;
        }
        Ok(bytes) => {
            if vnet::json::has_duplicate_keys(&bytes) != Ok(false) {
                rep.violation("C05/derived-error-encoding-has-duplicate-or-invalid-members", format!("{ctx}: {}", vnet::json::show(&bytes)), replay);
                return;
            }
            let got: Value = serde_json::from_slice(&bytes).unwrap();
            if got != want {
                let class = if got.get("error") != want.get("error") {
                    "error-name"
                } else if params.is_none() {
                    "parameters-present-for-field-less-variant"
                } else {
                    "parameters"
                };
                rep.violation(&format!("C05/derived-error-encoding-differs-from-declaration:{class}"), format!("{ctx}: encoded {got}, declared {want}"), replay);
                return;
            }
        }
    }
    // encode: on the wire through send_error
    {
        let wire = new_wire(0);
        let mut conn = Connection::new(VSocket(wire.clone()));
        let r = vnet::block_on(conn.send_error(value), 8);
        let bytes = wire.borrow().written();
        let ok = matches!(r, Some(Ok(()))) && bytes.last() == Some(&0) && serde_json::from_slice::<Value>(&bytes[..bytes.len() - 1]).ok().as_ref() == Some(&want);
        if !ok {
            rep.violation("C05/derived-error-on-the-wire-differs-from-declaration", format!("{ctx}: {r:?} wrote {}", vnet::json::show(&bytes)), replay);
            return;
        }
    }
    // decode from every member order (+ an unknown extra member in every position)
    let e = format!("\"error\":{}", serde_json::to_string(fq).unwrap());
    let mut docs: Vec<(String, &'static str)> = Vec::new();
    match &params {
        Some(p) => {
            let ps = format!("\"parameters\":{}", Value::Object(p.clone()));
            docs.push((format!("{{{e},{ps}}}"), "error-first"));
            docs.push((format!("{{{ps},{e}}}"), "parameters-first"));
            // parameters members reversed
            let rev: Vec<String> = p.iter().rev().map(|(k, v)| format!("{}:{}", serde_json::to_string(k).unwrap(), v)).collect();
            docs.push((format!("{{{e},\"parameters\":{{{}}}}}", rev.join(",")), "fields-reversed"));
        }
        None => {
            docs.push((format!("{{{e}}}"), "parameters-absent"));
            docs.push((format!("{{{e},\"parameters\":null}}"), "parameters-null"));
            docs.push((format!("{{\"parameters\":null,{e}}}"), "parameters-null-first"));
            docs.push((format!("{{{e},\"parameters\":{{}}}}"), "parameters-empty-object"));
            docs.push((format!("{{\"parameters\":{{}},{e}}}"), "parameters-empty-object-first"));
        }
    }
    for (doc, how) in docs {
        rep.evaluations += 1;
        match decode_eq(doc.as_bytes()) {
            Ok(true) => rep.count(&format!("decoded.{how}")),
            Ok(false) => {
                rep.violation(&format!("C05/derived-error-decodes-to-another-value:{how}"), format!("{ctx}: from {doc}"), replay.clone());
                return;
            }
            Err(err) => {
                rep.violation(&format!("C05/derived-error-not-recognised:{how}"), format!("{ctx}: {doc}: {err}"), replay.clone());
                return;
            }
        }
    }
    rep.count("error_values_ok");
    rep.sample(6, || json!({"error_value": ctx, "encoded": want.to_string()}));
}

// ---- C16: derived descriptions --------------------------------------------------------------------

fn trim_docs_ty(t: &mut GTy) {
    match t {
        GTy::Optional(i) | GTy::Array(i) | GTy::Map(i) => trim_docs_ty(i),
        GTy::Enum(vs) => vs.iter_mut().for_each(|v| v.comments.iter_mut().for_each(|c| *c = c.trim().to_string())),
        GTy::Struct(fs) => fs.iter_mut().for_each(|f| {
            f.comments.iter_mut().for_each(|c| *c = c.trim().to_string());
            trim_docs_ty(&mut f.ty)
        }),
        _ => {}
    }
}

fn class_of(got: &GTy, want: &GTy) -> &'static str {
    let strip = |t: &GTy| {
        let mut i = GIface { name: "x.y".into(), comments: vec![], members: vec![GMember::Error { name: "E".into(), comments: vec![], fields: vec![GField { name: "f".into(), comments: vec![], ty: t.clone() }] }] };
        strip_comments(&mut i);
        i
    };
    if strip(got) == strip(want) {
        "comments"
    } else {
        "names-or-types"
    }
}

pub fn check_type(rep: &mut Report, name: &str, got: &zlink_core::idl::Type<'_>, want: &GTy) {
    rep.eval(vnet::fnv(name.as_bytes()) ^ 0x16);
    let mut g = from_ty(got);
    trim_docs_ty(&mut g);
    if &g != want {
        rep.violation(&format!("C16/derived-type-description-differs:{}", class_of(&g, want)), format!("{name}: derived {g:?}; expected from the declaration {want:?}"), json!({"monitor": "c16", "item": name}));
    } else {
        rep.count("type_descriptions_ok");
        rep.sample(8, || json!({"item": name, "derived_type": format!("{got}")}));
        // an interface assembled from the derived type (as a field of a type, as a parameter and as a
        // result of a method) must render to text that parses back to an equal description
        use zlink_core::idl;
        let f = |n: &'static str| idl::Field::new_owned(n, got.clone(), vec![]);
        let wrap = idl::CustomType::from(idl::CustomObject::new_owned("Wrap", vec![f("v")], vec![]));
        let method = idl::Method::new_owned("Use", vec![f("v")], vec![f("r")], vec![]);
        let i = idl::Interface::new_owned("org.example.derived", vec![method], vec![wrap], vec![], vec![]);
        let mut tree = from_iface(&i);
        normalise(&mut tree);
        roundtrip(rep, name, &i, &tree);
    }
}

pub fn check_custom(rep: &mut Report, name: &str, got: &zlink_core::idl::CustomType<'_>, want: &GMember) {
    rep.eval(vnet::fnv(name.as_bytes()) ^ 0x1616);
    // assemble an interface from the derived piece, compare, then render -> parse
    let i = zlink_core::idl::Interface::new_owned("org.example.derived", vec![], vec![got.clone()], vec![], vec![]);
    let mut g = from_iface(&i);
    let mut w = GIface { name: "org.example.derived".into(), comments: vec![], members: vec![want.clone()] };
    normalise(&mut g);
    normalise(&mut w);
    if g != w {
        let mut a = g.clone();
        let mut b = w.clone();
        strip_comments(&mut a);
        strip_comments(&mut b);
        rep.violation(&format!("C16/derived-custom-type-description-differs:{}", if a == b { "comments" } else { "names-or-types" }), format!("{name}: derived {:?}; expected {:?}", g.members, w.members), json!({"monitor": "c16", "item": name}));
        return;
    }
    roundtrip(rep, name, &i, &g);
    rep.count("custom_type_descriptions_ok");
    rep.sample(8, || json!({"item": name, "derived_custom_type": i.to_string()}));
}

pub fn check_errors(rep: &mut Report, name: &str, got: &[&zlink_core::idl::Error<'_>], want: &[GMember]) {
    rep.eval(vnet::fnv(name.as_bytes()) ^ 0x161616);
    let i = zlink_core::idl::Interface::new_owned("org.example.derived", vec![], vec![], got.iter().map(|e| (*e).clone()).collect(), vec![]);
    let mut g = from_iface(&i);
    let mut w = GIface { name: "org.example.derived".into(), comments: vec![], members: want.to_vec() };
    normalise(&mut g);
    normalise(&mut w);
    if g != w {
        let mut a = g.clone();
        let mut b = w.clone();
        strip_comments(&mut a);
        strip_comments(&mut b);
        rep.violation(&format!("C16/derived-error-descriptions-differ:{}", if a == b { "comments" } else { "names-or-types" }), format!("{name}: derived {:?}; expected {:?}", g.members, w.members), json!({"monitor": "c16", "item": name}));
        return;
    }
    roundtrip(rep, name, &i, &g);
    rep.count("error_descriptions_ok");
    rep.sample(8, || json!({"item": name, "derived_errors": i.to_string()}));
}

/// doc-comment text is compared after trimming (`/// x` reaches the derive as " x")
fn normalise(i: &mut GIface) {
    let t = |cs: &mut Vec<String>| cs.iter_mut().for_each(|c| *c = c.trim().to_string());
    for m in &mut i.members {
        match m {
            GMember::Type { comments, body, .. } => {
                t(comments);
                match body {
                    GBody::Struct(fs) => fs.iter_mut().for_each(|f| {
                        t(&mut f.comments);
                        trim_docs_ty(&mut f.ty)
                    }),
                    GBody::Enum(vs) => vs.iter_mut().for_each(|v| t(&mut v.comments)),
                }
            }
            GMember::Method { comments, inputs, outputs, .. } => {
                t(comments);
                inputs.iter_mut().chain(outputs.iter_mut()).for_each(|f| {
                    t(&mut f.comments);
                    trim_docs_ty(&mut f.ty)
                });
            }
            GMember::Error { comments, fields, .. } => {
                t(comments);
                fields.iter_mut().for_each(|f| {
                    t(&mut f.comments);
                    trim_docs_ty(&mut f.ty)
                });
            }
        }
    }
}

/// "An interface assembled from derived descriptions renders to text that parses back to an equal description."
/// `[A-Za-z](_?[A-Za-z0-9])*` - a Rust field called `type_` or `_id` is described under that name (the property:
/// "under their Rust names"), but such a description has no IDL text: rendering and parsing is only demanded of
/// descriptions with legal names.
fn legal_field_name(n: &str) -> bool {
    let b = n.as_bytes();
    !b.is_empty()
        && b[0].is_ascii_alphabetic()
        && *b.last().unwrap() != b'_'
        && !n.contains("__")
        && b.iter().all(|c| c.is_ascii_alphanumeric() || *c == b'_')
}

fn all_field_names_legal(i: &GIface) -> bool {
    fn ty(t: &GTy) -> bool {
        match t {
            GTy::Optional(i) | GTy::Array(i) | GTy::Map(i) => ty(i),
            GTy::Struct(fs) => fs.iter().all(|f| legal_field_name(&f.name) && ty(&f.ty)),
            _ => true,
        }
    }
    let fields = |fs: &Vec<GField>| fs.iter().all(|f| legal_field_name(&f.name) && ty(&f.ty));
    i.members.iter().all(|m| match m {
        GMember::Type { body: GBody::Struct(fs), .. } => fields(fs),
        GMember::Type { .. } => true,
        GMember::Method { inputs, outputs, .. } => fields(inputs) && fields(outputs),
        GMember::Error { fields: fs, .. } => fields(fs),
    })
}

/// The process has a history: before the first derived description is parsed back, the parser has been handed a few
/// hundred texts it must refuse (an inspection tool that has walked services speaking dialects zlink does not know):
/// unknown type names, unbalanced brackets, deep nesting, junk. Whatever state a parser keeps between calls has seen
/// all of that by then.
fn parser_history(rep: &mut Report) {
    thread_local! {
        static DONE: std::cell::Cell<bool> = const { std::cell::Cell::new(false) };
    }
    if DONE.with(|d| d.replace(true)) {
        return;
    }
    let mut refused = 0u64;
    for k in 0..400usize {
        let depth = 1 + k % 9;
        let open = "?[](a: ".repeat(depth);
        let text = match k % 8 {
            0 => format!("interface a.b\nmethod M(x: {open}vendor-type) -> ()"),
            1 => format!("interface a.b\ntype T (f: {open}"),
            2 => format!("interface a.b\nmethod M() -> (r: {open}int"),
            3 => format!("interface a.b\nerror E (x: [string]{open}??int{})", ")".repeat(depth)),
            4 => format!("interface a.b\ntype T (f: [{depth}]int)"),
            5 => format!("interface a.b\nmethod M(a: {}int{}) -> ()", "(b: ".repeat(40 + depth), ")".repeat(39)),
            6 => format!("interface a.b\ntype T (a: (x, y: int))"),
            _ => format!("interface a.b\nmethod M(x: {}unknown_type) -> ()", "[]".repeat(depth * 20)),
        };
        if vnet::catch(|| zlink_core::idl::Interface::try_from(text.as_str()).is_err()).unwrap_or(true) {
            refused += 1;
        }
    }
    rep.add("texts_refused_by_the_parser_before_the_first_round_trip", refused);
}

fn roundtrip(rep: &mut Report, name: &str, i: &zlink_core::idl::Interface<'_>, tree: &GIface) {
    parser_history(rep);
    if !all_field_names_legal(tree) {
        rep.count("derived_descriptions_with_rust_names_outside_the_idl_grammar_not_rendered");
        return;
    }
    rep.evaluations += 1;
    let replay = json!({"monitor": "c16", "item": name});
    let text = i.to_string();
    match vnet::catch(|| zlink_core::idl::Interface::try_from(text.as_str()).map(|p| (from_iface(&p), i == &p)).map_err(|e| format!("{e:?}"))) {
        Err(p) => rep.violation("C16/parsing-a-derived-description-panics", format!("{name}: {p}; text {text:?}"), replay),
        Ok(Err(e)) => {
            let commented_variant = tree.members.iter().any(|m| matches!(m, GMember::Type { body: GBody::Enum(vs), .. } if vs.iter().any(|v| !v.comments.is_empty())));
            let sig = if commented_variant {
                "C16/rendered-derived-description-does-not-parse:enum-with-commented-variant"
            } else if has_commented_inline_enum(tree) {
                "C16/rendered-derived-description-does-not-parse:inline-enum-with-commented-variant"
            } else {
                "C16/rendered-derived-description-does-not-parse"
            };
            rep.violation(sig, format!("{name}: {e}; text {text:?}"), replay)
        }
        Ok(Ok((mut parsed, lib_eq))) => {
            normalise(&mut parsed);
            // comments inside inline types are not preserved by the parser; compare those structurally
            let mut a = parsed.clone();
            let mut b = tree.clone();
            strip_inline_comments(&mut a);
            strip_inline_comments(&mut b);
            if a != b {
                rep.violation("C16/derived-description-changes-when-rendered-and-parsed", format!("{name}: parsed {:?}; derived {:?}; text {text:?}", a.members, b.members), replay);
            } else if !lib_eq {
                rep.violation("C16/library-equality-disagrees-after-rendering-and-parsing-a-derived-description", format!("{name}: text {text:?}"), replay);
            } else {
                rep.count("derived_descriptions_roundtrip_ok");
            }
        }
    }
}

/// Does any field / parameter type of the description contain an inline enum with a commented variant.
fn has_commented_inline_enum(i: &GIface) -> bool {
    fn ty(t: &GTy) -> bool {
        match t {
            GTy::Optional(i) | GTy::Array(i) | GTy::Map(i) => ty(i),
            GTy::Enum(vs) => vs.iter().any(|v| !v.comments.is_empty()),
            GTy::Struct(fs) => fs.iter().any(|f| ty(&f.ty)),
            _ => false,
        }
    }
    i.members.iter().any(|m| match m {
        GMember::Type { body: GBody::Struct(fs), .. } => fs.iter().any(|f| ty(&f.ty)),
        GMember::Type { .. } => false,
        GMember::Method { inputs, outputs, .. } => inputs.iter().chain(outputs.iter()).any(|f| ty(&f.ty)),
        GMember::Error { fields, .. } => fields.iter().any(|f| ty(&f.ty)),
    })
}

fn strip_inline_comments(i: &mut GIface) {
    fn ty(t: &mut GTy) {
        match t {
            GTy::Optional(i) | GTy::Array(i) | GTy::Map(i) => ty(i),
            GTy::Enum(vs) => vs.iter_mut().for_each(|v| v.comments.clear()),
            GTy::Struct(fs) => fs.iter_mut().for_each(|f| {
                f.comments.clear();
                ty(&mut f.ty)
            }),
            _ => {}
        }
    }
    for m in &mut i.members {
        match m {
            GMember::Type { body: GBody::Struct(fs), .. } => fs.iter_mut().for_each(|f| ty(&mut f.ty)),
            GMember::Method { inputs, outputs, .. } => inputs.iter_mut().chain(outputs.iter_mut()).for_each(|f| ty(&mut f.ty)),
            GMember::Error { fields, .. } => fields.iter_mut().for_each(|f| ty(&mut f.ty)),
            _ => {}
        }
    }
}

//! `corpus <c12|c05|c16> [options]` — runs the drivers of the generated program corpus
//! (src/gen/, written by tools/gen_corpus.py). Same command line and report format as `zv`.

#[path = "../../zv/src/cfg.rs"]
mod cfg;
#[allow(dead_code)]
#[path = "../../zv/src/idl.rs"]
mod idl;
mod gen;
mod prelude;

#[cfg(feature = "drivers")]
fn main() {
    use cfg::Cfg;
    let args: Vec<String> = std::env::args().collect();
    if args.len() < 2 {
        eprintln!("usage: corpus <monitor> [options]");
        std::process::exit(2);
    }
    let cfg = Cfg::parse(&args[2..]);
    vnet::trace::install();
    vnet::install_quiet_panic_hook();
    vnet::enable_wake_contract_check(true);
    let name = args[1].as_str();
    if name == "noop" {
        return;
    }
    let mut rep = vnet::Report::new(&name.to_uppercase(), name);
    let rounds = cfg.n(400, 20_000);
    let mut rng = cfg.rng(1200);
    prelude::SALT.store((cfg.seed << 20) ^ ((cfg.shard as u64) << 52), std::sync::atomic::Ordering::Relaxed);
    // safety net for a panic that escapes the drivers (they catch per call): inside /repo => violation
    if let Err(msg) = vnet::catch(std::panic::AssertUnwindSafe(|| {
        for _ in 0..rounds {
            match name {
                #[cfg(feature = "c12")]
                "c12" => gen::run_c12(&mut rep, &mut rng),
                #[cfg(feature = "c05")]
                "c05" => gen::run_c05(&mut rep, &mut rng),
                #[cfg(feature = "c16")]
                "c16" => gen::run_c16(&mut rep, &mut rng),
                _ => {
                    eprintln!("unknown monitor {name}");
                    std::process::exit(2);
                }
            }
            if name == "c16" {
                break; // nothing random in C16: the descriptions are constants
            }
        }
    })) {
        let prop = name.to_uppercase();
        if msg.contains("[at /repo/") {
            rep.violation(&format!("{prop}/panic-in-zlink-escaped-the-monitor"), msg, serde_json::json!({"monitor": name}));
        } else {
            rep.inconclusive.push(format!("the drivers panicked: {msg}"));
        }
    }
    rep.add("corpus_proxy_traits", gen::N_C12 as u64);
    rep.add("corpus_error_enums", gen::N_C05 as u64);
    rep.add("corpus_introspection_items", gen::N_C16 as u64);
    rep.notes.push(format!("corpus seed {} size {}", gen::CORPUS_SEED, gen::CORPUS_SIZE));
    let (breaches, what) = vnet::take_wake_contract_breaches();
    rep.add("wake_contract_breaches", breaches);
    if breaches > 0 {
        let prop = name.to_uppercase();
        rep.violation(
            &format!("{prop}/future-returned-pending-without-arranging-a-wake-up"),
            format!("{breaches} poll(s) returned Pending although the task's waker neither fired during the poll nor was registered with any source of readiness: {}", what.join("; ")),
            serde_json::json!({"monitor": name}),
        );
    }
    let js = serde_json::to_string(&rep.to_json()).unwrap();
    match &cfg.out {
        Some(p) => std::fs::write(p, js).expect("write report"),
        None => println!("{js}"),
    }
}

#[cfg(not(feature = "drivers"))]
fn main() {}

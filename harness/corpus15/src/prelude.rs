//! Shared by the generated C15 drivers: IDL type descriptors, random values of a declared type,
//! the type-directed argument builder and the comparison helpers.
#![allow(dead_code, unused_imports)]

pub use serde_json::{json, Map, Value};
pub use std::collections::HashMap;
pub use vnet::{new_wire, warm_up, with_history, Report, Rng, Rx, VSocket, WireRef};
pub use zlink_core::Connection;

/// An IDL type as the generator saw it (spellings exactly as in the IDL).
#[derive(Debug, Clone)]
pub enum Ty {
    Bool,
    Int,
    Float,
    Str,
    Object,
    Optional(Box<Ty>),
    Array(Box<Ty>),
    Map(Box<Ty>),
    Custom(&'static str),
    Enum(Vec<&'static str>),
    Struct(Vec<(&'static str, Ty)>),
}

pub type Types = HashMap<&'static str, Ty>;

fn plain_string(rng: &mut Rng) -> String {
    const P: &[&str] = &["a", "Z", "0", " ", "é", "日本", "-", "_", "x y", "/", "null", "{", "}"];
    let n = rng.below(6);
    (0..n).map(|_| *rng.pick(P)).collect()
}

/// A string with anything in it: control characters (every one of U+0001..U+001F and U+007F turns up), quotes,
/// backslashes, text outside the BMP.
fn any_string(rng: &mut Rng) -> String {
    let n = rng.range(1, 6);
    (0..n)
        .map(|_| match rng.below(6) {
            0 => char::from_u32(rng.range(1, 0x1f) as u32).unwrap().to_string(),
            1 => (*rng.pick(&["\"", "\\", "\u{7f}", "\u{1f}", "/", "\u{1F600}", "\u{2028}"])).to_string(),
            _ => plain_string(rng),
        })
        .collect()
}

/// The value of a method argument: like `gen_value`, but a string passed directly (by value or as `&str`) may
/// hold anything - it never has to be borrowed out of a JSON text.
pub fn gen_value_arg(t: &Ty, types: &Types, rng: &mut Rng) -> Value {
    match t {
        Ty::Str if rng.chance(1, 2) => json!(any_string(rng)),
        Ty::Optional(i) if matches!(**i, Ty::Str) && rng.chance(1, 2) => json!(any_string(rng)),
        _ => gen_value(t, types, rng),
    }
}

/// A random JSON value of the declared shape. Strings need no escaping (outputs may borrow them).
pub fn gen_value(t: &Ty, types: &Types, rng: &mut Rng) -> Value {
    match t {
        Ty::Bool => json!(rng.chance(1, 2)),
        Ty::Int => json!(match rng.below(5) {
            0 => 0,
            1 => i64::MAX,
            2 => i64::MIN,
            _ => rng.next_u64() as i64 >> rng.below(60),
        }),
        Ty::Float => json!(((rng.next_u64() >> 44) as i64 - (1 << 19)) as f64 / (1u64 << rng.below(7)) as f64 + 0.5),
        Ty::Str => json!(plain_string(rng)),
        Ty::Object => match rng.below(3) {
            0 => json!({}),
            1 => json!({"k": [1, "two", {"three": null}]}),
            _ => json!({"anything": plain_string(rng)}),
        },
        Ty::Optional(i) => {
            if rng.chance(1, 3) {
                Value::Null
            } else {
                gen_value(i, types, rng)
            }
        }
        Ty::Array(i) => Value::Array((0..rng.below(3)).map(|_| gen_value(i, types, rng)).collect()),
        Ty::Map(i) => {
            let mut m = Map::new();
            for k in 0..rng.below(3) {
                m.insert(format!("key{k}{}", plain_string(rng)), gen_value(i, types, rng));
            }
            Value::Object(m)
        }
        Ty::Custom(n) => gen_value(types.get(n).unwrap_or_else(|| panic!("unknown custom type {n}")), types, rng),
        Ty::Enum(vs) => json!(*rng.pick(vs)),
        Ty::Struct(fs) => {
            let mut m = Map::new();
            for (n, t) in fs {
                m.insert(n.to_string(), gen_value(t, types, rng));
            }
            Value::Object(m)
        }
    }
}

/// `null` and an absent member are the same thing for a nullable member. At the top level (the whole `parameters`
/// value) "no parameters at all" may be spelled `null` / absent or `{}`; below that an object is an object: a member
/// declared `()` (the empty struct) carries `{}`, never `null`.
pub fn eq_modulo_null(a: &Value, b: &Value) -> bool {
    match (a, b) {
        (Value::Null, Value::Object(o)) | (Value::Object(o), Value::Null) => o.values().all(|v| v.is_null()),
        _ => eq_inner(a, b),
    }
}

fn eq_inner(a: &Value, b: &Value) -> bool {
    match (a, b) {
        (Value::Object(x), Value::Object(y)) => {
            let keys: std::collections::BTreeSet<&String> = x.keys().chain(y.keys()).collect();
            keys.into_iter().all(|k| eq_inner(x.get(k).unwrap_or(&Value::Null), y.get(k).unwrap_or(&Value::Null)))
        }
        (Value::Array(x), Value::Array(y)) => x.len() == y.len() && x.iter().zip(y).all(|(p, q)| eq_inner(p, q)),
        (Value::Number(x), Value::Number(y)) => x == y || x.as_f64() == y.as_f64(),
        _ => a == b,
    }
}

// ---- type-directed argument construction ---------------------------------------------------------
//
// The driver never names a generated type: `arb(&json)?` takes whatever type the generated
// signature asks for. Scalars by value, strings and slices borrowed, everything else (custom
// types, maps, serde_json::Value) as a reference to a value deserialised from the JSON text.
// Values are leaked (a few hundred bytes per call) so that every borrow is 'static.

pub trait Arb: Sized {
    fn arb(v: &Value) -> Result<Self, String>;
}
impl Arb for bool {
    fn arb(v: &Value) -> Result<Self, String> {
        v.as_bool().ok_or_else(|| format!("{v} is not a bool"))
    }
}
impl Arb for i64 {
    fn arb(v: &Value) -> Result<Self, String> {
        v.as_i64().ok_or_else(|| format!("{v} is not an int"))
    }
}
impl Arb for f64 {
    fn arb(v: &Value) -> Result<Self, String> {
        v.as_f64().ok_or_else(|| format!("{v} is not a float"))
    }
}
impl Arb for &'static str {
    fn arb(v: &Value) -> Result<Self, String> {
        v.as_str().map(|s| &*Box::leak(s.to_string().into_boxed_str())).ok_or_else(|| format!("{v} is not a string"))
    }
}
impl Arb for String {
    fn arb(v: &Value) -> Result<Self, String> {
        v.as_str().map(|s| s.to_string()).ok_or_else(|| format!("{v} is not a string"))
    }
}
/// A generated signature that asks for Rust's unit where the IDL declares the empty struct `()` gets it; what it
/// puts on the wire for it is then compared with the IDL's `{}` like everything else.
impl Arb for () {
    fn arb(_: &Value) -> Result<Self, String> {
        Ok(())
    }
}
impl<T: Arb> Arb for Option<T> {
    fn arb(v: &Value) -> Result<Self, String> {
        if v.is_null() {
            Ok(None)
        } else {
            T::arb(v).map(Some)
        }
    }
}
/// Slices: the whole array is deserialised from the JSON text (elements may be custom types or maps).
impl<E: serde::Deserialize<'static>> Arb for &'static [E] {
    fn arb(v: &Value) -> Result<Self, String> {
        let text: &'static str = Box::leak(v.to_string().into_boxed_str());
        serde_json::from_str::<Vec<E>>(text).map(|t| &*Box::leak(t.into_boxed_slice())).map_err(|e| format!("generated element type refuses the IDL-spelled value {v}: {e}"))
    }
}
/// Custom types, maps and foreign objects: deserialised from the IDL-spelled JSON text. A refusal
/// here is "the generated type does not decode the IDL's spelling".
impl<T: serde::Deserialize<'static>> Arb for &'static T {
    fn arb(v: &Value) -> Result<Self, String> {
        let text: &'static str = Box::leak(v.to_string().into_boxed_str());
        serde_json::from_str::<T>(text).map(|t| &*Box::leak(Box::new(t))).map_err(|e| format!("generated type refuses the IDL-spelled value {v}: {e}"))
    }
}

pub fn arb<T: Arb>(v: &Value) -> Result<T, String> {
    T::arb(v)
}

// ---- oracles --------------------------------------------------------------------------------------

pub struct Scripted {
    pub frame: Vec<u8>,
    /// "success" | "error:<IDL error name>"
    pub kind: String,
    /// what the caller must see, re-encoded: the parameters object (success) or the whole error object
    pub expect: Value,
}

pub fn script_reply(iface: &str, outputs: &[(&'static str, Ty)], errors: &[(&'static str, Vec<(&'static str, Ty)>)], types: &Types, rng: &mut Rng) -> Scripted {
    if !errors.is_empty() && rng.chance(1, 3) {
        let (name, fields) = rng.pick(errors);
        let mut o = Map::new();
        o.insert("error".into(), json!(format!("{iface}.{name}")));
        if !fields.is_empty() {
            let mut p = Map::new();
            for (n, t) in fields {
                p.insert(n.to_string(), gen_value(t, types, rng));
            }
            o.insert("parameters".into(), Value::Object(p));
        }
        let v = Value::Object(o);
        let mut frame = serde_json::to_vec(&v).unwrap();
        frame.push(0);
        return Scripted { frame, kind: format!("error:{name}"), expect: v };
    }
    let mut p = Map::new();
    for (n, t) in outputs {
        p.insert(n.to_string(), gen_value(t, types, rng));
    }
    let params = Value::Object(p);
    let v = if outputs.is_empty() && rng.chance(1, 2) { json!({}) } else { json!({"parameters": params}) };
    let mut frame = serde_json::to_vec(&v).unwrap();
    frame.push(0);
    Scripted { frame, kind: "success".into(), expect: params }
}

pub static SALT: std::sync::atomic::AtomicU64 = std::sync::atomic::AtomicU64::new(0);

/// The call that went out must be exactly the IDL's method with the IDL's parameter names.
pub fn check_call(rep: &mut Report, ctx: &str, wire: &WireRef, method: &str, params: &Map<String, Value>) -> bool {
    rep.eval(vnet::fnv(ctx.as_bytes()) ^ rep.evaluations ^ SALT.load(std::sync::atomic::Ordering::Relaxed));
    let replay = json!({"monitor": "c15", "ctx": ctx});
    let bytes = wire.borrow().written();
    let (frames, rest) = vnet::split_frames(&bytes);
    if frames.len() != 1 || !rest.is_empty() {
        rep.violation("C15/not-exactly-one-call-frame", format!("{ctx}: {}", vnet::json::show(&bytes)), replay);
        return false;
    }
    let got: Value = match serde_json::from_slice(frames[0]) {
        Ok(v) => v,
        Err(e) => {
            rep.violation("C15/call-frame-is-not-json", format!("{ctx}: {e}"), replay);
            return false;
        }
    };
    if got.get("method").and_then(|m| m.as_str()) != Some(method) {
        rep.violation("C15/method-name-on-the-wire-differs-from-the-idl", format!("{ctx}: sent {:?}, IDL says {method:?}", got.get("method")), replay);
        return false;
    }
    let gp = got.get("parameters").cloned().unwrap_or(Value::Null);
    let want = Value::Object(params.clone());
    if !eq_modulo_null(&gp, &want) {
        let names_differ = match (&gp, &want) {
            (Value::Object(a), Value::Object(b)) => a.keys().any(|k| !b.contains_key(k)),
            _ => false,
        };
        let sig = if names_differ { "C15/parameter-names-on-the-wire-differ-from-the-idl" } else { "C15/parameter-values-on-the-wire-differ-from-the-declared-shapes" };
        rep.violation(sig, format!("{ctx}: sent {gp}, expected {want}"), replay);
        return false;
    }
    for k in got.as_object().map(|o| o.keys().cloned().collect::<Vec<_>>()).unwrap_or_default() {
        if k != "method" && k != "parameters" {
            rep.violation("C15/unexpected-member-in-call", format!("{ctx}: {k}"), replay);
            return false;
        }
    }
    rep.count("calls_ok");
    if rep.evaluations % 11 == 5 {
        rep.sample(8, || json!({"call": ctx, "captured": vnet::json::show(&bytes)}));
    }
    true
}

/// `got`: "ok:<json>" | "err:<json>" | "failure:<text>" | "stalled".
pub fn check_reply(rep: &mut Report, ctx: &str, s: &Scripted, got: &str) {
    rep.evaluations += 1;
    let replay = json!({"monitor": "c15", "ctx": ctx, "reply": vnet::json::show(&s.frame)});
    let (class, body) = got.split_once(':').unwrap_or((got, ""));
    let want_class = if s.kind == "success" { "ok" } else { "err" };
    if class != want_class {
        let sig = if want_class == "err" { "C15/error-spelled-as-in-the-idl-not-recognised" } else { "C15/reply-spelled-as-in-the-idl-not-decoded" };
        rep.violation(sig, format!("{ctx}: reply {} ({}) came back as {got}", vnet::json::show(&s.frame), s.kind), replay);
        return;
    }
    let v: Value = serde_json::from_str(body).unwrap_or(Value::Null);
    if !eq_modulo_null(&v, &s.expect) {
        let sig = if want_class == "err" { "C15/decoded-error-re-encodes-to-other-spellings" } else { "C15/decoded-output-re-encodes-to-other-spellings" };
        rep.violation(sig, format!("{ctx}: scripted {}, decoded value re-encodes as {v}", s.expect), replay);
        return;
    }
    rep.count(if want_class == "err" { "errors_decoded_ok" } else { "replies_decoded_ok" });
}

pub fn arg_failed(rep: &mut Report, ctx: &str, e: &str) {
    rep.evaluations += 1;
    rep.violation("C15/generated-type-does-not-decode-the-idl-spelling", format!("{ctx}: {e}"), json!({"monitor": "c15", "ctx": ctx}));
}

//! `corpus15 c15 [options]` — runs the drivers of the C15 corpus (src/gen/, written by `cg`):
//! modules produced by zlink-codegen, exercised through their generated proxies.

#[path = "../../zv/src/cfg.rs"]
mod cfg;
mod gen;
mod prelude;

#[cfg(feature = "drivers")]
fn main() {
    use cfg::Cfg;
    let args: Vec<String> = std::env::args().collect();
    if args.len() < 2 {
        eprintln!("usage: corpus15 c15 [options]");
        std::process::exit(2);
    }
    let cfg = Cfg::parse(&args[2..]);
    vnet::trace::install();
    vnet::install_quiet_panic_hook();
    vnet::enable_wake_contract_check(true);
    if args[1] == "noop" {
        return;
    }
    let mut rep = vnet::Report::new("C15", "c15");
    let rounds = cfg.n(400, 20_000);
    let mut rng = cfg.rng(1500);
    prelude::SALT.store((cfg.seed << 20) ^ ((cfg.shard as u64) << 52), std::sync::atomic::Ordering::Relaxed);
    // safety net for a panic that escapes the drivers (they catch per call): inside /repo => violation
    if let Err(msg) = vnet::catch(std::panic::AssertUnwindSafe(|| {
        for _ in 0..rounds {
            gen::run_all(&mut rep, &mut rng);
        }
    })) {
        let prop = "C15".to_string();
        if msg.contains("[at /repo/") {
            rep.violation(&format!("{prop}/panic-in-zlink-escaped-the-monitor"), msg, serde_json::json!({"monitor": "c15"}));
        } else {
            rep.inconclusive.push(format!("the drivers panicked: {msg}"));
        }
    }
    rep.add("corpus_interfaces", gen::N_INTERFACES as u64);
    for f in gen::CODEGEN_FAILURES {
        rep.violation("C15/codegen-refuses-a-valid-interface", f.to_string(), serde_json::json!({"monitor": "c15"}));
    }
    rep.notes.push(format!("corpus seed {} size {}", gen::CORPUS_SEED, gen::CORPUS_SIZE));
    let (breaches, what) = vnet::take_wake_contract_breaches();
    rep.add("wake_contract_breaches", breaches);
    if breaches > 0 {
        rep.violation(
            "C15/future-returned-pending-without-arranging-a-wake-up",
            format!("{breaches} poll(s) returned Pending although the task's waker neither fired during the poll nor was registered with any source of readiness: {}", what.join("; ")),
            serde_json::json!({"monitor": "c15"}),
        );
    }
    let js = serde_json::to_string(&rep.to_json()).unwrap();
    match &cfg.out {
        Some(p) => std::fs::write(p, js).expect("write report"),
        None => println!("{js}"),
    }
}

#[cfg(not(feature = "drivers"))]
fn main() {}

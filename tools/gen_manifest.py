#!/usr/bin/env python3
"""Regenerates /verif/MANIFEST.json from tools/props.py (run after editing the table)."""
import json, os, subprocess, sys
sys.path.insert(0, os.path.dirname(os.path.abspath(__file__)))
from props import PROPS, NOT_APPLICABLE, LEVEL_TEXT

hooks_commits = subprocess.run(
    ["git", "-C", "/repo", "log", "--format=%H %s", "--grep=^verif hooks"],
    stdout=subprocess.PIPE, text=True).stdout.strip().splitlines()

m = {
    "version": 1,
    "setup_cmd": "./check --setup",
    "hooks": {
        "guard": "--cfg zlink_verif (rustc cfg; plus --cfg zlink_verif_small_buf for the lowered-limit build)",
        "enable": "RUSTFLAGS='--cfg zlink_verif' (set by ./check per layer; harness crates depend on /repo/* by path)",
        "baseline_off_cmd": "./tools/baseline.sh",
        "source_commits": [l.split()[0] for l in hooks_commits],
        "add_only": True,
    },
    "engines": [
        {"name": "zv", "path": "harness/zv", "serves_properties": sorted(PROPS.keys()),
         "kind_free_text": "monitor binary: virtual transport + deterministic executor + reference oracles; run natively, under Miri, ASan and TSan by ./check"},
    ],
    "checks": [],
    "not_applicable": NOT_APPLICABLE,
    "notes": "See DESIGN.md. Verdicts are three-valued; INCONCLUSIVE lines never fail a run. Known findings: KNOWN_FINDINGS.json.",
}
for pid in sorted(PROPS):
    P = PROPS[pid]
    m["checks"].append({
        "property_id": pid,
        "quick_cmd": f"./check {pid} --tier quick",
        "thorough_cmd": f"./check {pid} --tier thorough",
        "evidence_file": f"/verif/evidence/{pid}.json",
        "replay_cmd_template": f"./check {pid} --replay {{path}}",
        "engine": "zv",
        "level_claimed": {"category": P["level"], "text": LEVEL_TEXT.get(pid, P["oracle"]),
                          "design_ref": f"DESIGN.md §5 {pid}"},
        "level_note": "; ".join(P.get("assumptions", [])) or "harness oracles and serde_json as reference",
        "technique": P.get("technique", "runtime monitoring: reference-oracle over scripted executions"),
    })
json.dump(m, open(os.path.join(os.path.dirname(__file__), "..", "MANIFEST.json"), "w"), indent=1)
print("MANIFEST.json:", len(m["checks"]), "checks;", len(NOT_APPLICABLE), "not applicable")

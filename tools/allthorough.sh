#!/bin/bash
# usage: tools/allthorough.sh [seed] [ids...] — setup + thorough checks; one summary line per property (development helper)
cd "$(dirname "$0")/.."
export VERIF_SEED=${1:-1}; shift
IDS=${@:-01 02 03 04 05 06 07 08 09 10 11 12 13 14 15 16 17 18 19 20}
./check --setup > allthorough-setup.log 2>&1
for i in $IDS; do
  s=$(date +%s); ./check C$i --tier thorough > allthorough-C$i.log 2>&1; rc=$?
  echo "C$i exit=$rc $(( $(date +%s)-s ))s $(grep -c '^VIOLATION' allthorough-C$i.log) violations $(grep -c '^INCONCLUSIVE' allthorough-C$i.log) inconclusive"
done

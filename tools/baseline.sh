#!/bin/bash
# Runs the repository's pinned baseline test suite with the verification guard OFF and compares
# the set of passing tests with /root/.vp/BASELINE.json (185 stable tests).
set -u
cd /repo
rm -f /repo/target/nextest/pb/junit.xml
export CARGO_NET_OFFLINE=true
unset RUSTFLAGS
OUT=$(mktemp)
if [ -f /w/lib/nextest.toml ]; then
  cargo nextest run --workspace --no-fail-fast --tool-config-file pb:/w/lib/nextest.toml --profile pb --test-threads 8 --offline >"$OUT" 2>&1
else
  cargo test --workspace --no-fail-fast --offline >"$OUT" 2>&1; rc=$?; tail -5 "$OUT"; rm -f "$OUT"; exit $rc
fi
python3 - "$OUT" <<'PY'
import json,sys,os
import xml.etree.ElementTree as ET
base=json.load(open('/root/.vp/BASELINE.json'))['stable_pass']
jp='/repo/target/nextest/pb/junit.xml'
if not os.path.exists(jp): jp='/repo/target/nextest/default/junit.xml'
passed=set(); failed=set()
root=ET.parse(jp).getroot()
for ts in root.iter('testsuite'):
    suite=ts.get('name')
    for tc in ts.iter('testcase'):
        tid=suite+'::'+tc.get('name')
        bad=any(ch.tag in('failure','error') for ch in tc)
        (failed if bad else passed).add(tid)
missing=[t for t in base if t not in passed]
print(f"baseline tests: {len(base)}  passed now: {len(passed)}  failed now: {len(failed)}  baseline tests not passing: {len(missing)}")
for t in missing[:40]: print("  NOT PASSING:", t)
for t in sorted(failed)[:40]: print("  FAILED:", t)
sys.exit(1 if missing or failed else 0)
PY
rc=$?
[ $rc -ne 0 ] && tail -40 "$OUT"
rm -f "$OUT"
exit $rc

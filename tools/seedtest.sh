#!/bin/bash
# usage: tools/seedtest.sh <seeded/NAME> [tier]   — apply the seeded change to /repo, run the property's check, undo.
# Holds /root/repo.lock for the whole time. Writes <dir>/result.json and prints one summary line.
set -u
D=$(realpath "$1"); TIER=${2:-quick}
PID=$(python3 -c "import json;print(json.load(open('$D/meta.json'))['property'])")
cd "$(dirname "$0")/.."
exec 9>/root/repo.lock; flock 9
if ! git -C /repo diff --quiet; then echo "$D: /repo is dirty, refusing"; exit 2; fi
git -C /repo apply "$D/patch.diff" || { echo "$D: patch does not apply"; exit 2; }
T0=$(date +%s)
VERIF_SEED=${VERIF_SEED:-1} ./check $PID --tier $TIER > "$D/check_$TIER.log" 2>&1; RC=$?
T1=$(date +%s)
git -C /repo checkout -q -- . ; git -C /repo clean -qfd -- zlink zlink-core zlink-macros zlink-codegen zlink-tokio zlink-smol
SIGS=$(grep "^  signature:" "$D/check_$TIER.log" | sed 's/^  signature: //' | sort -u | tr '\n' ';')
python3 - "$D" "$PID" "$TIER" "$RC" "$((T1-T0))" "$SIGS" <<'PY'
import json,sys
d,pid,tier,rc,wall,sigs=sys.argv[1:7]
p=d+'/result.json'
try: r=json.load(open(p))
except Exception: r={}
r[tier]={"check_exit":int(rc),"detected":int(rc)==1,"wall_s":int(wall),"signatures":[s for s in sigs.split(';') if s]}
json.dump(r,open(p,'w'),indent=1)
print(f"{d.split('/')[-1]}: {pid} {tier} exit={rc} detected={int(rc)==1} {wall}s {sigs[:200]}")
PY

#!/bin/bash
# usage: tools/seedbatch.sh [tier] <seed names...>  — run the property checks against seeded changes from a snapshot
# clone of /verif (so that editing /verif meanwhile does not disturb the runs); results are copied back.
TIER=quick; case "$1" in quick|thorough) TIER=$1; shift;; esac
SNAP=/root/verif-snap
[ -d $SNAP ] || git clone -q /verif $SNAP
git -C $SNAP fetch -q origin && git -C $SNAP reset -q --hard origin/master 2>/dev/null || git -C $SNAP reset -q --hard origin/HEAD
for n in "$@"; do
  $SNAP/tools/seedtest.sh $SNAP/seeded/$n $TIER
  cp $SNAP/seeded/$n/result.json $SNAP/seeded/$n/check_$TIER.log /verif/seeded/$n/ 2>/dev/null
done

#!/usr/bin/env python3
"""Generates the program corpus for C12 (proxy traits), C05 part c (derived error enums) and C16
(introspection derives) into harness/corpus/src/gen/.

    gen_corpus.py <seed> <size: quick|thorough> <outdir>

Every generated item comes with the expectation computed from its *declaration* (wire names,
expected descriptions); argument values are random at run time. Items and drivers are kept apart
(drivers live behind the cargo feature `drivers`) so that "the code zlink generated does not
compile" can be told from "the harness' driver does not compile".
"""
import json
import os
import random
import sys

seed = int(sys.argv[1])
size = sys.argv[2]
out = sys.argv[3]
R = random.Random(seed)
os.makedirs(out, exist_ok=True)

HYGIENE = ["method", "parameters", "call", "params", "reply", "result", "connection", "conn", "args", "out", "error", "more", "oneway", "upgrade",
           "value", "socket", "stream", "chain", "send", "flush", "res", "err", "item", "ok", "e", "s", "f", "this", "me", "wire", "rng", "rep", "ctx",
           "expect", "got", "want", "frame", "what", "continues", "interface", "fds", "buf", "id"]
WORDS = ["get", "set", "list", "url", "user", "info", "status", "watch", "ping", "drop", "a", "io", "x2", "2fa", "v6", "do",
         "state", "item", "all", "by", "id", "name", "make", "run", "log", "key", "ip4", "http", "ok", "z"]
KEYWORDS = {"type", "match", "loop", "move", "ref", "use", "mod", "fn", "in", "as", "do", "box", "self", "super", "crate", "let", "if", "else", "for", "while", "impl", "trait", "struct", "enum", "true", "false", "where", "async", "await", "dyn", "static", "const", "pub", "return", "break", "continue", "unsafe", "extern", "mut", "try", "yield", "macro", "abstract", "become", "final", "override", "priv", "typeof", "unsized", "virtual"}


def snake(nwords):
    while True:
        ws = [R.choice(WORDS) for _ in range(nwords)]
        if ws[0][0].isdigit():
            continue
        n = "_".join(ws)
        if n in KEYWORDS:
            continue
        return n


def rs(x):
    """`x` as the inside of a Rust string literal."""
    return json.dumps(x, ensure_ascii=False)[1:-1]


# wire names that are not identifiers: JSON must escape some of their characters
ODD_WIRE = ['3.5" bay', "HKLM\\Software", "tab\there", "dash-dot.slash/é", "with space", "ünï", "a\"b\\c", "new\nline"]


def pascal(s):
    return "".join(w[:1].upper() + w[1:] for w in s.split("_"))


def iface_name():
    return R.choice(["org.example", "io.x", "a.b-c", "com.Acme.v2"]) + "." + R.choice(["Svc", "test", "X1", "mgmt-api"])


# ---------------------------------------------------------------------------------------------
# C12: proxy traits

# (rust type in the trait signature, value generator expression, how to pass, json expression of the value `v`, optional?)
ARGS = [
    dict(ty="i64", gen="iv(rng)", pas="{v}", js="json!({v})"),
    dict(ty="u32", gen="uv(rng)", pas="{v}", js="json!({v})"),
    dict(ty="f64", gen="fv(rng)", pas="{v}", js="json!({v})"),
    dict(ty="bool", gen="bv(rng)", pas="{v}", js="json!({v})"),
    dict(ty="&str", gen="sv(rng)", pas="&{v}", js="json!({v})", life=True),
    dict(ty="String", gen="sv(rng)", pas="{v}.clone()", js="json!({v})"),
    dict(ty="Option<&str>", gen="osv(rng)", pas="{v}.as_deref()", js="json!({v})", opt=True, life=True),
    dict(ty="Option<i64>", gen="oiv(rng)", pas="{v}", js="json!({v})", opt=True),
    dict(ty="Option<String>", gen="osv(rng)", pas="{v}.clone()", js="json!({v})", opt=True),
    dict(ty="Option<bool>", gen="obv(rng)", pas="{v}", js="json!({v})", opt=True),
    dict(ty="std::option::Option<i64>", gen="oiv(rng)", pas="{v}", js="json!({v})", opt=True),
    dict(ty="core::option::Option<String>", gen="osv(rng)", pas="{v}.clone()", js="json!({v})", opt=True),
    dict(ty="::std::option::Option<bool>", gen="obv(rng)", pas="{v}", js="json!({v})", opt=True),
    dict(ty="::core::option::Option<&str>", gen="osv(rng)", pas="{v}.as_deref()", js="json!({v})", opt=True, life=True),
    dict(ty="&[i64]", gen="viv(rng)", pas="&{v}", js="json!({v})", life=True),
    dict(ty="Vec<String>", gen="vsv(rng)", pas="{v}.clone()", js="json!({v})"),
    dict(ty="&Pt", gen="ptv(rng)", pas="&{v}", js="serde_json::to_value(&{v}).unwrap()", life=True),
    dict(ty="Pt", gen="ptv(rng)", pas="{v}.clone()", js="serde_json::to_value(&{v}).unwrap()"),
    dict(ty="Option<&Pt>", gen="optv(rng)", pas="{v}.as_ref()", js="serde_json::to_value(&{v}).unwrap()", opt=True, life=True),
]
# explicit-lifetime variants (method declares <'a>)
ARGS_EXPL = [
    dict(ty="&'a str", gen="sv(rng)", pas="&{v}", js="json!({v})"),
    dict(ty="Option<&'a str>", gen="osv(rng)", pas="{v}.as_deref()", js="json!({v})", opt=True),
    dict(ty="&'a [i64]", gen="viv(rng)", pas="&{v}", js="json!({v})"),
    dict(ty="i64", gen="iv(rng)", pas="{v}", js="json!({v})"),
]
GENERIC = dict(ty="T", gen="ptv(rng)", pas="{v}.clone()", js="serde_json::to_value(&{v}).unwrap()")

OUTS = [
    # a method without outputs ignores the parameters of a successful reply (so that absent / null / {} all
    # count as "no parameters", C05): the low-level reference receives them as IgnoredAny
    dict(ty="()", low="serde::de::IgnoredAny", unit=True),
    dict(ty="Out", low="Out"),
    dict(ty="OutB<'_>", low="OutB<'_>"),
]


def gen_trait(k):
    iface = iface_name()
    nm = R.randint(1, 6 if size == "thorough" else 5)
    used = set()
    methods = []
    for j in range(nm):
        while True:
            name = snake(R.randint(1, 4))
            # names of inherent `Connection` methods would be shadowed at the call site
            if name in ("id", "read", "write", "split", "join", "new", "flush", "read_mut", "write_mut", "send_call", "receive_reply", "call_method", "receive_call", "send_reply", "send_error", "enqueue_call", "chain_call", "from", "into", "clone", "drop"):
                continue
            if name not in used and ("chain_" + name) not in used and not name.startswith("chain"):
                used.add(name)
                break
        kind = R.choice(["plain", "plain", "plain", "more", "oneway"])
        rename = pascal(snake(R.randint(1, 3))) + R.choice(["", "X", "2"]) if R.random() < 0.3 else None
        style = R.choice(["elided", "elided", "elided", "explicit", "generic"])
        nargs = R.randint(0, 4)
        args = []
        anames = set()
        for a in range(nargs):
            while True:
                r = R.random()
                if r < 0.2:
                    # names that macro-generated code is likely to use for its own locals / fields
                    an = R.choice(HYGIENE)
                elif r < 0.3:
                    # keywords as raw identifiers (the wire name is the identifier without `r#`)
                    an = "r#" + R.choice(["type", "in", "match", "where", "ref", "move", "use", "fn", "loop", "as", "mod", "let", "box", "try", "async", "dyn"])
                else:
                    an = snake(R.randint(1, 2))
                if an not in anames and an != "self":
                    anames.add(an)
                    break
            if style == "explicit":
                spec = dict(R.choice(ARGS_EXPL))
            elif style == "generic" and a == 0:
                spec = dict(GENERIC)
            elif style == "generic":
                # generic methods with elided reference arguments are left out: the macro accepts them but its
                # output does not compile (Params<T> lacks the '__proxy_params lifetime) - see DESIGN "observations"
                spec = dict(R.choice([a for a in ARGS if not a.get("life")]))
            elif an in HYGIENE and R.random() < 0.5:
                # a name the generated code may use for a local of its own, with the type such a local would have
                # (a string slice): a shadowed argument then still compiles and only the value on the wire tells
                spec = dict(ARGS[4])
            else:
                spec = dict(R.choice(ARGS))
            if a > 0 and style == "elided" and kind == "oneway" and R.random() < 0.3:
                # a placeholder argument: the caller passes a value, nothing is sent for it (only in oneway methods:
                # they have no chain forms, whose signatures leave placeholders out today)
                spec = dict(R.choice([ARGS[0], ARGS[1], ARGS[3], ARGS[5]]))
                spec.update(name="_", var=f"a_placeholder{a}", key=None, wire=None, skip=True)
                args.append(spec)
                continue
            spec["name"] = an
            spec["var"] = "a_" + an.replace("r#", "")
            spec["key"] = an.replace("r#", "")
            spec["wire"] = (R.choice(["the", "x"]) + pascal(an) if R.random() < 0.5 else an.upper()) if R.random() < 0.3 else None
            if spec["wire"] and R.random() < 0.25:
                spec["wire"] = R.choice(ODD_WIRE) + str(a)
            args.append(spec)
        if style == "explicit" and not any("'a" in a["ty"] for a in args):
            style = "elided"
            for a in args:
                a["ty"] = a["ty"].replace("'a ", "")
        if style == "generic" and not args:
            style = "elided"
        outk = R.choice(OUTS)
        methods.append(dict(name=name, kind=kind, rename=rename, style=style, args=args, out=outk))
    return dict(k=k, iface=iface, methods=methods)


def method_sig(m):
    attrs = []
    if m["rename"]:
        attrs.append(f'rename = "{m["rename"]}"')
    if m["kind"] == "more":
        attrs.append("more")
    if m["kind"] == "oneway":
        attrs.append("oneway")
    attr = f"        #[zlink({', '.join(attrs)})]\n" if attrs else ""
    gen = ""
    if m["style"] == "explicit":
        gen = "<'a>"
    elif m["style"] == "generic":
        gen = "<T: Serialize + std::fmt::Debug>"
    params = ["&mut self"]
    for a in m["args"]:
        ra = f'#[zlink(rename = "{rs(a["wire"])}")] ' if a["wire"] else ""
        params.append(f'{ra}{a["name"]}: {a["ty"]}')
    if m["kind"] == "oneway":
        ret = "zlink_core::Result<()>"
    elif m["kind"] == "more":
        ret = f'zlink_core::Result<impl Stream<Item = zlink_core::Result<Result<{m["out"]["ty"]}, Er>>>>'
    else:
        ret = f'zlink_core::Result<Result<{m["out"]["ty"]}, Er>>'
    return f'{attr}        async fn {m["name"]}{gen}({", ".join(params)}) -> {ret};\n'


def wire_method(t, m):
    return f'{t["iface"]}.{m["rename"] or pascal(m["name"])}'


def driver(t, m, mi, others):
    """Rust code of the driver functions for one method."""
    L = []
    w = L.append
    fq = wire_method(t, m)
    decl = []
    for a in m["args"]:
        decl.append(f'        let {a["var"]} = {a["gen"]};')
    pbuild = ["        let mut params = Map::new();"]
    for a in m["args"]:
        if a.get("skip"):
            continue
        key = a["wire"] or a["key"]
        val = a["js"].format(v=a["var"])
        if a.get("opt"):
            pbuild.append(f'        if {a["var"]}.is_some() {{ params.insert("{rs(key)}".into(), {val}); }}')
        else:
            pbuild.append(f'        params.insert("{rs(key)}".into(), {val});')
    sent = [a for a in m["args"] if not a.get("skip")]
    all_opt = bool(sent) and all(a.get("opt") for a in sent)
    has_args = bool(sent)
    callargs = ", ".join(a["pas"].format(v=a["var"]) for a in m["args"])
    expect = f'Expect {{ method: "{fq}", params: {"Some(params.clone())" if has_args else "None"}, all_optional: {str(all_opt).lower()}, more: {str(m["kind"] == "more").lower()}, oneway: {str(m["kind"] == "oneway").lower()} }}'
    ctx = f'trait P{t["k"]} ({t["iface"]}) method {m["name"]}'
    low = m["out"]["low"]
    unit = m["out"].get("unit", False)
    # ---- plain form
    w(f'    pub fn m{mi}_plain(rep: &mut Report, rng: &mut Rng) {{')
    w(f'        let ctx = "{ctx} [plain form]";')
    L.extend(decl)
    L.extend(pbuild)
    w(f'        let expect = {expect};')
    if m["kind"] == "oneway":
        w('        let wire = new_wire(0);')
        w('        let mut conn = Connection::new(VSocket(wire.clone()));')
        w('        let ctx = &with_history(ctx, warm_up(&mut conn, &wire, rng));')
        w(f'        let res = vnet::catch(|| vnet::block_on(conn.{m["name"]}({callargs}), 8).map(|r| r.is_ok()));')
        w('        check_frames(rep, "C12", ctx, &wire, &[&expect], res.as_ref().map(|_| ()).map_err(|e| e.clone()));')
        w('        if let Ok(Some(false)) | Ok(None) = res { rep.violation("C12/oneway-method-did-not-complete", format!("{ctx}: {res:?}"), json!({"monitor": "c12", "ctx": ctx})); }')
        w('        if wire.borrow().read_polls > 0 { rep.violation("C12/oneway-method-reads-from-the-transport", ctx.to_string(), json!({"monitor": "c12", "ctx": ctx})); }')
    elif m["kind"] == "plain":
        w(f'        let (frame, what) = reply_frame(rng, "{t["iface"]}", {str(unit).lower()}, false);')
        w('        let wire = new_wire(0);')
        w('        let mut conn = Connection::new(VSocket(wire.clone()));')
        w('        let ctx = &with_history(ctx, warm_up(&mut conn, &wire, rng));')
        w('        wire.borrow_mut().push(Rx::Bytes(frame.clone()));')
        w(f'        let got = vnet::catch(|| match vnet::block_on(conn.{m["name"]}({callargs}), 8) {{')
        w('            None => "stalled".to_string(),')
        w('            Some(Ok(Ok(o))) => format!("ok:{}", serde_json::to_value(&o).unwrap()),')
        w('            Some(Ok(Err(e))) => format!("err:{}", serde_json::to_value(&e).unwrap()),')
        w('            Some(Err(_)) => "failure".to_string(),')
        w('        });')
        w('        check_frames(rep, "C12", ctx, &wire, &[&expect], got.as_ref().map(|_| ()).map_err(|e| e.clone()));')
        # reference classification by the low-level receive
        w('        let wire2 = new_wire(1);')
        w('        wire2.borrow_mut().push(Rx::Bytes(frame.clone()));')
        w('        let mut conn2 = Connection::new(VSocket(wire2.clone()));')
        w(f'        let want = match vnet::block_on(conn2.receive_reply::<{low}, Er>(), 8) {{')
        w('            None => "stalled".to_string(),')
        if unit:
            w('            Some(Ok(Ok(_))) => "ok:null".to_string(),')
        else:
            w('            Some(Ok(Ok(r))) => match r.parameters() { Some(p) => format!("ok:{}", serde_json::to_value(p).unwrap()), None => "failure".to_string() },')
        w('            Some(Ok(Err(e))) => format!("err:{}", serde_json::to_value(&e).unwrap()),')
        w('            Some(Err(_)) => "failure".to_string(),')
        w('        };')
        w('        compare_reply(rep, "C12", ctx, what, &frame, got, &want);')
    else:  # more
        w(f'        let (frames, whats) = stream_frames(rng, "{t["iface"]}", {str(unit).lower()});')
        w('        let wire = new_wire(0);')
        w('        let mut conn = Connection::new(VSocket(wire.clone()));')
        w('        let ctx = &with_history(ctx, warm_up(&mut conn, &wire, rng));')
        w('        for f in &frames { wire.borrow_mut().push(Rx::Bytes(f.clone())); }')
        w('        let got = vnet::catch(|| {')
        w(f'            let st = match vnet::block_on(conn.{m["name"]}({callargs}), 8) {{ Some(Ok(s)) => s, Some(Err(e)) => return vec![format!("call-failed:{{e:?}}")], None => return vec!["stalled".to_string()] }};')
        w('            let mut st = core::pin::pin!(st);')
        w('            let mut items = Vec::new();')
        w('            loop {')
        w('                match vnet::block_on(st.next(), 8) {')
        w('                    None => { items.push("stalled".to_string()); break; }')
        w('                    Some(None) => break,')
        w('                    Some(Some(Ok(Ok(o)))) => items.push(format!("ok:{}", serde_json::to_value(&o).unwrap())),')
        w('                    Some(Some(Ok(Err(e)))) => items.push(format!("err:{}", serde_json::to_value(&e).unwrap())),')
        w('                    Some(Some(Err(_))) => items.push("failure".to_string()),')
        w('                }')
        w('                if items.len() > 16 { break; }')
        w('            }')
        w('            items')
        w('        });')
        w('        check_frames(rep, "C12", ctx, &wire, &[&expect], got.as_ref().map(|_| ()).map_err(|e| e.clone()));')
        w('        compare_stream(rep, "C12", ctx, &whats, got);')
    w('    }')
    # ---- chain-starting form
    if m["kind"] != "oneway":
        w(f'    pub fn m{mi}_chain(rep: &mut Report, rng: &mut Rng) {{')
        w(f'        let ctx = "{ctx} [chain_ form]";')
        L.extend(decl)
        L.extend(pbuild)
        w(f'        let expect = {expect};')
        w('        let wire = new_wire(0);')
        w('        let mut conn = Connection::new(VSocket(wire.clone()));')
        w('        let ctx = &with_history(ctx, warm_up(&mut conn, &wire, rng));')
        w('        let res = vnet::catch(|| {')
        tf = "Pt, Value, Value" if m["style"] == "generic" else "Value, Value"
        w(f'            let chain = conn.chain_{m["name"]}::<{tf}>({callargs}).map_err(|e| format!("{{e:?}}"))?;')
        w('            match vnet::block_on(chain.send(), 8) { Some(Ok(_)) => Ok(()), Some(Err(e)) => Err(format!("{e:?}")), None => Err("stalled".to_string()) }')
        w('        });')
        w('        let res = match res { Ok(Ok(())) => Ok(()), Ok(Err(e)) => { rep.violation("C12/chain-form-refused-the-call", format!("{ctx}: {e}"), json!({"monitor": "c12", "ctx": ctx})); return; } Err(p) => Err(p) };')
        w('        check_frames(rep, "C12", ctx, &wire, &[&expect], res);')
        w('    }')
        # ---- chain extension form: another method of the same trait starts the chain
        starters = [o for o in others if o["kind"] != "oneway"]
        # the macro generates chain *extension* methods for plain methods only
        if starters and m["kind"] == "plain":
            o = starters[0]
            odecl = [f'        let o_{a["var"]} = {a["gen"]};' for a in o["args"]]
            opb = ["        let mut oparams = Map::new();"]
            for a in o["args"]:
                if a.get("skip"):
                    continue
                key = a["wire"] or a["key"]
                val = a["js"].format(v="o_" + a["var"])
                if a.get("opt"):
                    opb.append(f'        if o_{a["var"]}.is_some() {{ oparams.insert("{rs(key)}".into(), {val}); }}')
                else:
                    opb.append(f'        oparams.insert("{rs(key)}".into(), {val});')
            osent = [a for a in o["args"] if not a.get("skip")]
            oall = bool(osent) and all(a.get("opt") for a in osent)
            ocall = ", ".join(a["pas"].format(v="o_" + a["var"]) for a in o["args"])
            oexp = f'Expect {{ method: "{wire_method(t, o)}", params: {"Some(oparams.clone())" if osent else "None"}, all_optional: {str(oall).lower()}, more: {str(o["kind"] == "more").lower()}, oneway: false }}'
            w(f'    pub fn m{mi}_ext(rep: &mut Report, rng: &mut Rng) {{')
            w(f'        let ctx = "{ctx} [chain extension form, after chain_{o["name"]}]";')
            L.extend(decl)
            L.extend(pbuild)
            L.extend(odecl)
            L.extend(opb)
            w(f'        let expect = {expect};')
            w(f'        let oexpect = {oexp};')
            w('        let wire = new_wire(0);')
            w('        let mut conn = Connection::new(VSocket(wire.clone()));')
            w('        let ctx = &with_history(ctx, warm_up(&mut conn, &wire, rng));')
            w('        let res = vnet::catch(|| {')
            otf = "Pt, Value, Value" if o["style"] == "generic" else "Value, Value"
            w(f'            let chain = conn.chain_{o["name"]}::<{otf}>({ocall}).map_err(|e| format!("{{e:?}}"))?;')
            w(f'            let chain = chain.{m["name"]}({callargs}).map_err(|e| format!("{{e:?}}"))?;')
            w('            match vnet::block_on(chain.send(), 8) { Some(Ok(_)) => Ok(()), Some(Err(e)) => Err(format!("{e:?}")), None => Err("stalled".to_string()) }')
            w('        });')
            w('        let res = match res { Ok(Ok(())) => Ok(()), Ok(Err(e)) => { rep.violation("C12/chain-form-refused-the-call", format!("{ctx}: {e}"), json!({"monitor": "c12", "ctx": ctx})); return; } Err(p) => Err(p) };')
            w('        check_frames(rep, "C12", ctx, &wire, &[&oexpect, &expect], res);')
            w('    }')
    return "\n".join(L) + "\n"


def trait_module(t):
    s = []
    s.append(f'//! generated: proxy trait P{t["k"]} for interface {t["iface"]}\n')
    s.append("#![allow(unused, non_snake_case, clippy::all)]\n")
    s.append("use crate::prelude::*;\n\n")
    s.append(f'#[derive(Debug, ReplyError, PartialEq)]\n#[zlink(interface = "{t["iface"]}", crate = "zlink_core")]\npub enum Er {{\n    Failed {{ code: i64 }},\n    Gone,\n}}\n')
    s.append(f'#[proxy(interface = "{t["iface"]}", crate = "zlink_core")]\npub trait P{t["k"]} {{\n')
    for m in t["methods"]:
        s.append(method_sig(m))
    s.append("}\n\n")
    s.append('#[cfg(feature = "drivers")]\npub mod drv {\n    use super::*;\n')
    fns = []
    for mi, m in enumerate(t["methods"]):
        others = [o for oi, o in enumerate(t["methods"]) if oi != mi]
        s.append(driver(t, m, mi, others))
        fns.append(f"m{mi}_plain")
        if m["kind"] != "oneway":
            fns.append(f"m{mi}_chain")
            if m["kind"] == "plain" and any(o["kind"] != "oneway" for o in others):
                fns.append(f"m{mi}_ext")
    s.append("    pub fn all(rep: &mut Report, rng: &mut Rng) {\n")
    for f in fns:
        s.append(f"        {f}(rep, rng);\n")
    s.append("    }\n")
    s.append(f'    pub const METHODS: usize = {len(t["methods"])};\n    pub const FORMS: usize = {len(fns)};\n')
    s.append("}\n")
    return "".join(s)


# ---------------------------------------------------------------------------------------------
# C05c: derived error enums

EFIELDS = [
    ("u32", "uv(rng)", "json!({v})"), ("i64", "iv(rng)", "json!({v})"), ("String", "sv(rng)", "json!({v})"), ("bool", "bv(rng)", "json!({v})"),
    ("f64", "fv(rng)", "json!({v})"), ("Vec<i64>", "viv(rng)", "json!({v})"), ("Option<String>", "osv(rng)", "json!({v})"), ("Option<i64>", "oiv(rng)", "json!({v})"),
]
EFIELDS_B = [("&'a str", "svp(rng)", "json!({v})"), ("Option<&'a str>", "osvp(rng)", "json!({v})")]


RUST_KEYWORDS = {"type", "in", "match", "where", "ref", "move", "use", "fn", "loop", "as", "mod", "let", "box", "try", "async", "dyn", "struct", "enum", "impl", "trait", "for", "while", "if", "else", "return", "break", "continue", "const", "static", "pub", "unsafe", "extern", "crate", "super", "true", "false", "mut", "await", "abstract", "become", "do", "final", "macro", "override", "priv", "typeof", "unsized", "virtual", "yield"}


def gen_errenum(k):
    iface = iface_name()
    borrowed = R.random() < 0.4
    nv = R.randint(1, 5)
    used = set()
    variants = []
    for _ in range(nv):
        while True:
            vn = pascal(snake(R.randint(1, 3)))
            if vn not in used and vn not in ("Self",):
                used.add(vn)
                break
        nf = R.choice([0, 0, 1, 2, 3])
        fields = []
        fn_used = set()
        for _ in range(nf):
            while True:
                # now and then a name that the derive's generated code may use for its own locals
                fn = R.choice(HYGIENE + ["map", "serializer", "deserializer", "seq", "key", "formatter", "visitor", "variant", "field", "state"]) if R.random() < 0.25 else snake(R.randint(1, 2))
                # now and then a keyword, written as a raw identifier (its wire name is the identifier without `r#`)
                if R.random() < 0.08:
                    fn = R.choice(["type", "in", "match", "where", "ref", "move", "use", "fn", "loop", "as", "mod", "let", "box", "try", "async", "dyn"])
                if fn not in fn_used and fn != "self":
                    fn_used.add(fn)
                    break
            pool = EFIELDS + (EFIELDS_B if borrowed else [])
            ty, gen, js = R.choice(pool)
            wire = (R.choice(["the", "x"]) + pascal(fn)) if R.random() < 0.35 else None
            if wire and R.random() < 0.25:
                wire = R.choice(ODD_WIRE) + str(len(fields))
            ident = ("r#" + fn) if fn in RUST_KEYWORDS else fn
            fields.append(dict(name=fn, ident=ident, ty=ty, gen=gen, js=js, wire=wire))
        variants.append(dict(name=vn, fields=fields))
    if borrowed and not any("'a" in f["ty"] for v in variants for f in v["fields"]):
        borrowed = False
    return dict(k=k, iface=iface, variants=variants, borrowed=borrowed)


def err_module(e):
    s = []
    lt = "<'a>" if e["borrowed"] else ""
    s.append(f'//! generated: error enum E{e["k"]} for interface {e["iface"]}\n#![allow(unused, non_snake_case, clippy::all)]\nuse crate::prelude::*;\n\n')
    s.append(f'#[derive(Debug, ReplyError, PartialEq)]\n#[zlink(interface = "{e["iface"]}", crate = "zlink_core")]\npub enum E{lt} {{\n')
    for v in e["variants"]:
        if v["fields"]:
            s.append(f'    {v["name"]} {{\n')
            for f in v["fields"]:
                if f["wire"]:
                    s.append(f'        #[zlink(rename = "{rs(f["wire"])}")]\n')
                s.append(f'        {f["ident"]}: {f["ty"]},\n')
            s.append("    },\n")
        else:
            s.append(f'    {v["name"]},\n')
    s.append("}\n\n")
    s.append('#[cfg(feature = "drivers")]\npub mod drv {\n    use super::*;\n')
    s.append("    pub fn all(rep: &mut Report, rng: &mut Rng) {\n")
    for v in e["variants"]:
        fq = f'{e["iface"]}.{v["name"]}'
        s.append("        {\n")
        for f in v["fields"]:
            s.append(f'            let f_{f["name"]} = {f["gen"]};\n')
        s.append("            let mut params = Map::new();\n")
        for f in v["fields"]:
            key = f["wire"] or f["name"]
            # the property: "a `parameters` object holding the variant's fields under their wire names"
            s.append(f'            params.insert("{rs(key)}".into(), {f["js"].format(v="f_" + f["name"])});\n')
        if v["fields"]:
            inits = []
            for f in v["fields"]:
                if f["ty"] == "&'a str":
                    inits.append(f'{f["ident"]}: &f_{f["name"]}')
                elif f["ty"] == "Option<&'a str>":
                    inits.append(f'{f["ident"]}: f_{f["name"]}.as_deref()')
                else:
                    inits.append(f'{f["ident"]}: f_{f["name"]}.clone()')
            s.append(f'            let value = E::{v["name"]} {{ {", ".join(inits)} }};\n')
        else:
            s.append(f'            let value = E::{v["name"]};\n')
        s.append(f'            check_error_enum(rep, "E{e["k"]} ({e["iface"]}) variant {v["name"]}", "{fq}", &value, {"Some(params)" if v["fields"] else "None"}, |b| crate::decode_both!(E, b, value));\n')
        s.append("        }\n")
    s.append("    }\n}\n")
    return "".join(s)


# ---------------------------------------------------------------------------------------------
# C16: introspection derives

# (rust type, expected GTy expression, needs lifetime)
PRIMS = [
    ("bool", "GTy::Bool"), ("i8", "GTy::Int"), ("i16", "GTy::Int"), ("i32", "GTy::Int"), ("i64", "GTy::Int"), ("u8", "GTy::Int"), ("u16", "GTy::Int"), ("u32", "GTy::Int"),
    ("u64", "GTy::Int"), ("isize", "GTy::Int"), ("usize", "GTy::Int"), ("f32", "GTy::Float"), ("f64", "GTy::Float"), ("char", "GTy::Str"), ("String", "GTy::Str"),
    ("&'a str", "GTy::Str"), ("()", "GTy::Struct(vec![])"), ("serde_json::Value", "GTy::Object"), ("std::path::PathBuf", "GTy::Str"), ("std::net::IpAddr", "GTy::Str"),
    ("std::net::Ipv4Addr", "GTy::Str"), ("std::net::Ipv6Addr", "GTy::Str"), ("std::net::SocketAddr", "GTy::Str"), ("std::time::Duration", "GTy::Float"), ("std::time::SystemTime", "GTy::Float"),
    ("std::ffi::OsString", "GTy::Str"),
]


def gen_rtype(depth, customs, allow_opt=True):
    """returns (rust type, expected GTy expr)"""
    if depth == 0 or R.random() < 0.45:
        if customs and R.random() < 0.2:
            c = R.choice(customs)
            return c, f'GTy::Custom("{c}".into())'
        return R.choice(PRIMS)
    k = R.choice(["opt", "vec", "slice", "hset", "bset", "hmap", "bmap", "hmaps", "box", "rc", "arc", "cell", "refcell", "cow"])
    if k == "opt":
        if not allow_opt:
            k = "vec"
        else:
            t, g = gen_rtype(depth - 1, customs, False)
            return f"Option<{t}>", f"GTy::Optional(Box::new({g}))"
    t, g = gen_rtype(depth - 1, customs, allow_opt if k in ("box", "rc", "arc", "cell", "refcell") else True)
    if k == "vec":
        return f"Vec<{t}>", f"GTy::Array(Box::new({g}))"
    if k == "slice":
        return f"&'a [{t}]", f"GTy::Array(Box::new({g}))"
    if k in ("hset", "bset"):
        # set elements need Hash/Ord only for construction, which the derive never does
        return (f"std::collections::HashSet<{t}>" if k == "hset" else f"std::collections::BTreeSet<{t}>"), f"GTy::Array(Box::new({g}))"
    if k == "hmap":
        return f"std::collections::HashMap<String, {t}>", f"GTy::Map(Box::new({g}))"
    if k == "hmaps":
        return f"std::collections::HashMap<&'a str, {t}>", f"GTy::Map(Box::new({g}))"
    if k == "bmap":
        return f"std::collections::BTreeMap<String, {t}>", f"GTy::Map(Box::new({g}))"
    if k == "box":
        return f"Box<{t}>", g
    if k == "rc":
        return f"std::rc::Rc<{t}>", g
    if k == "arc":
        return f"std::sync::Arc<{t}>", g
    if k == "cell":
        return f"std::cell::Cell<{t}>", g
    if k == "refcell":
        return f"std::cell::RefCell<{t}>", g
    if k == "cow":
        return "std::borrow::Cow<'a, str>", "GTy::Str"
    raise AssertionError(k)


DOCS = ["The identifier", "a value", "is it on?", "count of things (approx.)", "x", "Name, as given: by the user", "100% sure", "# not a heading", "", "second paragraph, after a blank line"]


# documentation the way people write it: examples in fenced blocks, lists, emphasis, links, tables
DOC_BLOCKS = [
    ["Example:", "```", "let x = frobnicate(1);", "```"],
    ["```text", "a -> b", "```", "after the example"],
    ["```", "a fence that is never closed"],
    ["~~~", "tilde fence", "~~~"],
    ["- first", "- second", "  - nested"],
    ["1. one", "2. two"],
    ["*emphasis* and **strong** and `code`", "[a link](https://example.org/x#y)"],
    ["| a | b |", "|---|---|", "| 1 | 2 |"],
    ["> quoted", "<b>html</b> &amp; entities"],
    ["    indented code", "back to prose"],
]


DOC_FORCE = [False, 0]


def docs():
    if DOC_FORCE[0]:
        # the "documented like in real life" items: every documentable place gets one of the blocks, in turn
        DOC_FORCE[1] += 1
        return list(DOC_BLOCKS[DOC_FORCE[1] % len(DOC_BLOCKS)])
    r = R.random()
    if r < 0.1:
        return list(R.choice(DOC_BLOCKS))
    if r < 0.45:
        return [R.choice(DOCS) for _ in range(R.randint(1, 3))]
    return []


def doc_attr(ds, indent):
    # an empty doc line is a bare `///` (the usual paragraph separator)
    return "".join(f"{indent}/// {d}\n" if d else f"{indent}///\n" for d in ds)


def gvec(ds):
    # expectation: the doc lines as comments, without the white space around them (a `# text` line cannot carry any)
    return "vec![" + ", ".join(f'"{d.strip()}".to_string()' for d in ds).replace('\\', '\\\\') + "]"


def c16_field_name():
    """Rust field names: mostly ordinary, now and then what people write to dodge a keyword (`type_`, `in_`) or to
    mark a field as internal (`_id`). They are described under exactly those names."""
    r = R.random()
    if r < 0.08:
        return R.choice(["type", "match", "in", "ref", "where", "loop", "use", "move", "self", "mod", "fn", "as", "box", "final", "data", "typed"]) + "_"
    if r < 0.10:
        return "_" + R.choice(["id", "x", "reserved"])
    return snake(R.randint(1, 2))


def gen_c16(k):
    kind = R.choice(["type_struct", "type_enum", "custom_struct", "custom_enum", "reply_error", "type_struct", "custom_struct"])
    name = "T" + pascal(snake(R.randint(1, 2))) + str(k)
    s = [f"//! generated: introspection item {name} ({kind})\n#![allow(unused, non_snake_case, non_camel_case_types, clippy::all)]\nuse crate::prelude::*;\nuse crate::idl::*;\n\n"]
    # two custom types other items may refer to
    s.append("#[derive(zlink_core::introspect::CustomType)]\n#[zlink(crate = \"zlink_core\")]\npub struct Inner { pub a: i64 }\n")
    s.append("#[derive(zlink_core::introspect::CustomType)]\n#[zlink(crate = \"zlink_core\")]\npub enum Mode { On, Off }\n\n")
    s.append("#[derive(zlink_core::introspect::Type)]\n#[zlink(crate = \"zlink_core\")]\npub struct InnerObj { pub a: i64 }\n\n")
    customs = ["Inner", "Mode"]
    exp = ""
    check = ""
    tdocs = docs()
    if kind in ("type_struct", "custom_struct"):
        nf = R.randint(0, 6)
        used = set()
        fields = []
        for _ in range(nf):
            while True:
                fn = c16_field_name()
                if fn not in used:
                    used.add(fn)
                    break
            t, g = gen_rtype(R.randint(0, 3), customs)
            fields.append((fn, t, g, docs()))
        life = any("'a" in f[1] for f in fields)
        lt = "<'a>" if life else ""
        derive = "zlink_core::introspect::Type" if kind == "type_struct" else "zlink_core::introspect::CustomType"
        s.append(doc_attr(tdocs, ""))
        s.append(f'#[derive({derive})]\n#[zlink(crate = "zlink_core")]\npub struct {name}{lt} {{\n')
        for fn, t, g, ds in fields:
            s.append(doc_attr(ds, "    "))
            s.append(f"    pub {fn}: {t},\n")
        s.append("}\n\n")
        fexp = "vec![" + ", ".join(f'GField {{ name: "{fn}".into(), comments: {gvec(ds)}, ty: {g} }}' for fn, t, g, ds in fields) + "]"
        any_lt = "<'static>" if life else ""
        if kind == "type_struct":
            check = f'check_type(rep, "{name}", <{name}{any_lt} as zlink_core::introspect::Type>::TYPE, &GTy::Struct({fexp}));'
        else:
            check = (f'check_custom(rep, "{name}", <{name}{any_lt} as zlink_core::introspect::CustomType>::CUSTOM_TYPE, &GMember::Type {{ name: "{name}".into(), comments: {gvec(tdocs)}, body: GBody::Struct({fexp}) }});\n'
                     f'        check_type(rep, "{name}", <{name}{any_lt} as zlink_core::introspect::Type>::TYPE, &GTy::Custom("{name}".into()));')
    elif kind in ("type_enum", "custom_enum"):
        nv = R.randint(1, 6)
        used = set()
        vs = []
        for _ in range(nv):
            while True:
                vn = pascal(snake(R.randint(1, 2)))
                if vn not in used and vn != "Self":
                    used.add(vn)
                    break
            vs.append((vn, docs()))
        derive = "zlink_core::introspect::Type" if kind == "type_enum" else "zlink_core::introspect::CustomType"
        s.append(doc_attr(tdocs, ""))
        # other attributes an enum may carry: a layout (`repr` does not change how serde names the variants),
        # further derives, explicit discriminants
        extra = R.choice(["", "", "#[repr(u8)]\n", "#[repr(i32)]\n", "#[repr(C)]\n", "#[derive(Clone, Copy, Debug, PartialEq, Eq)]\n", "#[derive(Debug, serde::Serialize, serde::Deserialize)]\n#[repr(u16)]\n"])
        discr = extra.startswith("#[repr(") and "C" not in extra and R.random() < 0.5
        s.append(f'{extra}#[derive({derive})]\n#[zlink(crate = "zlink_core")]\npub enum {name} {{\n')
        for vi, (vn, ds) in enumerate(vs):
            s.append(doc_attr(ds, "    "))
            s.append(f"    {vn} = {vi * 3 + 1},\n" if discr else f"    {vn},\n")
        s.append("}\n\n")
        vexp = "vec![" + ", ".join(f'GVariant {{ name: "{vn}".into(), comments: {gvec(ds)} }}' for vn, ds in vs) + "]"
        if kind == "type_enum":
            check = f'check_type(rep, "{name}", <{name} as zlink_core::introspect::Type>::TYPE, &GTy::Enum({vexp}));'
        else:
            check = (f'check_custom(rep, "{name}", <{name} as zlink_core::introspect::CustomType>::CUSTOM_TYPE, &GMember::Type {{ name: "{name}".into(), comments: {gvec(tdocs)}, body: GBody::Enum({vexp}) }});\n'
                     f'        check_type(rep, "{name}", <{name} as zlink_core::introspect::Type>::TYPE, &GTy::Custom("{name}".into()));')
    else:  # reply_error
        nv = R.randint(1, 5)
        used = set()
        vs = []
        life = False
        for _ in range(nv):
            while True:
                vn = pascal(snake(R.randint(1, 2)))
                if vn not in used and vn != "Self":
                    used.add(vn)
                    break
            form = R.choice(["unit", "struct", "struct", "tuple"])
            fields = []
            if form == "struct":
                fu = set()
                # error enums commonly repeat a field (same name and type) in several variants, each
                # with its own documentation (or none)
                earlier = [f for v in vs for f in v[2]]
                if earlier and R.random() < 0.6:
                    fn, t, g, ds0 = R.choice(earlier)
                    ds = R.choice([[], ["about " + fn + " here"], docs()])
                    if ds == ds0:
                        ds = ds0 + ["and more"]
                    fu.add(fn)
                    fields.append((fn, t, g, ds))
                for _ in range(R.randint(1, 3)):
                    while True:
                        fn = c16_field_name()
                        if fn not in fu:
                            fu.add(fn)
                            break
                    t, g = gen_rtype(R.randint(0, 2), customs)
                    fields.append((fn, t, g, docs()))
            tup = None
            if form == "tuple":
                tup = "InnerObj"
            life = life or any("'a" in f[1] for f in fields)
            vs.append((vn, form, fields, tup, docs()))
        lt = "<'a>" if life else ""
        s.append(f'#[derive(zlink_core::introspect::ReplyError)]\n#[zlink(crate = "zlink_core")]\npub enum {name}{lt} {{\n')
        for vn, form, fields, tup, ds in vs:
            s.append(doc_attr(ds, "    "))
            if form == "unit":
                s.append(f"    {vn},\n")
            elif form == "tuple":
                s.append(f"    {vn}({tup}),\n")
            else:
                s.append(f"    {vn} {{\n")
                for fn, t, g, fds in fields:
                    s.append(doc_attr(fds, "        "))
                    s.append(f"        {fn}: {t},\n")
                s.append("    },\n")
        s.append("}\n\n")
        eexp = []
        for vn, form, fields, tup, ds in vs:
            if form == "tuple":
                # a single-tuple variant takes its fields from the wrapped type
                fexp = 'vec![GField { name: "a".into(), comments: vec![], ty: GTy::Int }]'
            else:
                fexp = "vec![" + ", ".join(f'GField {{ name: "{fn}".into(), comments: {gvec(fds)}, ty: {g} }}' for fn, t, g, fds in fields) + "]"
            eexp.append(f'GMember::Error {{ name: "{vn}".into(), comments: {gvec(ds)}, fields: {fexp} }}')
        any_lt = "<'static>" if life else ""
        check = f'check_errors(rep, "{name}", <{name}{any_lt} as zlink_core::introspect::ReplyError>::VARIANTS, &[{", ".join(eexp)}]);'
    s.append(f'#[cfg(feature = "drivers")]\npub mod drv {{\n    use super::*;\n    pub fn all(rep: &mut Report, _rng: &mut Rng) {{\n        {check}\n    }}\n}}\n')
    return "".join(s)


def c16_systematic():
    """Every two-level combination of type constructors (outer x inner), as fields of structs with
    <= 6 fields, alternating the three derives; independent of the seed."""
    outers = {
        "opt": lambda t, g: (f"Option<{t}>", f"GTy::Optional(Box::new({g}))"),
        "vec": lambda t, g: (f"Vec<{t}>", f"GTy::Array(Box::new({g}))"),
        "slice": lambda t, g: (f"&'a [{t}]", f"GTy::Array(Box::new({g}))"),
        "hset": lambda t, g: (f"std::collections::HashSet<{t}>", f"GTy::Array(Box::new({g}))"),
        "bset": lambda t, g: (f"std::collections::BTreeSet<{t}>", f"GTy::Array(Box::new({g}))"),
        "hmap": lambda t, g: (f"std::collections::HashMap<String, {t}>", f"GTy::Map(Box::new({g}))"),
        "hmaps": lambda t, g: (f"std::collections::HashMap<&'a str, {t}>", f"GTy::Map(Box::new({g}))"),
        "bmap": lambda t, g: (f"std::collections::BTreeMap<String, {t}>", f"GTy::Map(Box::new({g}))"),
        "box": lambda t, g: (f"Box<{t}>", g),
        "rc": lambda t, g: (f"std::rc::Rc<{t}>", g),
        "arc": lambda t, g: (f"std::sync::Arc<{t}>", g),
        "cell": lambda t, g: (f"std::cell::Cell<{t}>", g),
        "refcell": lambda t, g: (f"std::cell::RefCell<{t}>", g),
    }
    inners = [("int", "i64", "GTy::Int"), ("str", "String", "GTy::Str"), ("float", "f64", "GTy::Float"), ("bool", "bool", "GTy::Bool"),
              ("custom", "Inner", 'GTy::Custom("Inner".into())'), ("unit", "()", "GTy::Struct(vec![])"), ("obj", "serde_json::Value", "GTy::Object")]
    transparent = ("box", "rc", "arc", "cell", "refcell")
    fields = []
    for o1, f1 in outers.items():
        for iname, it, ig in inners[:3]:
            t, g = f1(it, ig)
            fields.append((f"{o1}_{iname}", t, g))
        for o2, f2 in outers.items():
            # Varlink has no `??`: leave out Option directly (or through transparent wrappers) inside Option
            if o1 == "opt" and (o2 == "opt" or o2 in transparent):
                continue
            if o1 in transparent and o2 in transparent:
                continue
            it, ig = inners[(len(fields)) % len(inners)][1:]
            t2, g2 = f2(it, ig)
            t, g = f1(t2, g2)
            fields.append((f"{o1}_{o2}", t, g))
    out = []
    for k in range(0, len(fields), 6):
        grp = fields[k:k + 6]
        which = (k // 6) % 3
        name = f"TSys{k // 6}"
        life = any("'a" in f[1] for f in grp)
        lt = "<'a>" if life else ""
        any_lt = "<'static>" if life else ""
        s = [f"//! generated: systematic type shapes {name}\n#![allow(unused, non_snake_case, non_camel_case_types, clippy::all)]\nuse crate::prelude::*;\nuse crate::idl::*;\n\n"]
        s.append("#[derive(zlink_core::introspect::CustomType)]\n#[zlink(crate = \"zlink_core\")]\npub struct Inner { pub a: i64 }\n\n")
        fexp = "vec![" + ", ".join(f'GField {{ name: "{fn}".into(), comments: vec![], ty: {g} }}' for fn, t, g in grp) + "]"
        if which in (0, 1):
            derive = "zlink_core::introspect::Type" if which == 0 else "zlink_core::introspect::CustomType"
            s.append(f'#[derive({derive})]\n#[zlink(crate = "zlink_core")]\npub struct {name}{lt} {{\n')
            for fn, t, g in grp:
                s.append(f"    pub {fn}: {t},\n")
            s.append("}\n\n")
            if which == 0:
                check = f'check_type(rep, "{name}", <{name}{any_lt} as zlink_core::introspect::Type>::TYPE, &GTy::Struct({fexp}));'
            else:
                check = (f'check_custom(rep, "{name}", <{name}{any_lt} as zlink_core::introspect::CustomType>::CUSTOM_TYPE, &GMember::Type {{ name: "{name}".into(), comments: vec![], body: GBody::Struct({fexp}) }});\n'
                         f'        check_type(rep, "{name}", <{name}{any_lt} as zlink_core::introspect::Type>::TYPE, &GTy::Custom("{name}".into()));')
        else:
            s.append(f'#[derive(zlink_core::introspect::ReplyError)]\n#[zlink(crate = "zlink_core")]\npub enum {name}{lt} {{\n    First {{\n')
            for fn, t, g in grp[:3]:
                s.append(f"        {fn}: {t},\n")
            s.append("    },\n    Second {\n")
            for fn, t, g in grp[3:] or grp[:1]:
                s.append(f"        {fn}: {t},\n")
            s.append("    },\n}\n\n")
            fe = lambda g_: "vec![" + ", ".join(f'GField {{ name: "{fn}".into(), comments: vec![], ty: {g} }}' for fn, t, g in g_) + "]"
            check = (f'check_errors(rep, "{name}", <{name}{any_lt} as zlink_core::introspect::ReplyError>::VARIANTS, &[GMember::Error {{ name: "First".into(), comments: vec![], fields: {fe(grp[:3])} }}, '
                     f'GMember::Error {{ name: "Second".into(), comments: vec![], fields: {fe(grp[3:] or grp[:1])} }}]);')
        s.append(f'#[cfg(feature = "drivers")]\npub mod drv {{\n    use super::*;\n    pub fn all(rep: &mut Report, _rng: &mut Rng) {{\n        {check}\n    }}\n}}\n')
        out.append("".join(s))
    return out


def c16_serde_attrs():
    """Types that also carry serde derives and serde field attributes (defaults, skips, aliases of Option): the
    description follows the Rust type of the field, whatever serde is told about it."""
    fields = [
        ('#[serde(default)]', "count", "i64", "GTy::Int"),
        ('#[serde(default)]', "label", "Option<String>", "GTy::Optional(Box::new(GTy::Str))"),
        ('#[serde(default)]', "boxed", "Box<Option<String>>", "GTy::Optional(Box::new(GTy::Str))"),
        ('#[serde(default)]', "aliased", "Label", "GTy::Optional(Box::new(GTy::Str))"),
        ('#[serde(default = "some_ints")]', "ints", "Vec<i64>", "GTy::Array(Box::new(GTy::Int))"),
        ('#[serde(skip_serializing_if = "Option::is_none")]', "flag", "Option<bool>", "GTy::Optional(Box::new(GTy::Bool))"),
        ('#[serde(default, skip_serializing_if = "String::is_empty")]', "text", "String", "GTy::Str"),
        ('#[serde(default)]', "table", "std::collections::BTreeMap<String, f64>", "GTy::Map(Box::new(GTy::Float))"),
    ]
    out = []
    for which, name in enumerate(["TSerdeType", "TSerdeCustom", "TSerdeError"]):
        s = [f"//! generated: serde attributes next to the introspection derives ({name})\n#![allow(unused, non_snake_case, non_camel_case_types, clippy::all)]\nuse crate::prelude::*;\nuse crate::idl::*;\n\n"]
        s.append("pub type Label = Option<String>;\nfn some_ints() -> Vec<i64> { vec![1] }\n\n")
        fexp = "vec![" + ", ".join(f'GField {{ name: "{fn}".into(), comments: vec![], ty: {g} }}' for _, fn, t, g in fields) + "]"
        if which < 2:
            derive = "zlink_core::introspect::Type" if which == 0 else "zlink_core::introspect::CustomType"
            s.append(f'#[derive(serde::Serialize, serde::Deserialize, {derive})]\n#[zlink(crate = "zlink_core")]\npub struct {name} {{\n')
            for attr, fn, t, g in fields:
                s.append(f"    {attr}\n    pub {fn}: {t},\n")
            s.append("}\n\n")
            if which == 0:
                check = f'check_type(rep, "{name}", <{name} as zlink_core::introspect::Type>::TYPE, &GTy::Struct({fexp}));'
            else:
                check = (f'check_custom(rep, "{name}", <{name} as zlink_core::introspect::CustomType>::CUSTOM_TYPE, &GMember::Type {{ name: "{name}".into(), comments: vec![], body: GBody::Struct({fexp}) }});\n'
                         f'        check_type(rep, "{name}", <{name} as zlink_core::introspect::Type>::TYPE, &GTy::Custom("{name}".into()));')
        else:
            s.append(f'#[derive(serde::Serialize, serde::Deserialize, zlink_core::introspect::ReplyError)]\n#[zlink(crate = "zlink_core")]\npub enum {name} {{\n    Broken {{\n')
            for attr, fn, t, g in fields:
                s.append(f"        {attr}\n        {fn}: {t},\n")
            s.append("    },\n}\n\n")
            check = f'check_errors(rep, "{name}", <{name} as zlink_core::introspect::ReplyError>::VARIANTS, &[GMember::Error {{ name: "Broken".into(), comments: vec![], fields: {fexp} }}]);'
        s.append(f'#[cfg(feature = "drivers")]\npub mod drv {{\n    use super::*;\n    pub fn all(rep: &mut Report, _rng: &mut Rng) {{\n        {check}\n    }}\n}}\n')
        out.append("".join(s))
    return out


# ---------------------------------------------------------------------------------------------
n12, n05, n16 = (20, 28, 80) if size == "quick" else (60, 80, 200)
mods = []
for k in range(n12):
    open(os.path.join(out, f"p{k}.rs"), "w").write(trait_module(gen_trait(k)))
    mods.append(("c12", f"p{k}"))
# systematic: every name that generated code may use for a local of its own, as a string-slice argument and as an
# integer argument, in every method kind (independent of the seed)
def hygiene_traits(k0):
    ts = []
    names = list(HYGIENE)
    for t in range(0, len(names), 4):
        methods = []
        for i, an in enumerate(names[t:t + 4]):
            for j, (spec, kind) in enumerate([(ARGS[4], "plain"), (ARGS[0], "plain"), (ARGS[4], ["more", "oneway"][i % 2])]):
                a = dict(spec)
                a.update(name=an, var="a_" + an, key=an, wire=None)
                b = dict(ARGS[0])
                b.update(name="other", var="a_other", key="other", wire=None)
                methods.append(dict(name=f"h{i}_{j}_{an}", kind=kind, rename=None, style="elided", args=[a, b] if j != 1 else [a], out=OUTS[(i + j) % len(OUTS)]))
        ts.append(dict(k=k0 + len(ts), iface="org.example.Hygiene", methods=methods))
    return ts


def placeholder_trait(k):
    """Oneway methods with placeholder arguments in front of, between and behind renamed and plain arguments."""
    def arg(name, ty_i, wire=None):
        a = dict(ARGS[ty_i]); a.update(name=name, var="a_" + name, key=name, wire=wire); return a
    def ph(i, ty_i):
        a = dict(ARGS[ty_i]); a.update(name="_", var=f"a_placeholder{i}", key=None, wire=None, skip=True); return a
    shapes = [
        [arg("volume", 5, "volumeId"), ph(1, 0), arg("new_size", 0, "newSize")],
        [ph(0, 3), arg("alpha", 0, "Alpha")],
        [arg("one", 0), ph(1, 1), arg("two", 5, "Two"), ph(3, 0), arg("three", 3, "three-3")],
        [ph(0, 0), ph(1, 5), arg("last", 1, "theLast")],
        [arg("first", 4, "theFirst"), ph(1, 0)],
    ]
    methods = [dict(name=f"ph{i}", kind="oneway", rename=None, style="elided", args=sh, out=OUTS[0]) for i, sh in enumerate(shapes)]
    return dict(k=k, iface="org.example.Placeholders", methods=methods)


_ht = hygiene_traits(n12)
_pt = placeholder_trait(n12 + len(_ht))
open(os.path.join(out, f"p{_pt['k']}.rs"), "w").write(trait_module(_pt))
mods.append(("c12", f"p{_pt['k']}"))
for tr in _ht:
    open(os.path.join(out, f"p{tr['k']}.rs"), "w").write(trait_module(tr))
    mods.append(("c12", f"p{tr['k']}"))
for k in range(n05):
    open(os.path.join(out, f"e{k}.rs"), "w").write(err_module(gen_errenum(k)))
    mods.append(("c05", f"e{k}"))
for k in range(n16):
    open(os.path.join(out, f"t{k}.rs"), "w").write(gen_c16(k))
    mods.append(("c16", f"t{k}"))
DOC_FORCE[0] = True
for k in range(n16, n16 + (30 if size == "quick" else 60)):
    open(os.path.join(out, f"t{k}.rs"), "w").write(gen_c16(k))
    mods.append(("c16", f"t{k}"))
DOC_FORCE[0] = False
for k, text in enumerate(c16_serde_attrs()):
    open(os.path.join(out, f"tse{k}.rs"), "w").write(text)
    mods.append(("c16", f"tse{k}"))
for k, text in enumerate(c16_systematic()):
    open(os.path.join(out, f"ts{k}.rs"), "w").write(text)
    mods.append(("c16", f"ts{k}"))
with open(os.path.join(out, "mod.rs"), "w") as f:
    f.write("//! generated module list\n")
    for p_, m in mods:
        f.write(f'#[cfg(feature = "{p_}")]\npub mod {m};\n')
    for prop in ("c12", "c05", "c16"):
        f.write(f'#[cfg(all(feature = "drivers", feature = "{prop}"))]\npub fn run_{prop}(rep: &mut vnet::Report, rng: &mut vnet::Rng) {{\n')
        for p, m in mods:
            if p == prop:
                f.write(f"    {m}::drv::all(rep, rng);\n")
        f.write("}\n")
        f.write(f"pub const N_{prop.upper()}: usize = {sum(1 for p, _ in mods if p == prop)};\n")
    f.write(f'pub const CORPUS_SEED: u64 = {seed};\npub const CORPUS_SIZE: &str = "{size}";\n')
print(f"corpus seed={seed} size={size}: {n12} proxy traits, {n05} error enums, {n16} introspection items -> {out}")

#!/bin/bash
# usage: tools/rv.sh <layer> <monitor> [zv args...]  — run a monitor and summarise its report (development helper)
L=$1; shift
/verif/harness/target-$L/release/zv "$@" | python3 -c "
import json,sys
r=json.load(sys.stdin)
print('evals',r['evaluations'],'distinct',r['distinct'],'exhaustive',r['exhaustive'])
print(json.dumps(r['counters']))
print('violations',r['violation_counts'],'inconclusive',r['inconclusive'][:5])
for v in r['violations'][:8]: print('SIG',v['signature']); print('   ',v['detail'][:1800])
for s in r['samples'][:3]: print('SAMPLE',json.dumps(s)[:600])
for n in r['notes'][:2]: print('NOTE',n[:3000])
"

#!/bin/bash
# usage: tools/seed_intake.sh <PID> <out-root (e.g. /tmp/seed3-out)> <worktree>
# Stage the seeded changes a sub-agent left in <out-root>/<PID>/<k>/ as /verif/seeded/<PID>-<n>/, confirm each
# independently (confirm_seed.sh) and run the property's check against it in a scratch copy (seedtest_scratch.sh).
set -u
PID=$1; OUT=$2; WT=$3
cd "$(dirname "$0")/.."
for src in "$OUT/$PID"/*/; do
  [ -f "$src/patch.diff" ] || continue
  k=$(basename "$src")
  # already staged?
  if grep -qs "\"staged_from\": \"$OUT/$PID/$k\"" seeded/$PID-*/meta.json 2>/dev/null; then continue; fi
  n=$(ls -d seeded/$PID-* 2>/dev/null | sed "s#seeded/$PID-##" | sort -n | tail -1); n=$(( ${n:-0} + 1 ))
  D=seeded/$PID-$n; mkdir -p $D
  cp "$src"/patch.diff "$src"/README.md "$src"/*.rs $D/
  python3 - "$src/meta.json" "$D/meta.json" "$OUT/$PID/$k" "${ROUND:-5}" <<'PY'
import json,sys
m=json.load(open(sys.argv[1])); m["staged_from"]=sys.argv[3]; m["round"]=int(sys.argv[4]) if len(sys.argv)>4 else 5
json.dump(m,open(sys.argv[2],"w"),indent=2)
PY
  sed -i "s#$OUT/$PID/$k/#/verif/$D/#g; s#$OUT/$PID/$k#/verif/$D#g" $D/README.md
  tools/confirm_seed.sh /verif/$D "$WT" 2>&1 | tail -1 | tee $D/confirm.txt
  if grep -q "=> CONFIRMED" $D/confirm.txt; then
    tools/seedtest_scratch.sh $D "$WT" quick
  fi
done

"""Per-property step tables for ./check.

A step: layer (see LAYERS in check), monitor (zv sub-command), shards_quick / shards_thorough,
optional budget_quick / budget_thorough (passed as --budget: total sampled cases over all shards),
optional tier ("quick" | "thorough" | "both").
"""

SETUP_EXTRA = []

PROPS = {}

PROPS["C01"] = dict(
    level="exploration",
    rule=("cases are (frame sequence, target type per frame, partition of the byte stream into read "
          "chunks); frames come from a seeded generator (valid / whitespace-padded / wrong-shape / "
          "malformed / growth-step-sized), partitions are exhaustive for tiny streams, all single and "
          "pair cuts for streams <= 160 bytes, structured (per NUL, fixed sizes around 256) and random "
          "otherwise; a case is distinct by the hash of (stream bytes, targets, cut positions); every "
          "case has >= 1 frame and ends with a close, so none is trivial"
          " ; plus a real-socket layer (tokio current-thread / multi-thread and smol transports over real Unix sockets, DESIGN 2.4): a blocking peer writes 1..24 good / malformed frames (up to 600 KB) in pieces and closes or only shuts down its sending side, the reader starting before or (forced by joining the writer) after the close"),
    oracle=("receive j == serde_json::from_slice::<T_j>(frame j) (decoded value or error), receive n+1 "
            "== end-of-stream; no extra/missing/reordered results; no panic"
            "; real sockets: one receive result per frame as in the reference, then end-of-stream, never earlier"),
    assumptions=["serde_json::from_slice on the NUL-delimited frame is the reference decoder",
                 "reply frames whose error member nobody recognises are excluded here (C04 decides them)"],
    floor_quick=50_000, floor_thorough=1_000_000,
    steps=[
        dict(layer="native", monitor="c01", shards_quick=4, shards_thorough=16),
        dict(layer="miri", monitor="c01", shards_quick=8, shards_thorough=16, budget_quick=64,
             budget_thorough=1600),
        dict(layer="asan", monitor="c01", shards_thorough=8, budget_thorough=200_000, tier="thorough"),
        # the same question through the tokio / smol transports over real Unix sockets: a peer writes its frames
        # and closes (or shuts down its sending side); the reader starts before or after the close
        dict(layer="native", package="rt", monitor="c01", tag="real", shards_quick=8, shards_thorough=16,
             budget_quick=20_000, budget_thorough=600_000),
    ],
)


PROPS["C02"] = dict(
    level="exploration",
    rule=("cases are histories of 1..40 enqueue_call / send_call / send_reply / send_error / flush operations "
          "on one connection with a write half that records every write call; message values come from a "
          "generator issuing every serde data-model call, some poisoned (non-string map key, Serialize impl "
          "that fails); sizes are steered with the write-position hook so that every free-space value "
          "0..=600 is met at a message start; a history is distinct by the hash of its (operation, size) "
          "sequence; every history contains at least one message"
          " ; 'big' histories with tens of KiB up to 1 MiB pending at flush time; plus a real-socket layer (tokio current-thread / multi-thread and smol transports over real Unix sockets, DESIGN 2.4): histories with messages of 70..520 KB and pipelines of hundreds of calls towards a raw peer that starts reading 0..30 ms late"),
    oracle=("model = list of serde_json::to_vec(msg)+NUL for accepted messages: each flush/send issues exactly one "
            "write equal to the concatenation of the pending list; empty flush writes nothing; acceptance agrees "
            "with serde_json; refused messages leave no bytes; total stream == concatenation of accepted messages"
            "; real sockets: the bytes the raw peer read == the concatenation of the accepted messages"),
    assumptions=["serde_json::to_vec is the reference encoding", "transport write errors are out of scope here (C09)"],
    floor_quick=50_000, floor_thorough=1_000_000,
    steps=[
        dict(layer="native", monitor="c02", shards_quick=4, shards_thorough=16, budget_quick=48_000, budget_thorough=6_000_000),
        dict(layer="miri", monitor="c02", shards_quick=8, shards_thorough=16, budget_quick=32, budget_thorough=960),
        dict(layer="asan", monitor="c02", shards_thorough=8, budget_thorough=400_000, tier="thorough"),
        # through the tokio / smol transports over real Unix sockets: what a raw peer reads from the kernel (messages
        # and pipelines larger than the socket buffer, peer starts reading late) == the accepted messages
        dict(layer="native", package="rt", monitor="c02", tag="real", shards_quick=8, shards_thorough=16,
             budget_quick=1600, budget_thorough=40_000, timeout_quick=900),
    ],
)

PROPS["C03"] = dict(
    level="exploration",
    rule=("exhaustive sub-domains (every Unicode scalar as 1-char string, char, string key and char key; all pairs of 48 "
          "escape-relevant code points; all i8/u8/i16/u16 as values and keys; thorough: all 2^32 f32 bit patterns) "
          "plus integer boundary sets, random f64/f32 and random nested trees issuing every serde data-model call, "
          "encoded through the cfg(zlink_verif) to_slice hook at exact, short and all buffer lengths 0..=len+2 and "
          "through send_error/send_reply behind fillers that vary the free space; distinct = distinct random "
          "trees (hash of Debug) + members of the exhaustive domains"
          " ; plus a real-socket layer (tokio current-thread / multi-thread and smol transports over real Unix sockets, DESIGN 2.4): values from the same model inside messages of up to 520 KB and long pipelines, read by a raw peer that starts late (partial kernel writes)"),
    oracle=("success => bytes == serde_json::to_vec, valid UTF-8, no byte < 0x20; buffer shorter than the encoding => "
            "BufferTooSmall, never Ok; canary bytes after the slice untouched; zlink refusing is legitimate only if "
            "serde_json refuses too or the value has a map key that is not string/char/integer/unit-variant; a "
            "refused value leaves no bytes on the wire"
            "; real sockets: the bytes the raw peer read == serde_json's encodings + NUL of the accepted messages, in order"),
    assumptions=["serde_json::to_vec is the reference encoder"],
    floor_quick=2_000_000, floor_thorough=100_000_000,
    exhaustive_possible=False,
    steps=[
        dict(layer="native", monitor="c03", shards_quick=8, shards_thorough=16),
        dict(layer="miri", monitor="c03", shards_quick=8, shards_thorough=16),
        # the bytes a raw peer reads from a real Unix socket (tokio / smol transports, partial kernel writes)
        dict(layer="native", package="rt", monitor="c03", tag="real", shards_quick=8, shards_thorough=16,
             budget_quick=1600, budget_thorough=40_000, timeout_quick=900),
    ],
)

PROPS["C04"] = dict(
    level="exploration",
    rule=("the full matrix is enumerated, not sampled: ~500 reply frames (success +-parameters +-continues; declared "
          "errors with right/wrong/missing/extra parameters; undeclared names; every org.varlink.service error with "
          "right and wrong parameters; non-string error members; all member orders; an unknown extra member) x 8 "
          "(parameter type, error type) pairs x {receive_reply, call_method, generated proxy method} x 6 connection "
          "histories (fresh; after one / two continuing replies of a stream; after an error reply; after a plain reply; "
          "after a final reply) x 8 frame sizes (as is, and padded with insignificant white space to 257 ... 70000 bytes "
          "incl. 4095/4096/4097); distinct = (frame, types, path, history, size)"
          " ; every frame with an error member also with continues:true / continues:false"),
    oracle=("from the frame as a serde_json::Value: no error member => success iff parameters decode as P; error names a "
            "standard service error that decodes => Err(VarlinkService(e)); else decodes directly as E => Ok(Err(e)); "
            "else anything but Ok(Ok(_)); `error: null` is not judged"),
    assumptions=["direct serde_json decoding with the caller's own types defines 'recognised'"],
    floor_quick=100_000, floor_thorough=100_000,
    exhaustive_possible=True,
    steps=[
        dict(layer="native", monitor="c04", shards_quick=8, shards_thorough=8),
        dict(layer="miri", monitor="c04", shards_quick=2, shards_thorough=8, tier="thorough"),
    ],
)

PROPS["C07"] = dict(
    level="exploration",
    rule=("cases are (frame sequence as in C01, chunking, number of Pending read events before each chunk, subset of "
          "suspension points at which the receive future is dropped and re-created); exhaustive over all 2^12 "
          "(thorough 2^14) subsets for streams with that many suspension points, every-k-th for every k, all, and "
          "random subsets beyond; also call_method abandoned in its receive phase; only cases with >= 1 "
          "cancellation count as distinct non-trivial"
          " ; mixed consumers: the replies of a peer are taken off one connection by a random sequence of receive_reply / call_method / chains (stream polled with next()), each of which may be abandoned at any suspension point, after which the next operation of whatever kind carries on; plus a real-socket layer (tokio current-thread / multi-thread and smol transports over real Unix sockets, DESIGN 2.4): a writer thread dribbles 6..20 messages (0 B..70 KB) into the socket in pieces while every receive is wrapped in a 0..3 ms timer and started again when it fires"),
    oracle="sequence of results == C01 reference sequence (serde_json on NUL-split frames, then end-of-stream)",
    assumptions=["the scripted read half is itself cancel-safe (returns Pending without consuming data)"],
    floor_quick=50_000, floor_thorough=1_000_000,
    steps=[
        dict(layer="native", monitor="c07", shards_quick=4, shards_thorough=16),
        dict(layer="miri", monitor="c07", shards_quick=8, shards_thorough=16, budget_quick=16, budget_thorough=64),
        # tokio / smol transports over real Unix sockets: a plain writer thread dribbles the messages into the socket in
        # pieces while every receive is wrapped in a 0..3 ms timer and started again when it fires
        dict(layer="native", package="rt", monitor="c07", tag="real", shards_quick=8, shards_thorough=16,
             budget_quick=8000, budget_thorough=200_000, timeout_quick=900),
    ],
)

PROPS["C17"] = dict(
    level="exploration",
    rule=("inbound: wire sizes (frame + NUL, or unterminated) delivered under several chunkings; outbound: (write "
          "position, message length) pairs; production-limit build: 100 MiB+2 steps unterminated, 100 MiB-2 accepted, "
          "growth-step boundaries; lowered-limit build (cfg zlink_verif_small_buf, 64 KiB): every wire size up to "
          "limit+2*step+2 and every end position near each multiple of 256 and in the last 2 KiB before the limit; "
          "distinct = (size, chunking) / (pos, len)"
          " ; the message under test is a padded string, a message with a tail of other value kinds, or mostly a byte array (serialize_bytes), submitted with enqueue_call or (a third of the cases) with send_call behind the queued bytes"),
    oracle=("wire size < limit => accepted with intact content; >= limit+step => BufferOverflow (never a hang, other error "
            "or acceptance); in between either; outbound refusal writes nothing, earlier messages are flushed intact, "
            "the connection stays usable; hook: buffer length never exceeds limit+step; peak heap stays within 3x limit"
            " a refused message makes no write call at all; an accepted send_call issues exactly one write"),
    assumptions=["the lowered limit exercises the same comparison sites as the production constant (compile-time cfg)"],
    floor_quick=20_000, floor_thorough=100_000,
    steps=[
        dict(layer="native", monitor="c17", shards_quick=4, shards_thorough=8),
        dict(layer="small", monitor="c17", shards_quick=12, shards_thorough=16),
        dict(layer="miri-small", monitor="c17", shards_quick=6, shards_thorough=6, package="zv", extra=None, tier="thorough"),
    ],
)


PROPS["C06"] = dict(
    level="exploration",
    rule=("all 1092 flag words over {plain, oneway, more} of length 1..6, each with several conforming reply scripts "
          "(all-success with the maximum number of continuing replies, all-error, seeded random: success / declared "
          "error / k=0..3 continuing replies then final success or error), 0..2 trailing frames of a later exchange "
          "(in the same burst or delivered after the stream ended) and chunkings of the reply bytes (whole, one frame "
          "per read, random cuts, one byte per read); every reply carries a unique tag; distinct = hash of (word, "
          "script, trailing, cuts, delivery mode)"
          " ; long runs (100..1030 replies owed to one chain, buffered at once / a few big chunks / one frame per read); big chains (calls of 9..140 KB each); the later exchange consumed by a second chain instead of single receives; plus a real-socket layer (tokio current-thread / multi-thread and smol transports over real Unix sockets, DESIGN 2.4): a scripted blocking peer reads the chain's calls and writes the owed replies (up to 140 per more-call) and the later frames in pieces"),
    oracle=("exactly one write holding all calls in chain order, byte-equal to serde_json's encodings; items yielded == owed "
            "replies in order, then None, without a transport poll beyond the last owed reply (the executor sees a stall "
            "if the stream waits); a chain owing nothing makes zero read polls; afterwards plain receive_reply returns the "
            "trailing frames intact and in order"
            "; real sockets: calls byte-equal at the peer, items == owed, later frames intact"),
    assumptions=["chunks never end inside a trailing frame (that would only delay, see DESIGN C06 false-alarm guard)"],
    floor_quick=10_000, floor_thorough=100_000,
    exhaustive_possible=False,
    steps=[
        dict(layer="native", monitor="c06", shards_quick=4, shards_thorough=16),
        dict(layer="miri", monitor="c06", shards_quick=8, shards_thorough=16),
        dict(layer="asan", monitor="c06", shards_thorough=8, tier="thorough"),
        # tokio / smol transports over real Unix sockets: the peer is a blocking stream on its own thread that reads the
        # calls and writes the scripted replies in pieces (or all of them before the first item is asked for)
        dict(layer="native", package="rt", monitor="c06", tag="real", shards_quick=8, shards_thorough=16,
             budget_quick=16_000, budget_thorough=400_000, timeout_quick=900),
    ],
)

PROPS["C11"] = dict(
    level="exploration",
    rule=("reply sequences of 2..6 replies (success / error / continuing; text lengths 6..2000 so that some force buffer "
          "growth and reallocation) obtained through a chain or a proxy #[zlink(more)] stream while EVERY earlier item is "
          "kept alive; group 'same': the buffer is pre-grown so the whole burst arrives in one read; group 'separate': "
          "later replies arrive in later reads; group 'available': the whole burst is queued in the transport before the first "
          "item is requested but the receive buffer is fresh, so zlink takes it in buffer-sized pieces (frame ends never on a "
          "256-byte boundary except the last); every third case contains a reply that surfaces as a connection-level failure; "
          "the native layer runs with a hostile allocator (every realloc moves, freed blocks are overwritten with 0xDD); after "
          "each next(), after a failure and after the end of the stream every held item is re-read and compared with an owned "
          "copy; cases are classified by what was observed (did the transport deliver bytes while items were held), not "
          "by intention; distinct = hash of (sizes, kinds, delivery, seed)"
          " ; in half of the same-read cases stray terminators (empty frames) sit inside the burst and / or a frame of a later exchange waits in the transport behind it (damage is then reported under the same-read signature whether or not a read happened); every seventh case has replies with a byte that is not valid UTF-8"),
    oracle=("native: held text == copy taken when yielded; ASan: no heap-use-after-free report; Miri: no Stacked-Borrows / "
            "use-after-free report. Same-read and available-burst delivery must be clean under all three; separate-read "
            "delivery is the recorded known finding"),
    assumptions=["Miri's Stacked Borrows model is the aliasing model", "a sanitizer report is attributed by its first frame under /repo"],
    floor_quick=4_000, floor_thorough=100_000,
    steps=[
        dict(layer="native", monitor="c11", tag="same", extra=["--group", "same"], shards_quick=2, shards_thorough=8),
        dict(layer="native", monitor="c11", tag="available", extra=["--group", "available"], shards_quick=2, shards_thorough=8),
        dict(layer="miri", monitor="c11", tag="available", extra=["--group", "available"], shards_quick=4, shards_thorough=16),
        dict(layer="asan", monitor="c11", tag="available", extra=["--group", "available"], shards_quick=2, shards_thorough=8),
        dict(layer="native", monitor="c11", tag="separate", extra=["--group", "separate"], shards_quick=2, shards_thorough=8),
        dict(layer="miri", monitor="c11", tag="same", extra=["--group", "same"], shards_quick=6, shards_thorough=16),
        dict(layer="miri", monitor="c11", tag="separate", extra=["--group", "separate"], shards_quick=1, shards_thorough=2, expect_dies=True),
        dict(layer="asan", monitor="c11", tag="same", extra=["--group", "same"], shards_quick=2, shards_thorough=8),
        dict(layer="asan", monitor="c11", tag="separate", extra=["--group", "separate"], shards_quick=1, shards_thorough=4, expect_dies=True),
    ],
)



WAKE_NOTE = ("about a third of the sampled scenarios (half of the exhaustive configurations) run wake-driven: after its first poll "
             "Server::run is polled again only when the waker it was given has fired, and a registration counts only if made during "
             "the most recent poll; every poll in every mode is checked against the wake-up contract (Pending => waker fired or registered)")

SRV_ASSUME = ["the scripted transport and listener are the only sources of readiness (deterministic poll-by-poll executor)",
              "the test service answers as a pure function of the call; histories are recorded at the boundary (socket bytes, service log)"]

PROPS["C08"] = dict(
    level="exploration",
    rule=("cases are (1..4 scripted client connections x 0..5 calls each: plain / oneway / error-producing / more-flagged, "
          "payloads 0..900 bytes; byte streams cut at frame boundaries or arbitrary byte positions; optional EOF) x an order of "
          "the events {connection released to the listener, next chunk delivered, EOF}; ALL orders for small configurations "
          "(<= 2000 interleavings), seeded random orders beyond, where events may also be batched (several sockets become "
          "readable between two polls) or arrive from inside Service::handle (while the server is busy with another call); "
          "Server::run is polled to quiescence after every step; distinct = hash of (scripts, cuts, step list)"
          " ; plus a real-socket layer (tokio current-thread / multi-thread and smol transports over real Unix sockets, DESIGN 2.4): real Server::run; 1..4 blocking clients pipeline 1..10 calls (some oneway / failing) whose answers are up to 420 KB, optionally shut down their sending side, and only then start reading; a sentinel call closes every script"),
    oracle=("per connection, from a sequential reference of the service: output split at NUL == the answer of every non-oneway "
            "call in call order (as JSON values; continues:false == absent) and nothing for oneway calls; every write is one "
            "document + one NUL; at every quiescent point the output is a prefix of that and complete whenever the bytes sent so "
            "far end on a frame boundary; no frame of another client; the service saw each call exactly once in order; the server "
            "future is still pending; no panic"
            "; real sockets: per client the frames == the reference answers in order, nothing behind the sentinel's answer; the service log shows each call once, in order; the server future does not complete or panic"),
    assumptions=SRV_ASSUME + [WAKE_NOTE],
    floor_quick=20_000, floor_thorough=1_000_000,
    steps=[
        dict(layer="native", monitor="c08", shards_quick=4, shards_thorough=16),
        dict(layer="miri", monitor="c08", shards_quick=8, shards_thorough=16, budget_quick=16, budget_thorough=128),
        dict(layer="asan", monitor="c08", shards_thorough=8, tier="thorough"),
        # real runtimes and sockets: clients pipeline bursts whose answers exceed the socket buffer and read late
        dict(layer="native", package="rt", monitor="c08", tag="real", shards_quick=8, shards_thorough=16,
             budget_quick=1600, budget_thorough=48_000, timeout_quick=900),
    ],
)

PROPS["C09"] = dict(
    level="fault_enumeration",
    rule=("fault kinds {garbage bytes, malformed frame, wrong parameter types, unknown method, escaped string for a borrowed "
          "field, invalid UTF-8 in an ignored member, non-object document, truncated frame then EOF, EOF mid-burst, read error, "
          "write error on the k-th write, fault while the connection is in streaming mode, write error on a stream item, "
          "stray terminators (empty frames), oversized frame (lowered-limit build)} x position 0..2 in the faulty client's script x 1..3 healthy clients (plain, "
          "oneway, error and streaming calls) x event orders (all orders when <= 300, else sampled with batched / in-handle "
          "arrivals); plus two churn histories (26000 / 6000 faulty clients of six kinds one after the other, thorough 120000, with a "
          "resident healthy client calling throughout and a newcomer at the end); distinct = hash of (scripts, cuts, fault placement, step list)"
          " ; plus a real-socket layer (tokio current-thread / multi-thread and smol transports over real Unix sockets, DESIGN 2.4): real server whose service hands out notified::State streams; 2..5 subscribers of which one or two vanish (close / half a frame then close / garbage then close / close with unread data); the state is then set 2..5 more times"),
    oracle=("relational: run A = full schedule, run B = same schedule with every event of the faulty client deleted; for every "
            "healthy client output_A == output_B byte for byte, the service saw the same healthy calls, a healthy connection is "
            "not closed, Server::run is still pending, nothing panics; additionally the healthy clients match the sequential "
            "reference model of C08/C10"
            "; real sockets: every healthy subscriber's values increase and end with the last value set, control client and a newcomer are answered (a value that never arrives is a violation only if 11 s later the server answers a fresh client at once and nothing waits in the subscriber's socket; otherwise inconclusive)"),
    assumptions=SRV_ASSUME + [WAKE_NOTE, "accept() errors are not in the property's fault list and are not injected"],
    floor_quick=10_000, floor_thorough=500_000,
    steps=[
        dict(layer="native", monitor="c09", shards_quick=4, shards_thorough=16),
        dict(layer="small", monitor="c09", shards_quick=3, shards_thorough=6),
        dict(layer="miri", monitor="c09", shards_quick=13, shards_thorough=13),
        dict(layer="asan", monitor="c09", shards_thorough=8, tier="thorough"),
        # real runtimes and sockets: subscribers of a notified state, some of which vanish
        dict(layer="native", package="rt", monitor="c09", tag="real", shards_quick=8, shards_thorough=16,
             budget_quick=16_000, budget_thorough=400_000, timeout_quick=900),
    ],
)

PROPS["C10"] = dict(
    level="exploration",
    rule=("cases are 1..3 connections with scripts mixing streaming calls (service-side stream controlled by the harness: 0..4 "
          "items with arbitrary continues flags, ending or never ending, items possibly produced before the call is handled) "
          "with plain / error / oneway calls pipelined before and behind them, delivered in whole-frame chunks; optional write "
          "failure at a stream item; x an order of the events {accept, deliver chunk, stream produces item, stream ends}; ALL "
          "orders for small configurations, seeded random (with batched and in-handle events) beyond; distinct = hash of "
          "(scripts, cuts, step list)"
          " ; streams under a sustained flood: one connection pipelines 150..400 calls while two or three subscribers (each with a call pipelined behind the subscription) have open streams, some of which produce items or end from inside successive handle() calls while others stay quiet; plus a real-socket layer (tokio current-thread / multi-thread and smol transports over real Unix sockets, DESIGN 2.4): real server; workers pipeline [Echo?, Job(more), Echo...], Job is answered through a notified::Once stream that a control client finishes later in random order; watchers of a notified::State"),
    oracle=("per-connection sequential model evaluated at EVERY quiescent point: a streaming call's items appear in production "
            "order with the flags the service set; nothing pipelined behind it is answered before the stream ends; afterwards the "
            "calls behind it are answered in order, none lost or duplicated (bytes + service log); every complete call of a "
            "connection not parked behind an open stream is answered (other clients are served while a stream is open); no "
            "produced item stays undelivered; an open subscription of a writable client is never dropped; after a failed write "
            "no further write is attempted and the client is dropped"
            "; bounded progress under load: an item that exists at tick t is on the wire after at most 3*((a+1)*(S+1)+N*(T+1))+6 further handle() invocations (a earlier unwritten items of the stream, S streams, N connections, T transitions); real sockets: the service has not seen a call behind an open stream (from its log), each worker's frames == reference in order, watchers converge"),
    assumptions=SRV_ASSUME + [WAKE_NOTE],
    floor_quick=20_000, floor_thorough=1_000_000,
    steps=[
        dict(layer="native", monitor="c10", shards_quick=4, shards_thorough=16),
        dict(layer="miri", monitor="c10", shards_quick=8, shards_thorough=16, budget_quick=16, budget_thorough=128),
        dict(layer="asan", monitor="c10", shards_thorough=8, tier="thorough"),
        # real runtimes and sockets: one-shot streams that end (the connection resumes), state subscriptions
        dict(layer="native", package="rt", monitor="c10", tag="real", shards_quick=8, shards_thorough=16,
             budget_quick=2400, budget_thorough=60_000, timeout_quick=900),
    ],
)

PROPS["C18"] = dict(
    level="exploration",
    rule=("2..5 connections; flooders deliver bursts of 4..10 complete calls, the others single calls; optional closures (EOF), "
          "late accepts and streaming calls (transitions); events are applied at quiescent points, batched, or from inside "
          "Service::handle (arrivals while the server is busy - this is what creates contention); ALL orders for small "
          "configurations under two arrival patterns, seeded random beyond; every (call, waiting window) pair is one oracle "
          "evaluation target; distinct = hash of (scripts, step list); distinct service orders are counted separately; plus, on "
          "real sockets and runtimes: 1..2 flooders write bursts of 3..9 calls in one write, the service holds the first of them "
          "inside handle() while 1..3 victims write their call (the blocking write has returned), then lets go"
          " ; big calls (16..100 KB, hundreds of reads each) of the clients that do not flood; streams under a sustained flood (as C10) with the bounded-delay oracle for stream items"),
    oracle=("logical clock ticks on every event and every handle(); ready(call) = latest of (its bytes entered the transport, "
            "previous call of the connection served, connection accepted, stream in front of it ended); (a) in a window "
            "(ready, served) without accept/closure/stream transition no other connection is served twice; (b) in general at "
            "most N*(T+1) other calls are served in the window; (c) at every quiescent point no ready call is unserved; real sockets: "
            "among the calls the service logs after the held call and before a victim's call, no connection appears twice"),
    assumptions=SRV_ASSUME + [WAKE_NOTE, "a transition is attributed to a window conservatively: from the tick its event is applied until the next quiescent point"],
    floor_quick=20_000, floor_thorough=1_000_000,
    steps=[
        dict(layer="native", monitor="c18", shards_quick=4, shards_thorough=16),
        # the same question on real runtimes and real Unix sockets (tokio current-thread / multi-thread, smol):
        # the order of events is forced with a gate inside the service, the verdict is read from the service log
        dict(layer="native", package="rt", monitor="c18", tag="real", shards_quick=4, shards_thorough=8),
    ],
)



PROPS["C20"] = dict(
    level="exploration",
    rule=("operation sequences over {set next value (through either handle of the state), subscribe, poll subscriber i once, "
          "clone the state, drop a state handle, drop a subscriber}, executed on zlink-tokio AND zlink-smol with the harness' "
          "poll-by-poll executor; ALL sequences up to length 9 (thorough 11) over {set, subscribe, poll0, poll1, drop} with <= 4 "
          "sets and <= 2 subscribers that end in a poll, plus seeded random sequences (<= 6 sets, 3 subscribers, clones); Once: "
          "all sequences over {poll, notify, drop notifier} up to length 7; distinct = hash of the sequence"
          " ; every sequence is additionally run with values that repeat under a per-sequence pattern (alternating / constant / pairs): the state holds {v, seq} whose equality looks at v only"),
    oracle=("every sequence is executed poll-by-poll and wake-driven (a subscriber that answered Pending is polled again only after its "
            "waker fired; an unwoken subscriber must have seen the latest value); per subscriber: values strictly increasing, all set after it subscribed, each item continues==true; a poll is Pending "
            "only if the subscriber has already yielded the latest value set since it subscribed; the stream ends only after "
            "every handle of the state is gone and never before the most recent value was delivered; set/get never panic. Once: "
            "exactly one item with continues==false then end; dropped notifier => end without item; Pending only before. The "
            "same oracle is applied to both crates; trace equality between them is counted"
            "; with repeating values identity and order are checked by the set ordinal, convergence by value (what the subscriber saw last, or what the state held when it subscribed, == what was set last)"),
    assumptions=["State / Once need no reactor: a no-op waker executor observes every poll result"],
    floor_quick=100_000, floor_thorough=2_000_000,
    steps=[
        dict(layer="native", package="rt", monitor="c20", shards_quick=4, shards_thorough=16),
        dict(layer="miri", package="rt", monitor="c20", shards_quick=8, shards_thorough=16, budget_quick=160, budget_thorough=1600),
        # real threads: one setter, 1..4 subscribers with wakers that unpark their thread; state-based verdicts
        # (a poll answers Pending although a newer value had been set before it began; parked without a wake-up
        # although a newer value was set / the state went away), see harness/rt/src/c20t.rs
        dict(layer="native", package="rt", monitor="c20t", tag="threads", shards_quick=8, shards_thorough=16),
        dict(layer="tsan", package="rt", monitor="c20t", shards_thorough=4, tier="thorough", tag="tsan-threads", budget_thorough=40_000, timeout_thorough=3600),
    ],
)
SETUP_EXTRA += [("native", "rt"), ("miri", "rt")]


PROPS["C13"] = dict(
    level="exploration",
    rule=("positive texts: interface trees from a grammar-driven generator (0..6 members, type depth 0..4, every legal character "
          "class in interface / type / field names, comments before the interface, members, fields, parameters and variants) "
          "rendered canonically and with random legal layout (spaces, tabs, newlines between any two tokens; comments on their "
          "own lines), plus trees with comments inside inline types (acceptance and structure only); negative texts: EVERY "
          "truncation of every generated text up to 700 bytes, token deletion / duplication / swap / replacement / insertion, "
          "illegal and non-ASCII characters inserted at random positions, token soup, and a fixed list of near-misses; distinct "
          "= hash of the text"),
    oracle=("positive: Interface::try_from is Ok and the tree read back through the accessors (names, types, order within each "
            "member kind, comments) equals the generating tree; any text: no panic, terminates (watchdog thread), and if "
            "accepted then (i) an independent tokenizer + recursive-descent recogniser written from the published grammar "
            "accepts it too and (ii) the token sequence of the input equals the token sequence of the accepted tree as rendered "
            "by the harness (nothing was ignored)"),
    assumptions=["the recogniser judges tokens and structure only; layout questions the grammar leaves open (comments between arbitrary tokens, two members on a line, Unicode white space) are never grounds for an alarm"],
    floor_quick=200_000, floor_thorough=5_000_000,
    steps=[
        dict(layer="native", monitor="c13", shards_quick=8, shards_thorough=16),
        dict(layer="miri", monitor="c13", shards_quick=8, shards_thorough=16, budget_quick=16, budget_thorough=160),
    ],
)

PROPS["C14"] = dict(
    level="exploration",
    rule=("descriptions built through the public constructors from generated trees (every type constructor, empty and non-empty "
          "member lists, comments at interface / member / direct field / parameter / variant level; comment text single-line "
          "and trimmed) in owned form, in borrowed &'static form, and as produced by the parser from a randomly laid out text; "
          "every 5th also travels through a GetInterfaceDescription exchange over the virtual transport; plus the library's "
          "own derive-built org.varlink.service description; distinct = hash of (form, tree)"),
    oracle=("parse(render(x)) read back through the accessors equals x including comments; render(parse(render(x))) == "
            "render(x); the library's PartialEq agrees; owned and borrowed forms of the same tree are equal; end to end: what "
            "the client's get_interface_description(..).parse() yields equals what the service described"),
    assumptions=["comment text is single-line and trimmed (no `# text` syntax can represent anything else)"],
    floor_quick=20_000, floor_thorough=1_000_000,
    steps=[
        dict(layer="native", monitor="c14", shards_quick=4, shards_thorough=16),
        dict(layer="miri", monitor="c14", shards_quick=8, shards_thorough=16, budget_quick=64, budget_thorough=640),
    ],
)


PROPS["C19"] = dict(
    level="exploration",
    rule=("real Unix sockets and real runtimes (tokio current-thread, tokio multi-thread, smol): connected pairs made by "
          "socketpair, bind+connect and Listener::try_from(OwnedFd); 1/2/4/8 concurrent connections, each exchanging 3..16 "
          "(thorough 40) messages per direction AT THE SAME TIME (sizes 0 B..1 MiB incl. 254..257 and 510..513 and sizes above "
          "the kernel socket buffer; every third message pipelined with enqueue), writer and reader paced independently; "
          "abandoned sends: peer not reading, a 600 KB send dropped by a timer after a partial write, more sends, then the "
          "peer drains - observed once as raw bytes and once through a zlink connection; strict call / answer alternation "
          "(the sender waits for the answer before sending anything else) for frames of exactly 256*k-1, 256*k, 256*k+1 bytes "
          "and random sizes; abandoned receives: a plain writer thread dribbles 6..20 messages (0 B..70 KB) into the socket in "
          "pieces of 1 B..40 KB while every receive_call is wrapped in a 0..3 ms timer and started again when it fires; "
          "connection ids collected from 8 threads x both transports; a case = one such scenario (seeded); distinct = hash "
          "of its description"),
    oracle=("transfer: the receiver regenerates every message body from (direction, id) - received sequence == sent sequence, "
            "byte for byte, then end-of-stream after the peer closes; ids pairwise distinct; abandoned sends: every frame at "
            "the peer is byte-identical to one submitted message, each at most once, in submission order, and every send that "
            "returned Ok is present; alternation: every frame is delivered intact (a stuck receive is a violation only if the "
            "send returned Ok and the receiver's socket has no unread bytes left - FIONREAD on a duplicate descriptor - i.e. the "
            "frame was taken off the socket and not delivered); abandoned receives: the messages arrive complete, intact and in "
            "order. Time only drives the workload; verdicts come from the recorded history; watchdog firings are inconclusive"),
    assumptions=["kernel socket buffer < 600 KB so that the big send blocks while the peer does not read"],
    floor_quick=100, floor_thorough=1000,
    steps=[
        dict(layer="native", package="rt", monitor="c19", shards_quick=8, shards_thorough=16, timeout_quick=900),
        dict(layer="asan", package="rt", monitor="c19", shards_thorough=8, tier="thorough"),
        # auxiliary: reports are filtered to racing accesses located in /repo sources (tokio's epoll-based
        # synchronisation is invisible to TSan and shows up as reports inside its I/O driver)
        dict(layer="tsan", package="rt", monitor="c19", shards_thorough=4, tier="thorough", extra=["--part", "transfer"], tag="tsan-transfer", timeout_thorough=3600),
        dict(layer="tsan", package="rt", monitor="c19", shards_thorough=1, tier="thorough", extra=["--part", "ids"], tag="tsan-ids", timeout_thorough=3600),
    ],
)
SETUP_EXTRA += [("asan", "rt")]


# ---- program corpora (C05 part c, C12, C16): generated by tools/gen_corpus.py, compiled against /repo ----------

def prepare_corpus(chk, pid, tier, seed, outdir):
    """Generate the corpus (fixed seed for the quick tier, VERIF_SEED for thorough), then build it in two
    steps: generated items alone, then items + drivers. A failure of step 1 means that code produced by
    zlink's macros for a declaration of the corpus does not compile (violation); a failure of step 2 only
    means that the harness' drivers do not fit this tree (inconclusive)."""
    import hashlib, json, os, re, subprocess, time
    feat = pid.lower()
    size = "quick" if tier == "quick" else "thorough"
    cseed = 1 if tier == "quick" else seed
    gen_dir = os.path.join(chk.HARNESS, "corpus", "src", "gen")
    script = os.path.join(chk.VERIF, "tools", "gen_corpus.py")
    stamp = hashlib.sha1(open(script, "rb").read()).hexdigest()[:12] + f"-{cseed}-{size}"
    stamp_file = os.path.join(gen_dir, ".stamp")
    if not (os.path.exists(stamp_file) and open(stamp_file).read() == stamp):
        subprocess.run(["python3", script, str(cseed), size, gen_dir], check=True, stdout=subprocess.DEVNULL)
        open(stamp_file, "w").write(stamp)
    results, inconclusive = [], []
    tsuffix = "-" + feat
    ok, out = chk.build("native", "corpus", feat + ",drivers", tsuffix)   # items + drivers
    if ok:
        return dict(results=results, inconclusive=inconclusive)
    ok1, out1 = chk.build("native", "corpus", feat, tsuffix)             # items only
    if not ok1:
        mine = {"c12": r"gen/p\d+\.rs", "c05": r"gen/e\d+\.rs", "c16": r"gen/t\w+\.rs"}[feat]
        files = sorted(set(re.findall(mine, out1)))
        if files:
            rep = dict(property=pid, monitor=feat, evaluations=1, distinct=1, distinct_hashes=["0" * 16], samples=[],
                       violations=[dict(signature=f"{pid}/code-generated-for-a-corpus-declaration-does-not-compile",
                                        detail="items-only build of the corpus failed in " + ", ".join(files) + "\n" + out1[-3000:],
                                        replay=dict(monitor=feat, note="cargo build -p corpus --no-default-features --features " + feat))],
                       violation_counts={f"{pid}/code-generated-for-a-corpus-declaration-does-not-compile": 1},
                       counters={}, inconclusive=[], exhaustive=False, notes=[])
            results.append(dict(layer="native", monitor=feat, shard=0, rc=0, wall=0.0, output_tail="", report=rep))
        else:
            inconclusive.append("corpus does not build and the errors are not in generated items: " + out1[-600:])
    else:
        inconclusive.append("the generated items compile but the harness' drivers do not fit this tree: " + out[-800:])
    return dict(results=results, inconclusive=inconclusive)


CORPUS_ASSUME = ["the quick corpus is generated from a fixed seed (values are random per run); the thorough corpus is regenerated from VERIF_SEED",
                 "a corpus item that does not compile is attributed to zlink only when the items-only build fails inside a generated item"]

PROPS["C12"] = dict(
    level="exploration", pre="prepare_corpus",
    rule=("a generated corpus of proxy traits (quick 14 traits / ~55 methods, thorough 60): method names of 1..4 words with digits, "
          "renamed or not; 0..4 parameters over {i64, u32, f64, bool, &str, String, Option<&str|i64|String|bool|&Pt>, &[i64], "
          "Vec<String>, &Pt, Pt, generic T: Serialize}; parameter renames; elided and explicit lifetimes; more / oneway; unit, owned "
          "and borrowed outputs; every method is invoked in every form the macro generates (plain, chain_<m>, chain extension) with "
          "random argument values, 40 (thorough 2000) rounds; replies scripted as success / declared error / undeclared error / "
          "service error / wrong shape / wrong error parameters, streams of 0..3 continuing replies + final; distinct = (method, "
          "form, round)"),
    oracle=("the captured call (as JSON, duplicate-key checked, exactly one write) == the frame computed from the declaration: method "
            "<interface>.<PascalCase(name) | rename>, each argument under its declared wire name, None omitted, no parameters member "
            "for a method without arguments, more / oneway exactly when annotated; the three forms agree; a oneway method makes no "
            "read; replies come back as Ok(Ok) / Ok(Err) / Err exactly as receive_reply classifies the same frame with the same "
            "types; streaming methods yield one item per reply up to the final one"),
    assumptions=CORPUS_ASSUME + ["a method without outputs ignores the parameters of a successful reply (reference receives them as IgnoredAny)"],
    floor_quick=2_000, floor_thorough=100_000,
    steps=[
        dict(layer="native", package="corpus", monitor="c12", features="c12,drivers", tsuffix="-c12", shards_quick=4, shards_thorough=16),
    ],
)

PROPS["C16"] = dict(
    level="exploration", pre="prepare_corpus",
    rule=("a generated corpus of types using the introspection derives (quick 40 items, thorough 160): Type / CustomType structs "
          "with 0..6 fields and unit-variant enums, ReplyError enums with unit / struct / single-tuple variants; field types over "
          "every Type impl available (all integer widths, floats, bool, char, &str, String, (), serde_json::Value, paths, OS strings, "
          "net and time types, Option, Vec, slices, hash/btree sets and string-keyed maps, Box/Rc/Arc/Cell/RefCell/Cow, nested custom "
          "types), lifetimes, doc comments on types, fields and variants; each item is one case (the descriptions are constants)"
          " ; 30 (thorough 60) further items whose every documentable place carries documentation as people write it (fenced examples, tilde fences, unclosed fences, lists, tables, links, HTML, indented code)"),
    oracle=("TYPE / CUSTOM_TYPE / VARIANTS walked through the accessors == the expectation tree emitted next to the declaration "
            "(names, order, Varlink types, doc comments after trimming); an interface assembled from the derived piece renders to "
            "text that parses back to an equal description (accessor comparison and the library's PartialEq)"),
    assumptions=CORPUS_ASSUME + ["Option<Option<_>>, raw identifiers and serde renames are outside the corpus (DESIGN C16)"],
    floor_quick=40, floor_thorough=160,
    steps=[
        dict(layer="native", package="corpus", monitor="c16", features="c16,drivers", tsuffix="-c16", shards_quick=1, shards_thorough=1),
    ],
)

PROPS["C05"] = dict(
    level="exploration", pre="prepare_corpus",
    rule=("(a) call encode: 7 method values (adjacently tagged enums with unit / struct / option variants, borrowed fields, a strict "
          "struct, both org.varlink.service methods) x all 8 flag sets, through serde_json and through send_call; (b) call decode: "
          "8 method shapes x all 27 flag states (absent / false / true) x an unknown extra member or not x member permutations (all "
          "when <= 120, else 40 sampled; thorough: all), through serde_json and receive_call; random call and Reply<T> round trips; "
          "(c) a generated corpus of ReplyError enums (quick 16, thorough 60: unit and struct variants, renamed fields, lifetimes, "
          "options) with random field values; (d) {absent, null, {}} parameters x {GetInfo, field-less service errors, field-less "
          "derived variants, proxy methods without outputs}, directly and through receive_call / receive_reply; distinct = the document"
          " ; error envelopes as a caller sees them: 8 error documents (derived unit / struct variants, service errors with and without parameters; {} and null spellings) x every member order x an unknown extra member in every position x with / without insignificant white space x {receive_reply, call_method, chain reply stream, proxy method}; corpus fields named like keywords and written as raw identifiers; corpus enums also decoded through receive_reply"),
    oracle=("encode == the method type's own members + exactly the set flags, no duplicate keys; decode: flags read back exactly and "
            "the method equals decoding the same object without the flags (Ok/Err agreement with the method type); decode(encode(c)) "
            "== c; derived errors encode as {error: <iface>.<Variant>[, parameters: {wire name: value}]}, on the wire too, decode from "
            "every member order and round-trip; every spelling of 'no parameters' is recognised"),
    assumptions=CORPUS_ASSUME,
    floor_quick=20_000, floor_thorough=200_000,
    steps=[
        dict(layer="native", monitor="c05", shards_quick=4, shards_thorough=8),
        dict(layer="native", package="corpus", monitor="c05", tag="corpus", features="c05,drivers", tsuffix="-c05", shards_quick=2, shards_thorough=8),
        dict(layer="miri", monitor="c05", shards_quick=4, shards_thorough=8, budget_quick=40, budget_thorough=400),
    ],
)


def prepare_corpus15(chk, pid, tier, seed, outdir):
    """C15: run zlink-codegen (as a library, through the `cg` tool) on a generated set of interfaces, compile
    the result, and hand over to the drivers. Modules that do not compile are reported (violation: generated
    code does not compile) and left out, so that the rest of the corpus is still exercised."""
    import hashlib, os, re, subprocess
    size = "quick" if tier == "quick" else "thorough"
    cseed = 1 if tier == "quick" else seed
    gen_dir = os.path.join(chk.HARNESS, "corpus15", "src", "gen")
    results, inconclusive = [], []
    ok, out = chk.build("native", "cg")
    if not ok:
        # cg links zlink-codegen: if that does not build, nothing can be observed
        return dict(results=[], inconclusive=["the corpus generator (which links zlink-codegen) does not build: " + out[-600:]], abort=True)
    cg = os.path.join(chk.HARNESS, "target-native", "release", "cg")
    # the generated code depends on zlink-codegen itself: regenerate whenever the generator binary or the seed changes
    stamp = hashlib.sha1(open(cg, "rb").read()).hexdigest()[:16] + f"-{cseed}-{size}"
    stamp_file = os.path.join(gen_dir, ".stamp")
    excluded = []

    def generate():
        r = subprocess.run([cg, str(cseed), size, gen_dir, ",".join(map(str, excluded))], stdout=subprocess.PIPE, stderr=subprocess.STDOUT, text=True)
        return r.returncode == 0, r.stdout

    if not (os.path.exists(stamp_file) and open(stamp_file).read() == stamp):
        g, gout = generate()
        if not g:
            return dict(results=[], inconclusive=["cg failed: " + gout[-600:]], abort=True)
        open(stamp_file, "w").write(stamp)
    for attempt in range(4):
        chk._built.pop(("native", "corpus15", "drivers", "-c15"), None)
        ok, out = chk.build("native", "corpus15", "drivers", "-c15")
        if ok:
            break
        chk._built.pop(("native", "corpus15", "", "-c15"), None)
        ok1, out1 = chk.build("native", "corpus15", "", "-c15")            # generated modules only
        if ok1:
            inconclusive.append("the generated modules compile but the harness' drivers do not fit them: " + out[-800:])
            break
        bad = sorted(set(int(x) for x in re.findall(r"gen/m(\d+)\.rs", out1)))
        if not bad or attempt == 3:
            inconclusive.append("corpus15 does not build and no generated module is named in the errors: " + out1[-600:])
            break
        first_err = {}
        for m in re.finditer(r"(error(?:\[E\d+\])?: [^\n]*)\n\s*--> corpus15/src/gen/m(\d+)\.rs", out1):
            first_err.setdefault(int(m.group(2)), m.group(1))
        rep = dict(property=pid, monitor="c15", evaluations=len(bad), distinct=len(bad), distinct_hashes=None, samples=[],
                   violations=[dict(signature="C15/generated-code-does-not-compile",
                                    detail=f"modules {bad} generated by zlink-codegen do not compile, e.g. " + "; ".join(f"m{k}: {e}" for k, e in list(first_err.items())[:6]) + "\n(IDL texts are in corpus15/src/gen/d<k>.rs, const IDL)",
                                    replay=dict(monitor="c15", modules=bad))],
                   violation_counts={"C15/generated-code-does-not-compile": len(bad)},
                   counters={"modules_not_compiling": len(bad)}, inconclusive=[], exhaustive=False, notes=[])
        results.append(dict(layer="native", monitor="c15", shard=0, rc=0, wall=0.0, output_tail="", report=rep))
        excluded.extend(bad)
        generate()
        if os.path.exists(stamp_file):
            os.remove(stamp_file)     # a corpus with exclusions is never reused
    return dict(results=results, inconclusive=inconclusive)


PROPS["C15"] = dict(
    level="exploration", pre="prepare_corpus15",
    rule=("a generated corpus of interface descriptions (quick 24 interfaces / ~60 methods, thorough 200) with non-recursive types "
          "and names that stay distinct after case conversion: member names with acronyms (GetURL, NotOK, IPv6, HTTPStatus), digits "
          "(Get2FA, Box2D), Rust keywords (Type, Move, Fn ...); field / parameter names in camelCase, snake_case, with digits and "
          "keywords (type, match, try, box ...); enum values such as fooBar, IPv6, notOK; types over every constructor incl. inline "
          "structs and enums; zlink_codegen is called as a library on each, the modules are compiled, and every method is called "
          "through its generated proxy with random values of the declared shapes, 400 (thorough 20000) rounds; distinct = (method, round)"),
    oracle=("the generated modules compile; the captured call == {method: <interface>.<IDL name>, parameters: {<IDL parameter "
            "names>: values}} (null == absent for nullable members); replies and errors scripted with exactly the IDL's spellings "
            "decode as Ok(Ok(out)) / Ok(Err(e)) and the decoded value re-encodes to the scripted spellings; custom-typed arguments are "
            "built by deserialising IDL-spelled JSON into whatever type the generated signature asks for - a refusal is a violation"),
    assumptions=["the driver assumes of codegen only: scalars by value, everything else by reference or Option thereof, Rust method name = snake_case (+ '_' for keywords)",
                 "the quick corpus has a fixed seed; modules that do not compile are reported and left out so that the rest still runs"],
    floor_quick=2_000, floor_thorough=100_000,
    steps=[
        dict(layer="native", package="corpus15", monitor="c15", features="drivers", tsuffix="-c15", shards_quick=4, shards_thorough=16),
    ],
)
SETUP_EXTRA += [("native", "cg")]

# Dimensions added in the sixth and seventh rounds of seeded changes (DESIGN.md section 5, "Additions of the sixth and
# seventh seeding rounds"); appended to the rule texts that end up in the evidence files.
_LATER = {
    "C03": "values whose Serialize asks is_human_readable() (std net address types, by-readability wrappers) anywhere in the trees and as map keys; the varied messages carry a map with the widest integers as keys and values",
    "C04": "error types with a single variant (a zero-sized enum that is not uninhabited; one variant with parameters); a fourth path: the reply as the first item of a chain's reply stream",
    "C06": "the owed replies are spelled in six styles (member orders, insignificant white space); the transport takes the chain's write only after 1..3 Pending answers while the replies are already waiting; real sockets: chains of up to 1.3 MB on connections that were written to before, a peer that is slow to take the calls",
    "C07": "the replies of the mixed-consumer scripts are spelled in six styles (member orders, insignificant white space)",
    "C08": "stray terminators (empty frames) in the bursts of every sixth client (oracle: everything answered, or the connection closed by the server with a prefix of what is owed); every fifth random scenario under a cooperative budget (1..8 transport operations per poll, then every transport answers Pending); every sixth with a service that suspends inside handle(); every world under a watchdog",
    "C09": "fault kind huge-frame (1..3 MiB that is no call); cooperative budget and suspending service as in C08; a world whose poll never returns is a violation (watchdog), not a time-out",
    "C10": "service-side streams count polls made after they ended (a violation); streams that are already ended when first polled; cooperative budget and suspending service as in C08",
    "C11": "a frame of a later exchange in the receive buffer behind a same-read burst",
    "C12": "success replies without parameters for methods that declare outputs, plain and streaming: one item per reply",
    "C13": "members of different kinds may share a name",
    "C14": "members of different kinds may share a name; one comment line in eight ends in white space",
    "C15": "the empty inline struct () among the IDL types; null and {} are interchangeable only for the whole parameters value",
    "C16": "fields named to dodge a keyword or marked internal (type_, in_, _id), described under those names (rendering is only demanded of descriptions whose names are legal IDL)",
    "C17": "the varied messages carry a map with the widest integers as keys and values",
    "C20": "a threaded layer: one setter thread and 1..4 subscriber threads (fast and slow ones) whose wakers unpark them, 1..60 sets, both crates; thorough: the same under ThreadSanitizer (filtered to /repo frames)",
    "C18": "floods through the transport (one call per read) under a cooperative budget of 1..8 transport operations per poll; a call behind a stream is ready once the stream closed and its items are out; real sockets: an order that looks unfair must repeat with a grace period of 2..200 ms for the reactor before it is reported",
}
_ROUND8 = {
    "C01": "real sockets: the peer hangs up with a message of ours unread (connection reset behind its last frame)",
    "C02": "chains among the operations of a history (sent at once, or started and given up)",
    "C03": "collect_seq / collect_map among the value shapes",
    "C04": "error frames with the widest integers, long floats, long runs of digits; error parameters whose strings carry JSON escapes",
    "C05": "a call type with 128-bit integers (decode reference in the member order of the judged document)",
    "C06": "connection histories with refused messages, a chain exchange, an abandoned receive; streams given up after some of their items (the rest is received afterwards)",
    "C08": "calls answered with a reply that cannot be encoded (no later answer may take the place of the missing one); answers are on the wire before 3(N+1)+6 further calls were handled",
    "C09": "write failures of other kinds (send timeout, would-block, interrupted, broken pipe), sticky Interrupted read errors",
    "C10": "write failures of other kinds; a busy stream (40..300 ready items) next to a caller whose call must be handled before more than 3(N+1)+6 items went out",
    "C11": "held items are re-read after every poll that received nothing (own signature)",
    "C13": "carriage returns as white space and line ends",
    "C14": "carriage returns as white space and line ends; the exchange also through the chain API of the standard interface",
    "C16": "the parser has refused hundreds of texts before the first derived description is parsed back",
    "C17": "long histories (several times the limit in total, stray terminators) before the frame under test; production limit: a batch of small calls up to 72 MiB (thorough: up to the limit) accepted and flushed in one write",
    "C18": "answers are on the wire before 3(N+1)+6 further calls were handled; real sockets: a long burst (300..500 calls) with a call arriving in the middle of it must be noticed within 200 calls (single-threaded runtimes)",
}
for _k, _v in _LATER.items():
    PROPS[_k]["rule"] = PROPS[_k]["rule"] + " ; " + _v
for _k, _v in _ROUND8.items():
    PROPS[_k]["rule"] = PROPS[_k]["rule"] + " ; " + _v
PROPS["C20"]["oracle"] += ("; threads: a poll may answer Pending only if no set that returned before the poll began stored a value different "
                            "from the one the subscriber holds; a parked subscriber's waker must have fired once such a set has returned, "
                            "and once every handle of the state is gone; ordinals strictly increasing and newer than the subscription; "
                            "the stream ends only after the drop of the last handle has begun")

LEVEL_TEXT = {}

def _na():
    import json, os
    ids = [json.loads(l)["id"] for l in open(os.path.join(os.path.dirname(__file__), "..", "properties.jsonl"))]
    return [dict(property_id=i, reason="monitor not built yet (work in progress; see DESIGN.md section 5 for the planned oracle)")
            for i in ids if i not in PROPS]

NOT_APPLICABLE = _na()

"""Per-property step tables for ./check.

A step: layer (see LAYERS in check), monitor (zv sub-command), shards_quick / shards_thorough,
optional budget_quick / budget_thorough (passed as --budget: total sampled cases over all shards),
optional tier ("quick" | "thorough" | "both").
"""

SETUP_EXTRA = []

PROPS = {}

PROPS["C01"] = dict(
    level="exploration",
    rule=("cases are (frame sequence, target type per frame, partition of the byte stream into read "
          "chunks); frames come from a seeded generator (valid / whitespace-padded / wrong-shape / "
          "malformed / growth-step-sized), partitions are exhaustive for tiny streams, all single and "
          "pair cuts for streams <= 160 bytes, structured (per NUL, fixed sizes around 256) and random "
          "otherwise; a case is distinct by the hash of (stream bytes, targets, cut positions); every "
          "case has >= 1 frame and ends with a close, so none is trivial"),
    oracle=("receive j == serde_json::from_slice::<T_j>(frame j) (decoded value or error), receive n+1 "
            "== end-of-stream; no extra/missing/reordered results; no panic"),
    assumptions=["serde_json::from_slice on the NUL-delimited frame is the reference decoder",
                 "reply frames whose error member nobody recognises are excluded here (C04 decides them)"],
    floor_quick=50_000, floor_thorough=1_000_000,
    steps=[
        dict(layer="native", monitor="c01", shards_quick=4, shards_thorough=16),
        dict(layer="miri", monitor="c01", shards_quick=8, shards_thorough=16, budget_quick=64,
             budget_thorough=1600),
        dict(layer="asan", monitor="c01", shards_thorough=8, budget_thorough=200_000, tier="thorough"),
    ],
)


LEVEL_TEXT = {}

def _na():
    import json, os
    ids = [json.loads(l)["id"] for l in open(os.path.join(os.path.dirname(__file__), "..", "properties.jsonl"))]
    return [dict(property_id=i, reason="monitor not built yet (work in progress; see DESIGN.md section 5 for the planned oracle)")
            for i in ids if i not in PROPS]

NOT_APPLICABLE = _na()

#!/bin/bash
# usage: tools/b.sh native|small  — build zv for a layer (development helper)
cd /verif/harness
case "$1" in
  native) export CARGO_TARGET_DIR=/verif/harness/target-native RUSTFLAGS="--cfg zlink_verif";;
  small) export CARGO_TARGET_DIR=/verif/harness/target-small RUSTFLAGS="--cfg zlink_verif --cfg zlink_verif_small_buf";;
esac
flock /root/repo.lock cargo build --release 2>&1 | grep -E "^(error|warning)" -A12 | head -${2:-60}

#!/bin/bash
# usage: tools/scratch.sh <worktree of /repo> <dest dir>
# Development helper (never used by a registered check): a private copy of the machinery whose harness
# depends on <worktree> instead of /repo, so that a seeded change can be tried without touching /repo
# and several can be tried in parallel. Build output of the copy lives in the copy; delete it afterwards.
set -eu
WT=$(realpath "$1"); DEST=$2
mkdir -p "$DEST"
rsync -a --delete --exclude '.git' --exclude 'target*' --exclude 'run' --exclude 'replays' --exclude 'seeded' "$(dirname "$0")/../" "$DEST/"
grep -rlE '/repo' "$DEST/check" "$DEST/harness" "$DEST/tools" --include='*' 2>/dev/null | grep -v '/target' | while read -r f; do
  sed -i "s#/repo/#$WT/#g; s#\"/repo\"#\"$WT\"#g" "$f"
done
rm -f "$DEST/harness/Cargo.lock"; cp "$WT/Cargo.lock" "$DEST/harness/Cargo.lock"
echo "scratch copy in $DEST uses $WT"

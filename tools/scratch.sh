#!/bin/bash
# usage: tools/scratch.sh <worktree of /repo> <dest dir>
# Development helper (never used by a registered check): a private copy of the machinery whose harness
# depends on <worktree> instead of /repo, so that a seeded change can be tried without touching /repo
# and several can be tried in parallel. Build output of the copy lives in the copy; delete it afterwards.
set -eu
WT=$(realpath "$1"); DEST=$2
mkdir -p "$DEST"
# the committed state (HEAD), so that edits in progress in /verif never end up in a scratch copy
git -C "$(dirname "$0")/.." archive HEAD -- . ':(exclude)seeded' ':(exclude)evidence' | tar -x -C "$DEST"
mkdir -p "$DEST/evidence" "$DEST/seeded"
grep -rlE '/repo' "$DEST/check" "$DEST/harness" "$DEST/tools" --include='*' 2>/dev/null | grep -v '/target' | while read -r f; do
  sed -i "s#/repo/#$WT/#g; s#\"/repo\"#\"$WT\"#g" "$f"
done
rm -f "$DEST/harness/Cargo.lock"; cp "$WT/Cargo.lock" "$DEST/harness/Cargo.lock"
echo "scratch copy in $DEST uses $WT"

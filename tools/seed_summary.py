#!/usr/bin/env python3
"""Writes seeded/SUMMARY.md from seeded/*/meta.json and result.json (which check caught which seeded change)."""
import glob, json, os
rows = []
for d in sorted(glob.glob(os.path.join(os.path.dirname(__file__), "..", "seeded", "C*"))):
    name = os.path.basename(d)
    try:
        m = json.load(open(os.path.join(d, "meta.json")))
    except Exception:
        continue
    try:
        r = json.load(open(os.path.join(d, "result.json")))
    except Exception:
        r = {}
    def cell(t):
        x = r.get(t)
        if not x:
            return "not run"
        if x["check_exit"] == 1:
            return "caught (%ds): %s" % (x["wall_s"], "; ".join(s.split("/", 1)[-1] for s in x["signatures"][:3]))
        return "MISSED" if x["check_exit"] == 0 else "no verdict (exit %d)" % x["check_exit"]
    summary = m.get("summary", "").replace("\n", " ").replace("|", "/")
    note = r.get("note", "") or m.get("note", "") or ""
    others = ["%s's check: %s" % (k.split("@")[1], "caught" if v.get("check_exit") == 1 else "missed") for k, v in r.items() if "@" in k]
    if others:
        note = (note + " " if note else "") + "; ".join(others)
    rows.append((name, m.get("property", "?"), summary[:260], m.get("needs", "").replace("\n", " ").replace("|", "/")[:200], cell("quick"), cell("thorough"), note))
with open(os.path.join(os.path.dirname(__file__), "..", "seeded", "SUMMARY.md"), "w") as f:
    f.write("# Seeded changes and which check catches them\n\n")
    f.write("Each change was written by a sub-agent that saw only the property text, compiles, passes the existing test suite, and comes with a demonstration that fails with it and passes without (all three re-confirmed independently, see tools/confirm_seed.sh). `./check <property>` was run with the change applied to /repo (tools/seedtest.sh).\n\n")
    f.write("| seed | property | change | needs | quick check | thorough check | note |\n|---|---|---|---|---|---|---|\n")
    for row in rows:
        f.write("| " + " | ".join(row) + " |\n")
    caught = sum(1 for r in rows if r[4].startswith("caught") or r[5].startswith("caught"))
    other = sum(1 for r in rows if not (r[4].startswith("caught") or r[5].startswith("caught")) and "check: caught" in r[6])
    f.write(f"\n{caught} of {len(rows)} caught by the property's own check, {other} more by the check of the property whose code they change.\n")
print(open(os.path.join(os.path.dirname(__file__), "..", "seeded", "SUMMARY.md")).read()[-300:])

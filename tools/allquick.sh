#!/bin/bash
# usage: tools/allquick.sh [seed]  — setup + every quick check once; one summary line per property (development helper)
cd "$(dirname "$0")/.."
export VERIF_SEED=${1:-1}
./check --setup > allquick-setup.log 2>&1
for i in 01 02 03 04 05 06 07 08 09 10 11 12 13 14 15 16 17 18 19 20; do
  s=$(date +%s); ./check C$i --tier quick > allquick-C$i.log 2>&1; rc=$?
  echo "C$i exit=$rc $(( $(date +%s)-s ))s $(grep -c '^VIOLATION' allquick-C$i.log) violations $(grep -c '^INCONCLUSIVE' allquick-C$i.log) inconclusive"
done

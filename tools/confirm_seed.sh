#!/bin/bash
# usage: tools/confirm_seed.sh <seed-dir> <worktree>   — independently confirm a seeded change:
#   (1) demo passes on clean HEAD, (2) demo fails with the patch, (3) existing suite passes with the patch.
# The demo is a single *.rs file installed as <crate>/tests/<name>.rs (crate guessed from the README, default zlink-core).
set -u
D=$1; W=$2
cd "$W" || exit 2
git checkout -q -- . && git clean -qfd
DEMO=$(ls "$D"/*.rs | head -1); NAME=$(basename "$DEMO" .rs)
CRATE=$(grep -o "cargo test -p [a-z-]*" "$D/README.md" | head -1 | awk '{print $4}'); CRATE=${CRATE:-zlink-core}
FEAT=$(grep -o "cargo test -p [a-z-]* .*--test $NAME.*" "$D/README.md" | grep -o -- "--features [a-z,_-]*" | head -1)
mkdir -p $CRATE/tests && cp "$DEMO" $CRATE/tests/
export CARGO_NET_OFFLINE=true
cargo test -q -p $CRATE --offline $FEAT --test $NAME > "$D/confirm_demo_clean.log" 2>&1; A=$?
git apply "$D/patch.diff" || { echo "$D: PATCH DOES NOT APPLY"; exit 1; }
cargo test -q -p $CRATE --offline $FEAT --test $NAME > "$D/confirm_demo_patched.log" 2>&1; B=$?
rm -f $CRATE/tests/$NAME.rs
cargo test -q --workspace --offline --no-fail-fast > "$D/confirm_suite_patched.log" 2>&1; C=$?
git checkout -q -- . && git clean -qfd
echo "$D: demo_clean_rc=$A demo_patched_rc=$B suite_patched_rc=$C  => $([ $A -eq 0 ] && [ $B -ne 0 ] && [ $C -eq 0 ] && echo CONFIRMED || echo NOT-CONFIRMED)"

#!/bin/bash
# usage: tools/confirm_seed.sh <seed-dir> <worktree>   — independently confirm a seeded change:
#   (1) demo passes on clean HEAD, (2) demo fails with the patch, (3) existing suite passes with the patch.
# The demo is a single *.rs file; where it is installed and how it is run is taken from the README's own
# `cp ... <crate>/tests/` and `cargo test ... --test <name>` lines.
set -u
D=$1; W=$2
cd "$W" || exit 2
git checkout -q -- . && git clean -qfd
DEMO=$(ls "$D"/*.rs | head -1); NAME=$(basename "$DEMO" .rs)
README=$(mktemp); sed -e ':a' -e '/\\$/N; s/\\\n */ /; ta' "$D/README.md" > "$README"
DEST=$(grep -o "cp [^ ]*$NAME.rs [^ ]*" "$README" | head -1 | awk '{print $3}' | tr -d '`'); DEST=${DEST:-zlink-core/tests/}
case "$DEST" in /*) DEST=${DEST#$W/}; DEST=${DEST#/tmp/wt-*/};; esac
CMD=$(grep -o "cargo test [^\`]*--test $NAME[^\`]*" "$README" | head -1); CMD=${CMD:-cargo test -p zlink-core --offline --test $NAME}
case "$DEST" in *.rs) mkdir -p "$(dirname "$DEST")"; cp "$DEMO" "$DEST"; INST="$DEST";; *) mkdir -p "$DEST"; cp "$DEMO" "$DEST/"; INST="$DEST/$NAME.rs";; esac
export CARGO_NET_OFFLINE=true
$CMD > "$D/confirm_demo_clean.log" 2>&1; A=$?
git apply "$D/patch.diff" || { echo "$D: PATCH DOES NOT APPLY"; exit 1; }
$CMD > "$D/confirm_demo_patched.log" 2>&1; B=$?
rm -f "$INST"
cargo test -q --workspace --offline --no-fail-fast > "$D/confirm_suite_patched.log" 2>&1; C=$?
git checkout -q -- . && git clean -qfd
echo "$D: [$CMD] demo_clean_rc=$A demo_patched_rc=$B suite_patched_rc=$C  => $([ $A -eq 0 ] && [ $B -ne 0 ] && [ $C -eq 0 ] && echo CONFIRMED || echo NOT-CONFIRMED)"

#!/bin/bash
# usage: tools/seedtest_scratch.sh <seed dir (patch.diff, meta.json)> <worktree of /repo> [tier]
# Like seedtest.sh but without touching /repo: the patch is applied in <worktree>, a scratch copy of the
# machinery (tools/scratch.sh) is pointed at it, the property's check runs there, everything is undone.
# Optional 4th argument: run another property's check instead (result stored under "<tier>@<PID>").
# Writes <seed dir>/result.json and <seed dir>/check_<tier>.log; prints one summary line.
set -u
D=$(realpath "$1"); WT=$(realpath "$2"); TIER=${3:-quick}
PID=$(python3 -c "import json;print(json.load(open('$D/meta.json'))['property'])")
KEY=$TIER
if [ -n "${4:-}" ]; then PID=$4; KEY="$TIER@$4"; fi
HERE=$(cd "$(dirname "$0")/.." && pwd)
SC=/tmp/vs-$(basename "$D")-$$
git -C "$WT" checkout -q -- . ; git -C "$WT" apply "$D/patch.diff" || { echo "$D: patch does not apply"; exit 2; }
"$HERE/tools/scratch.sh" "$WT" "$SC" >/dev/null
T0=$(date +%s)
( cd "$SC" && VERIF_SEED=${VERIF_SEED:-1} ./check $PID --tier $TIER ) > "$D/check_$KEY.log" 2>&1; RC=$?
T1=$(date +%s)
git -C "$WT" checkout -q -- .
rm -rf "$SC"
SIGS=$(grep "^  signature:" "$D/check_$KEY.log" | sed 's/^  signature: //' | sort -u | tr '\n' ';')
python3 - "$D" "$PID" "$KEY" "$RC" "$((T1-T0))" "$SIGS" <<'PY'
import json,sys
d,pid,tier,rc,wall,sigs=sys.argv[1:7]
p=d+'/result.json'
try: r=json.load(open(p))
except Exception: r={}
r[tier]={"check_exit":int(rc),"detected":int(rc)==1,"wall_s":int(wall),"signatures":[s for s in sigs.split(';') if s],"how":"scratch copy of /verif against a worktree with the patch applied"}
json.dump(r,open(p,'w'),indent=1)
print(f"{d.split('/')[-1]}: {pid} {tier} exit={rc} detected={int(rc)==1} {wall}s {sigs[:300]}")
PY
